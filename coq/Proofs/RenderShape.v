(* C04 (d): the parameterized SQL text does not depend on the values: two trees that differ only in leaf values of the same kind
   (Spec/SameKind.v) render the same text (and fail alike); only the parameter lists differ, element by element of the same kind *)
Require Import Parser ParserShape Render RenderTotal RenderParamTotal SameKind.
From Coq Require Import List Ascii String ZArith Bool Lia Arith.
Import ListNotations.

Section S.
Variable o2 : oracle2.

(* parameters of the same kind *)
Definition pk (v v' : value) : Prop :=
  match v, v' with
  | VStr s, VStr s' => is_regex_text s = is_regex_text s'
  | VInt _, VInt _ | VFloat _, VFloat _ | VBool _, VBool _ => True
  | _, _ => False
  end.

Definition rel (x x' : out pres) : Prop :=
  match x, x' with
  | Ret (t, ps, None), Ret (t', ps', None) => t = t' /\ Forall2 pk ps ps'
  | Ret (t, _, Some _), Ret (t', _, Some _) => t = t'
  | Panic _, Panic _ => True
  | _, _ => False
  end.

(* translation keeps the first and last character's being a slash *)
Lemma replace_char1_first c d s x : d <> x -> c <> x -> first_is (replace_char c (String d "") s) x = first_is s x.
Proof.
  intros Hd Hc. destruct s as [|a s]; [reflexivity|]. cbn [replace_char]. destruct (Ascii.eqb a c) eqn:E.
  - apply Ascii.eqb_eq in E. subst a. unfold first_is. cbn. destruct (Ascii.eqb d x) eqn:E1; [apply Ascii.eqb_eq in E1; contradiction|].
    destruct (Ascii.eqb c x) eqn:E2; [apply Ascii.eqb_eq in E2; contradiction|reflexivity].
  - reflexivity.
Qed.
Lemma replace_char1_length c d s : String.length (replace_char c (String d "") s) = String.length s.
Proof. induction s as [|a s IH]; [reflexivity|]. cbn [replace_char]. destruct (Ascii.eqb a c); cbn; rewrite IH; reflexivity. Qed.
Lemma last_char_cons a t : t <> EmptyString -> last_char (String a t) = last_char t.
Proof. destruct t; [contradiction|reflexivity]. Qed.
Lemma rc1_nonempty c d s : s <> EmptyString -> replace_char c (String d "") s <> EmptyString.
Proof. destruct s as [|a s]; [contradiction|]. intros _. cbn [replace_char]. destruct (Ascii.eqb a c); discriminate. Qed.
Lemma rc_cons c by_ a r : replace_char c by_ (String a r) = if Ascii.eqb a c then (by_ ++ replace_char c by_ r)%string else String a (replace_char c by_ r).
Proof. reflexivity. Qed.
Lemma rc1_last c d s : last_char (replace_char c (String d "") s) = match last_char s with Some a => Some (if Ascii.eqb a c then d else a) | None => None end.
Proof.
  induction s as [|a s IH]; [reflexivity|].
  destruct s as [|b s'].
  - cbn. destruct (Ascii.eqb a c); reflexivity.
  - assert (Ne : String b s' <> EmptyString) by discriminate.
    rewrite (last_char_cons a (String b s') Ne). rewrite <- IH.
    rewrite (rc_cons c (String d "") a (String b s')). destruct (Ascii.eqb a c).
    + change (String d "" ++ replace_char c (String d "") (String b s'))%string with (String d (replace_char c (String d "") (String b s'))).
      apply last_char_cons. apply rc1_nonempty. exact Ne.
    + apply last_char_cons. apply rc1_nonempty. exact Ne.
Qed.
Lemma replace_char1_last c d s x : d <> x -> c <> x -> last_is (replace_char c (String d "") s) x = last_is s x.
Proof.
  intros Hd Hc. unfold last_is. rewrite rc1_last. destruct (last_char s) as [a|]; [|reflexivity].
  destruct (Ascii.eqb a c) eqn:E; [|reflexivity]. apply Ascii.eqb_eq in E. subst a.
  destruct (Ascii.eqb d x) eqn:E1; [apply Ascii.eqb_eq in E1; contradiction|].
  destruct (Ascii.eqb c x) eqn:E2; [apply Ascii.eqb_eq in E2; contradiction|reflexivity].
Qed.
Lemma translate_regexness s : is_regex_text (replace_char "?"%char "_" (replace_char "*"%char "%" s)) = is_regex_text s.
Proof.
  unfold is_regex_text. rewrite !replace_char1_length.
  rewrite (replace_char1_first "?"%char "_"%char), (replace_char1_first "*"%char "%"%char) by discriminate.
  rewrite (replace_char1_last "?"%char "_"%char), (replace_char1_last "*"%char "%"%char) by discriminate.
  reflexivity.
Qed.

Lemma pk_head_num p p' : pk p p' -> (match p with VInt _ | VFloat _ => true | _ => false end) = (match p' with VInt _ | VFloat _ => true | _ => false end).
Proof. destruct p, p'; cbn; intros H; try contradiction; reflexivity. Qed.

Lemma rang_param_rel lf rt rp rp' : Forall2 pk rp rp' ->
  match fn_rang_param o2 lf rt rp, fn_rang_param o2 lf rt rp' with
  | Ret x, Ret x' => x = x'
  | Panic _, Panic _ => True
  | _, _ => False
  end.
Proof.
  intros H. unfold fn_rang_param, fn_rang_core.
  destruct (String.length rt) as [|[|n]]; try exact I.
  destruct (split_comma (strip_ends rt) "") as [|a [|b [|c l]]]; try reflexivity.
  destruct (String.eqb (trim a) "?" || String.eqb (trim b) "?"); [|reflexivity].
  destruct H as [|p p' ps ps' Hp _]; [exact I|].
  destruct p, p'; cbn in Hp; try contradiction; reflexivity.
Qed.

Lemma rp_node_rel l l' op r r' lf lp lp' rt rp rp' :
  is_simple l = is_simple l' -> is_simple r = is_simple r' -> Forall2 pk lp lp' -> Forall2 pk rp rp' ->
  rel (rp_node o2 l op r lf lp rt rp) (rp_node o2 l' op r' lf lp' rt rp').
Proof.
  intros Sl Sr Hl Hr. unfold rp_node. rewrite <- Sl, <- Sr.
  destruct op;
  try (cbn [bind]; destruct (pg_fn o2 _) as [fn|]; [destruct (fn _ _) as [[s [er|]]|]; cbn [bind rel fst snd]; auto; split; [reflexivity|apply Forall2_app; assumption] | cbn [rel]; reflexivity]).
  - (* Like *)
    destruct Hr as [|p p' ps ps' Hp Hps].
    + destruct (String.eqb rt "'*'"); cbn [bind rel].
      * split; [reflexivity|]. apply Forall2_app; [exact Hl|]. constructor; [reflexivity|constructor].
      * exact I.
    + destruct p, p'; cbn in Hp; try contradiction; try exact I.
      assert (Hpk : pk (VStr s) (VStr s0)) by exact Hp.
      assert (R0 : is_regex_text s0 = is_regex_text s) by (symmetry; exact Hp). rewrite R0.
      destruct (is_regex_text s) eqn:R; cbn [bind].
      * destruct Hps as [|q q' qs qs' Hq Hqs]; cbn [rel].
        -- rewrite R0, R. split; [reflexivity|]. apply Forall2_app; [exact Hl|]. constructor; [exact Hpk|constructor].
        -- split; [reflexivity|]. apply Forall2_app; [exact Hl|]. constructor; [exact Hpk|constructor; assumption].
      * assert (Tk : pk (VStr (replace_char "?"%char "_" (replace_char "*"%char "%" s))) (VStr (replace_char "?"%char "_" (replace_char "*"%char "%" s0))))
          by (cbn; rewrite !translate_regexness; rewrite R, R0; reflexivity).
        destruct Hps as [|q q' qs qs' Hq Hqs]; cbn [rel].
        -- rewrite !translate_regexness, R0, R. split; [reflexivity|]. apply Forall2_app; [exact Hl|]. constructor; [exact Tk|constructor].
        -- split; [reflexivity|]. apply Forall2_app; [exact Hl|]. constructor; [exact Tk|constructor; assumption].
  - (* Range *)
    cbn [bind]. pose proof (rang_param_rel (wrap_if (negb (no_wrap_op Range) && negb (is_simple l)) lf) (wrap_if (negb (no_wrap_op Range) && negb (is_simple r)) rt) rp rp' Hr) as RR.
    destruct (fn_rang_param o2 _ _ rp) as [[s e]|], (fn_rang_param o2 _ _ rp') as [[s' e']|]; try contradiction; [|exact I].
    inversion RR; subst. cbn [bind rel fst snd]. destruct e'; [reflexivity|]. split; [reflexivity|apply Forall2_app; assumption].
Qed.

Lemma op_eqb_true a b : op_eqb a b = true -> a = b.
Proof. destruct a, b; cbn; intros H; try discriminate; reflexivity. Qed.

Lemma sk_simple v v' : sk_v v v' = true -> is_simple v = is_simple v'.
Proof.
  destruct v, v'; cbn [sk_v]; intros H; try discriminate; try reflexivity.
  destruct e as [l op r b f], e0 as [l' op' r' b' f']. cbn [sk_e] in H.
  apply andb_true_iff in H. destruct H as [H _]. apply andb_true_iff in H. destruct H as [H _].
  apply op_eqb_true in H. subst. reflexivity.
Qed.

Lemma rel_bind_err x x' : rel x x' ->
  match x, x' with
  | Ret (_, _, Some _), Ret (_, _, None) | Ret (_, _, None), Ret (_, _, Some _) => False
  | _, _ => True
  end.
Proof. destruct x as [[[t p] [e|]]|], x' as [[[t' p'] [e'|]]|]; cbn; auto. Qed.

Theorem same_kind_same_text_sz : forall n,
  (forall e e', esize e <= n -> sk_e e e' = true -> rel (render_param o2 e) (render_param o2 e')) /\
  (forall v v', vsize v <= n -> sk_v v v' = true -> rel (ser_param o2 v) (ser_param o2 v')).
Proof.
  induction n as [|n [IHe IHv]].
  { split; [intros e e' H; destruct e; cbn in H; lia|].
    intros v v' H K. destruct v, v'; cbn [sk_v] in K; try discriminate; cbn in H; try lia.
    - cbn. split; [reflexivity|constructor].
    - cbn. split; [reflexivity|]. constructor; [exact I|constructor].
    - cbn. split; [reflexivity|]. constructor; [exact I|constructor].
    - apply andb_true_iff in K. destruct K as [K1 K2]. apply Bool.eqb_prop in K1, K2. cbn [ser_param]. rewrite K1.
      destruct (String.eqb s0 "*"); cbn; [split; [reflexivity|constructor]|split; [reflexivity|constructor; [exact K2|constructor]]].
    - cbn. split; [reflexivity|]. constructor; [exact I|constructor].
    - apply String.eqb_eq in K. subst. cbn [ser_param]. destruct (ser_column s0) as [t [er|]]; cbn; [reflexivity|split; [reflexivity|constructor]].
    - destruct e; cbn in H; lia. }
  assert (HE : forall e e', esize e <= S n -> sk_e e e' = true -> rel (render_param o2 e) (render_param o2 e')).
  { intros [l op r b f] [l' op' r' b' f'] H K. cbn in H. cbn [sk_e] in K.
    apply andb_true_iff in K. destruct K as [K Kr]. apply andb_true_iff in K. destruct K as [Ko Kl]. apply op_eqb_true in Ko. subst op'.
    rewrite !render_param_eq.
    pose proof (IHv l l' ltac:(lia) Kl) as Rl. pose proof (IHv r r' ltac:(lia) Kr) as Rr.
    destruct (ser_param o2 l) as [[[lf lp] [el|]]|], (ser_param o2 l') as [[[lf' lp'] [el'|]]|]; cbn [rel] in Rl; try contradiction; cbn [bind]; try exact I; try reflexivity.
    destruct Rl as [-> Hl].
    destruct (ser_param o2 r) as [[[rt rp] [er|]]|], (ser_param o2 r') as [[[rt' rp'] [er'|]]|]; cbn [rel] in Rr; try contradiction; cbn [bind]; try exact I; try reflexivity.
    destruct Rr as [-> Hr].
    apply rp_node_rel; [apply sk_simple; exact Kl|apply sk_simple; exact Kr|exact Hl|exact Hr]. }
  split; [exact HE|].
  intros v v' H K. destruct v, v'; cbn [sk_v] in K; try discriminate.
  - cbn. split; [reflexivity|constructor].
  - cbn. split; [reflexivity|]. constructor; [exact I|constructor].
  - cbn. split; [reflexivity|]. constructor; [exact I|constructor].
  - apply andb_true_iff in K. destruct K as [K1 K2]. apply Bool.eqb_prop in K1, K2. cbn [ser_param]. rewrite K1.
    destruct (String.eqb s0 "*"); cbn; [split; [reflexivity|constructor]|split; [reflexivity|constructor; [exact K2|constructor]]].
  - cbn. split; [reflexivity|]. constructor; [exact I|constructor].
  - apply String.eqb_eq in K. subst. cbn [ser_param]. destruct (ser_column s0) as [t [er|]]; cbn; [reflexivity|split; [reflexivity|constructor]].
  - cbn in H. apply (HE e e0 H K).
  - (* lists *)
    rewrite !serp_list_eq. cbn in H.
    assert (G : forall l l' acc ps ps',
      (fix ls (l : list expr) : nat := match l with [] => 0 | x :: r => esize x + ls r end) l <= n ->
      (fix each (l : list expr) (l' : list expr) : bool := match l, l' with [], [] => true | x :: r, x' :: r' => sk_e x x' && each r r' | _, _ => false end) l l' = true ->
      Forall2 pk ps ps' -> rel (serp_list o2 l acc ps) (serp_list o2 l' acc ps')).
    { induction l1 as [|x xs IHl]; intros l2 acc ps ps' Hl Kl Hp; destruct l2 as [|x' xs']; try discriminate.
      - cbn. split; [reflexivity|exact Hp].
      - apply andb_true_iff in Kl. destruct Kl as [Kx Kxs]. cbn [serp_list].
        pose proof (IHe x x' ltac:(lia) Kx) as Rx.
        destruct (render_param o2 x) as [[[s1 p1] [e1|]]|], (render_param o2 x') as [[[s2 p2] [e2|]]|]; cbn [rel] in Rx; try contradiction; cbn [bind]; try exact I.
        + exact Rx.
        + destruct Rx as [-> Hq]. apply IHl; [lia|exact Kxs|apply Forall2_app; assumption]. }
    apply G; [lia|exact K|constructor].
  - (* boundaries *)
    cbn in H. apply andb_true_iff in K. destruct K as [K Ki]. apply andb_true_iff in K. destruct K as [Ka Kb]. apply Bool.eqb_prop in Ki. subst.
    rewrite !ser_param_bound_eq.
    pose proof (IHv v1 v'1 ltac:(lia) Ka) as Ra. pose proof (IHv v2 v'2 ltac:(lia) Kb) as Rb.
    destruct (ser_param o2 v1) as [[[sa pa] [ea|]]|], (ser_param o2 v'1) as [[[sa' pa'] [ea'|]]|]; cbn [rel] in Ra; try contradiction; cbn [bind]; try exact I; try reflexivity.
    destruct Ra as [-> Ha].
    destruct (ser_param o2 v2) as [[[sb pb] [eb|]]|], (ser_param o2 v'2) as [[[sb' pb'] [eb'|]]|]; cbn [rel] in Rb; try contradiction; cbn [bind]; try exact I; try reflexivity.
    destruct Rb as [-> Hb]. cbn [rel]. split; [reflexivity|apply Forall2_app; assumption].
Qed.

(* C04 (d) *)
Theorem same_kind_same_text e e' t ps : sk_e e e' = true -> render_param o2 e = Ret (t, ps, None) ->
  exists ps', render_param o2 e' = Ret (t, ps', None) /\ Forall2 pk ps ps'.
Proof.
  intros K R. pose proof (proj1 (same_kind_same_text_sz (esize e)) e e' (le_n _) K) as H. rewrite R in H.
  destruct (render_param o2 e') as [[[t' ps'] [er|]]|]; cbn [rel] in H; try contradiction.
  destruct H as [-> Hp]. exists ps'. split; [reflexivity|exact Hp].
Qed.

End S.
