(* C04 (b): on every tree of the parser's output shape, the parameters RenderParam returns are exactly the query's values in
   left-to-right order with their Go kinds (Spec/Values.v) *)
Require Import Parser ParserShape Render RenderStr RenderStr2 RenderTotal RenderWfOk RenderInline RenderParamTotal Values.
From Coq Require Import List Ascii String ZArith Bool Lia Arith.
Import ListNotations.

Section V.
Variable o2 : oracle2.

Definition like_params (rt : string) (rp : list value) : list value :=
  let rp := match rp with [] => if String.eqb rt "'*'" then [VStr "*"%string] else rp | _ => rp end in
  match rp with
  | VStr rval :: rest => if is_regex_text rval then rp else VStr (replace_char "?"%char "_" (replace_char "*"%char "%" rval)) :: rest
  | _ => rp
  end.

Lemma rp_node_params l op r lf lp rt rp t ps g :
  rp_node o2 l op r lf lp rt rp = Ret (t, ps, g) ->
  ps = (lp ++ match op with Like => like_params rt rp | _ => rp end)%list.
Proof.
  unfold rp_node, like_params. destruct op;
  try (cbn [bind]; destruct (pg_fn o2 _) as [fn|]; [destruct (fn _ _) as [[s e]|]; cbn [bind]; intros H; inversion H; reflexivity | intros H; inversion H; reflexivity]).
  - (* Like *)
    destruct rp as [|p0 rest].
    + destruct (String.eqb rt "'*'"); cbn; intros H; inversion H; reflexivity.
    + destruct p0; try discriminate. destruct (is_regex_text s) eqn:R; cbn [bind].
      * destruct rest; [rewrite R|]; intros H; inversion H; reflexivity.
      * destruct rest; [destruct (is_regex_text _)|]; intros H; inversion H; reflexivity.
  - (* Range *)
    cbn [bind]. destruct (fn_rang_param o2 _ _ rp) as [[s e]|]; cbn [bind]; intros H; inversion H; reflexivity.
Qed.

(* a serialized leaf: its parameters are its values *)
Arguments rp_node : simpl never.
Lemma leaf_params e t ps : Shape.is_leaf e = true -> render_param o2 e = Ret (t, ps, None) -> ps = vals_e e.
Proof.
  destruct e as [l op r bo fu]. intros H.
  assert (Hr : r = VNil) by (destruct op, l, r; cbn in H; try discriminate; reflexivity). subst r.
  rewrite render_param_eq. intros R.
  assert (Hop : op <> Like) by (destruct op; try discriminate; destruct l; cbn in H; discriminate).
  destruct l as [|z|f|s| |c| | |]; try (destruct op; cbn in H; discriminate).
  - cbn in R. apply rp_node_params in R. destruct op; try contradiction; subst; reflexivity.
  - cbn in R. apply rp_node_params in R. destruct op; try contradiction; subst; reflexivity.
  - cbn [ser_param] in R. cbn [vals_e vals_v]. destruct (String.eqb s "*") eqn:Es; cbn in R;
    apply rp_node_params in R; destruct op; try contradiction; subst; reflexivity.
  - cbn [ser_param] in R. destruct (ser_column c) as [sc [er|]]; cbn in R; [discriminate|].
    apply rp_node_params in R. destruct op; try contradiction; subst; reflexivity.
Qed.

Lemma pattern_leaf_out e t ps : is_pattern e = true -> render_param o2 e = Ret (t, ps, None) ->
  exists p, e_left e = VStr p /\ ((String.eqb p "*" = true /\ ps = [] /\ t = "'*'"%string) \/ (String.eqb p "*" = false /\ ps = [VStr p])).
Proof.
  destruct e as [l op r bo fu]. intros H.
  destruct l; try (destruct op; discriminate). destruct r; try (destruct op; discriminate).
  assert (Hop : op = Wild \/ op = Regexp) by (destruct op; try discriminate; auto).
  rewrite render_param_eq. cbn [ser_param]. intros R. exists s. split; [reflexivity|].
  destruct (String.eqb s "*") eqn:Es; cbn in R.
  - left. unfold rp_node in R. destruct Hop as [-> | ->]; cbn in R; unfold fn_literal in R;
    (destruct (negb (valid_utf8 o2 "'*'")); [discriminate|]); cbn in R; inversion R; auto.
  - right. split; [reflexivity|]. apply rp_node_params in R. destruct Hop as [-> | ->]; subst; reflexivity.
Qed.

Lemma serp_list_params : forall l acc ps0 t ps,
  forallb is_plain l = true -> serp_list o2 l acc ps0 = Ret (t, ps, None) ->
  ps = (ps0 ++ (fix each (l : list expr) : list value := match l with [] => [] | x :: rest => vals_e x ++ each rest end) l)%list.
Proof.
  induction l as [|x xs IH]; intros acc ps0 t ps H R; cbn [serp_list] in R.
  - inversion R. rewrite app_nil_r. reflexivity.
  - cbn [forallb] in H. apply andb_true_iff in H. destruct H as [Hx Hxs].
    assert (Hl : Shape.is_leaf x = true) by (destruct x as [l op r ? ?]; destruct op, l, r; cbn in Hx |- *; try discriminate; reflexivity).
    destruct (render_param o2 x) as [[[s' eps] [er|]]|] eqn:Ex; cbn [bind] in R; try discriminate.
    rewrite (IH _ _ _ _ Hxs R). rewrite (leaf_params x s' eps Hl Ex). rewrite <- app_assoc. reflexivity.
Qed.

Lemma bound_params a b incl t ps : Shape.is_leaf a = true -> Shape.is_leaf b = true ->
  ser_param o2 (VBound (VExp a) (VExp b) incl) = Ret (t, ps, None) -> ps = (vals_e a ++ vals_e b)%list.
Proof.
  intros Ha Hb R. rewrite ser_param_bound_eq, !ser_param_exp in R.
  destruct (render_param o2 a) as [[[sa pa] [er|]]|] eqn:Ea; cbn [bind] in R; try discriminate.
  destruct (render_param o2 b) as [[[sb pb] [er|]]|] eqn:Eb; cbn [bind] in R; try discriminate.
  inversion R. rewrite (leaf_params a sa pa Ha Ea), (leaf_params b sb pb Hb Eb). reflexivity.
Qed.

Ltac opnd x E := destruct (render_param o2 x) as [[[? ?] [?|]]|] eqn:E; cbn [bind] in *; try discriminate.

Theorem render_param_values_sz : forall n e t ps, esize e <= n -> wf true e = true ->
  render_param o2 e = Ret (t, ps, None) -> ps = vals_e e.
Proof.
  induction n as [|n IH]; intros e t ps Hs W R; [destruct e; cbn in Hs; lia|].
  destruct e as [l op r bo fu]. cbn in Hs.
  destruct op; cbn [wf] in W; try discriminate;
    try (apply (leaf_params _ t ps W R));
    destruct l as [| | | | | | a | |]; try discriminate.
  - (* And *) destruct r as [| | | | | | c | |]; try discriminate. cbn in Hs. apply andb_true_iff in W. destruct W as [Wa Wc].
    rewrite render_param_eq, !ser_param_exp in R. opnd a Ea. opnd c Ec. apply rp_node_params in R. subst.
    rewrite (IH a _ _ ltac:(lia) Wa Ea), (IH c _ _ ltac:(lia) Wc Ec). reflexivity.
  - (* Or *) destruct r as [| | | | | | c | |]; try discriminate. cbn in Hs. apply andb_true_iff in W. destruct W as [Wa Wc].
    rewrite render_param_eq, !ser_param_exp in R. opnd a Ea. opnd c Ec. apply rp_node_params in R. subst.
    rewrite (IH a _ _ ltac:(lia) Wa Ea), (IH c _ _ ltac:(lia) Wc Ec). reflexivity.
  - (* Equals *) destruct r as [| | | | | | c | |]; try discriminate. cbn in Hs.
    apply andb_true_iff in W. destruct W as [W Wp]. apply andb_true_iff in W. destruct W as [Wa Wc].
    rewrite render_param_eq, !ser_param_exp in R. opnd a Ea. opnd c Ec. apply rp_node_params in R. subst.
    rewrite (leaf_params a _ _ Wa Ea), (IH c _ _ ltac:(lia) Wc Ec). reflexivity.
  - (* Like *) destruct r as [| | | | | | c | |]; try discriminate. cbn in Hs. apply andb_true_iff in W. destruct W as [Wa Wc].
    rewrite render_param_eq, !ser_param_exp in R. opnd a Ea. opnd c Ec. apply rp_node_params in R. subst.
    rewrite (leaf_params a _ _ Wa Ea).
    destruct (pattern_leaf_out c _ _ Wc Ec) as [p [Hp [[Es [Hl Ht]]|[Es Hl]]]]; subst.
    + destruct c as [cl cop cr cb cf]. cbn in Hp. subst cl. destruct cr; try (destruct cop; discriminate).
      cbn [vals_e vals_v]. unfold like_params. cbn. apply String.eqb_eq in Es. subst p. reflexivity.
    + destruct c as [cl cop cr cb cf]. cbn in Hp. subst cl. destruct cr; try (destruct cop; discriminate).
      cbn [vals_e vals_v]. unfold like_params, translate_pattern. destruct (is_regex_text p); reflexivity.
  - (* Not *) destruct r; try discriminate. cbn in Hs.
    rewrite render_param_eq, !ser_param_exp in R. opnd a Ea. rewrite ser_param_nil in R. cbn [bind] in R. apply rp_node_params in R. subst.
    rewrite (IH a _ _ ltac:(lia) W Ea). reflexivity.
  - (* Range *) destruct r as [| | | | | | | |mn mx incl]; try discriminate. destruct mn as [| | | | | | x | |]; try discriminate.
    destruct mx as [| | | | | | y | |]; try discriminate. cbn in Hs.
    apply andb_true_iff in W. destruct W as [W Wy]. apply andb_true_iff in W. destruct W as [Wa Wx].
    rewrite render_param_eq, ser_param_exp in R. opnd a Ea.
    destruct (ser_param o2 (VBound (VExp x) (VExp y) incl)) as [[[rt rp] [er|]]|] eqn:Eb; cbn [bind] in R; try discriminate.
    apply rp_node_params in R. subst.
    rewrite (leaf_params a _ _ Wa Ea), (bound_params x y incl _ _ Wx Wy Eb). reflexivity.
  - (* Must *) destruct r; try discriminate. cbn in Hs.
    rewrite render_param_eq, !ser_param_exp in R. opnd a Ea. rewrite ser_param_nil in R. cbn [bind] in R. apply rp_node_params in R. subst.
    rewrite (IH a _ _ ltac:(lia) W Ea). reflexivity.
  - (* MustNot *) destruct r; try discriminate. cbn in Hs.
    rewrite render_param_eq, !ser_param_exp in R. opnd a Ea. rewrite ser_param_nil in R. cbn [bind] in R. apply rp_node_params in R. subst.
    rewrite (IH a _ _ ltac:(lia) W Ea). reflexivity.
  - (* Boost: the postgres table has no function for it, RenderParam never succeeds *)
    destruct r; try discriminate. cbn in Hs.
    rewrite render_param_eq, !ser_param_exp in R. opnd a Ea;
      rewrite ser_param_nil in R; cbn [bind] in R; apply rp_node_params in R; subst;
      rewrite (IH a _ _ ltac:(lia) W Ea); reflexivity.
  - (* Fuzzy: the postgres table has no function for it, RenderParam never succeeds *)
    destruct r; try discriminate. cbn in Hs.
    rewrite render_param_eq, !ser_param_exp in R. opnd a Ea;
      rewrite ser_param_nil in R; cbn [bind] in R; apply rp_node_params in R; subst;
      rewrite (IH a _ _ ltac:(lia) W Ea); reflexivity.
  - (* Greater *) destruct r as [| | | | | | c | |]; try discriminate. cbn in Hs.
    apply andb_true_iff in W. destruct W as [W _]. apply andb_true_iff in W. destruct W as [Wa Wc].
    rewrite render_param_eq, !ser_param_exp in R. opnd a Ea. opnd c Ec. apply rp_node_params in R. subst.
    rewrite (leaf_params a _ _ Wa Ea), (IH c _ _ ltac:(lia) Wc Ec). reflexivity.
  - (* Less *) destruct r as [| | | | | | c | |]; try discriminate. cbn in Hs.
    apply andb_true_iff in W. destruct W as [W _]. apply andb_true_iff in W. destruct W as [Wa Wc].
    rewrite render_param_eq, !ser_param_exp in R. opnd a Ea. opnd c Ec. apply rp_node_params in R. subst.
    rewrite (leaf_params a _ _ Wa Ea), (IH c _ _ ltac:(lia) Wc Ec). reflexivity.
  - (* GreaterEq *) destruct r as [| | | | | | c | |]; try discriminate. cbn in Hs.
    apply andb_true_iff in W. destruct W as [W _]. apply andb_true_iff in W. destruct W as [Wa Wc].
    rewrite render_param_eq, !ser_param_exp in R. opnd a Ea. opnd c Ec. apply rp_node_params in R. subst.
    rewrite (leaf_params a _ _ Wa Ea), (IH c _ _ ltac:(lia) Wc Ec). reflexivity.
  - (* LessEq *) destruct r as [| | | | | | c | |]; try discriminate. cbn in Hs.
    apply andb_true_iff in W. destruct W as [W _]. apply andb_true_iff in W. destruct W as [Wa Wc].
    rewrite render_param_eq, !ser_param_exp in R. opnd a Ea. opnd c Ec. apply rp_node_params in R. subst.
    rewrite (leaf_params a _ _ Wa Ea), (IH c _ _ ltac:(lia) Wc Ec). reflexivity.
  - (* In *) destruct r as [| | | | | | c | |]; try discriminate. destruct c as [cl cop cr cb cf].
    destruct cl as [| | | | | | |lits|]; try discriminate. destruct cop; try discriminate. destruct cr; try discriminate. cbn in Hs.
    apply andb_true_iff in W. destruct W as [W Wl]. apply andb_true_iff in W. destruct W as [Wa _].
    rewrite render_param_eq, !ser_param_exp in R. opnd a Ea.
    destruct (render_param o2 (E (VList lits) Tables.List VNil cb cf)) as [[[rt rp] [er|]]|] eqn:El; cbn [bind] in R; try discriminate.
    apply rp_node_params in R. subst. rewrite (leaf_params a _ _ Wa Ea).
    rewrite render_param_eq, serp_list_eq in El.
    destruct (serp_list o2 lits [] []) as [[[ls lp] [er|]]|] eqn:Es; cbn [bind] in El; try discriminate.
    rewrite ser_param_nil in El. cbn [bind] in El. apply rp_node_params in El. subst.
    rewrite (serp_list_params lits [] [] _ _ Wl Es). cbn [vals_e vals_v]. rewrite !app_nil_r. reflexivity.
Qed.

Theorem render_param_values e t ps : wf true e = true -> render_param o2 e = Ret (t, ps, None) -> ps = vals_e e.
Proof. intros W R. exact (render_param_values_sz (esize e) e t ps (le_n _) W R). Qed.

End V.
