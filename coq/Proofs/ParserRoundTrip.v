(* Scratch: round-trip theorem (C05/C09-parens shape) on the faithful model, operators over bare terms, field:value, comparisons, ranges and field:(expression) incl. value lists *)
Require Import Parser ParserShape ParserLay.
Require Export Printer.
From Coq Require Import List String ZArith Bool Lia Arith.
Import ListNotations.
Close Scope string_scope.
Open Scope nat_scope.

Arguments expr_new : simpl never.
Arguments wrap_literal : simpl nomatch.
Arguments drop : simpl nomatch.
Arguments parse_literal : simpl never.
Arguments to_positive_float : simpl never.

Section RT.
Variable o : oracle.
Notation wfq := (Printer.wfq o).
Notation want := (Printer.want o).

Notation step := (step o ""%string).
Fixpoint steps (k : nat) (c : cfg) : res :=
  match k with 0 => Next c | S k' => match step c with Next c' => steps k' c' | r => r end end.
Definition reach (a b : cfg) := exists k, steps k a = Next b.

Lemma reach_refl a : reach a a. Proof. exists 0; reflexivity. Qed.
Lemma steps_add k1 : forall k2 a b, steps k1 a = Next b -> steps (k1 + k2) a = steps k2 b.
Proof. induction k1; simpl; intros k2 a b H. - now inversion H. - destruct (step a); try discriminate. eauto. Qed.
Lemma reach_trans a b c : reach a b -> reach b c -> reach a c.
Proof. intros [k1 H1] [k2 H2]. exists (k1 + k2). now rewrite (steps_add _ _ _ _ H1). Qed.
Lemma reach_step a b c : step a = Next b -> reach b c -> reach a c.
Proof. intros H [k Hk]. exists (S k). simpl. now rewrite H. Qed.

Definition mk r n t := {| rs := r; ns := n; toks := t; pend := None |}.
(* spec-level constructors come from ParserLay (mk2, mk1, mk_fuzzy, mk_boost, eqx, cmpx, rangex, inx) *)
Notation mk2 := Build.mk2. Notation mk1 := Build.mk1. Notation mk_fuzzy := Build.mk_fuzzy. Notation mk_boost := Build.mk_boost.
Lemma expr_new_bin op l r : (op = And \/ op = Or) -> expr_new (VExp l) op [VExp r] = Ret (mk2 op l r).
Proof. apply ParserShape.expr_new_bin. Qed.
Lemma expr_new_un op l : (op = Not \/ op = Must \/ op = MustNot) -> expr_new (VExp l) op [] = Ret (mk1 op l).
Proof. apply ParserShape.expr_new_un. Qed.
Lemma expr_new_fuzzy l d : expr_new (VExp l) Fuzzy [VInt d] = Ret (mk_fuzzy l d).
Proof. apply ParserShape.expr_new_fuzzy. Qed.
Lemma expr_new_boost l f : expr_new (VExp l) Boost [VFloat f] = Ret (mk_boost l f).
Proof. apply ParserShape.expr_new_boost. Qed.

(* ---- handles: reduce on a stack whose top is a complete handle ---- *)
Ltac red_tac := unfold reduce_loop, try_reducers, reducers; cbn.

Lemma reduce_bin (which : toktype) (op : operator) a b r t0 n :
  (which = TAnd /\ op = And) \/ (which = TOr /\ op = Or) ->
  reduce_loop o (IExp b :: ITok (tk which) :: IExp a :: r) [] (t0 :: n) ""%string = ROk (IExp (mk2 op a b) :: r) n.
Proof.
  intros [[-> ->]|[-> ->]]; cbn; rewrite expr_new_bin by auto; reflexivity.
Qed.

Lemma reduce_prefix (which : toktype) (op : operator) a r t0 n :
  (which = TNot /\ op = Not) \/ (which = TPlus /\ op = Must) \/ (which = TMinus /\ op = MustNot) ->
  reduce_loop o (IExp a :: ITok (tk which) :: r) [] (t0 :: n) ""%string = ROk (IExp (mk1 op a) :: r) n.
Proof.
  intros [[-> ->]|[[-> ->]|[-> ->]]]; cbn; rewrite expr_new_un by auto; reflexivity.
Qed.

Lemma reduce_sub a r t0 t1 n :
  reduce_loop o (ITok (tk TRParen) :: IExp a :: ITok (tk TLParen) :: r) [] (t0 :: t1 :: n) ""%string = ROk (IExp a :: r) n.
Proof. reflexivity. Qed.

Lemma reduce_fuzzy0 a r t0 n :
  reduce_loop o (ITok (tk TTilde) :: IExp a :: r) [] (t0 :: n) ""%string = ROk (IExp (mk_fuzzy a 1) :: r) n.
Proof. cbn; rewrite expr_new_fuzzy; reflexivity. Qed.
Lemma reduce_boost0 a r t0 n :
  reduce_loop o (ITok (tk TCarrot) :: IExp a :: r) [] (t0 :: n) ""%string = ROk (IExp (mk_boost a one_bits) :: r) n.
Proof. cbn; rewrite expr_new_boost; reflexivity. Qed.

Lemma reduce_fuzzy1 a d x r t0 n :
  e_left x = VInt d -> e_op x = Literal ->
  reduce_loop o (IExp x :: ITok (tk TTilde) :: IExp a :: r) [] (t0 :: n) ""%string = ROk (IExp (mk_fuzzy a d) :: r) n.
Proof. intros H1 H2. cbn. rewrite H1, H2. cbn. rewrite expr_new_fuzzy. reflexivity. Qed.
Lemma reduce_boost1 a f x r t0 n :
  to_positive_float o x = Some f ->
  reduce_loop o (IExp x :: ITok (tk TCarrot) :: IExp a :: r) [] (t0 :: n) ""%string = ROk (IExp (mk_boost a f) :: r) n.
Proof. intros H. cbn. rewrite H. cbn. rewrite expr_new_boost. reflexivity. Qed.


(* ---- atoms: fielded leaves ---- *)
Lemma chained_leaf e : Shape.is_leaf e = true ->
  forall lits ok, chained_or_literals ""%string e = (lits, ok) -> (ok && (1 <? List.length lits)) = false.
Proof.
  intros Hl lits ok H. destruct e as [l op r b f]. destruct op, l, r; cbn in Hl; try discriminate; cbn in H; inversion H; subst; reflexivity.
Qed.

Lemma reduce_eq lf lv ct r t0 n : (is TEqual ct || is TColon ct) = true -> Shape.is_leaf lv = true ->
  reduce_loop o (IExp lv :: ITok ct :: IExp lf :: r) [] (t0 :: n) ""%string = ROk (IExp (Build.eqx lf lv) :: r) n.
Proof.
  intros Ht Hl. cbn [reduce_loop].
  assert (E1 : try_reducers (reducers o) [IExp lv] (t0 :: n) ""%string = None) by reflexivity. rewrite E1.
  assert (E2 : try_reducers (reducers o) [ITok ct; IExp lv] (t0 :: n) ""%string = None).
  { destruct ct as [ty v]. destruct ty; cbn in Ht; try discriminate; reflexivity. }
  rewrite E2.
  assert (E3 : try_reducers (reducers o) [IExp lf; ITok ct; IExp lv] (t0 :: n) ""%string =
               Some (Ret ([IExp (Build.eqx lf lv)], n))).
  { unfold reducers. cbn [try_reducers].
    assert (A1 : r_and_or TAnd And [IExp lf; ITok ct; IExp lv] (t0 :: n) ""%string = None).
    { destruct ct as [ty v]. destruct ty; cbn in Ht; try discriminate; reflexivity. }
    assert (A2 : r_and_or TOr Or [IExp lf; ITok ct; IExp lv] (t0 :: n) ""%string = None).
    { destruct ct as [ty v]. destruct ty; cbn in Ht; try discriminate; reflexivity. }
    rewrite A1, A2. unfold r_equal. rewrite Ht.
    destruct (chained_or_literals ""%string lv) as [lits ok] eqn:C. rewrite (chained_leaf lv Hl lits ok C).
    unfold eq_. rewrite ParserShape.expr_new_field by tauto. cbn. reflexivity. }
  rewrite E3. reflexivity.
Qed.

Lemma reduce_cmp lf lv ct cmp r t0 t1 n : is TColon ct = true -> (is TGreater cmp || is TLess cmp) = true ->
  reduce_loop o (IExp lv :: ITok cmp :: ITok ct :: IExp lf :: r) [] (t0 :: t1 :: n) ""%string =
  ROk (IExp (Build.cmpx (cmp_op cmp false) lf lv) :: r) n.
Proof.
  intros Hc Hm. cbn [reduce_loop].
  assert (E1 : try_reducers (reducers o) [IExp lv] (t0 :: t1 :: n) ""%string = None) by reflexivity. rewrite E1.
  assert (E2 : try_reducers (reducers o) [ITok cmp; IExp lv] (t0 :: t1 :: n) ""%string = None).
  { destruct cmp as [ty v]. destruct ty; cbn in Hm; try discriminate; reflexivity. }
  rewrite E2.
  assert (E3 : try_reducers (reducers o) [ITok ct; ITok cmp; IExp lv] (t0 :: t1 :: n) ""%string = None).
  { destruct cmp as [ty v]. destruct ty; cbn in Hm; try discriminate; destruct ct as [ty2 v2]; destruct ty2; cbn in Hc; try discriminate; reflexivity. }
  rewrite E3.
  assert (E4 : try_reducers (reducers o) [IExp lf; ITok ct; ITok cmp; IExp lv] (t0 :: t1 :: n) ""%string =
               Some (Ret ([IExp (Build.cmpx (cmp_op cmp false) lf lv)], n))).
  { unfold reducers. cbn [try_reducers].
    assert (A1 : r_and_or TAnd And [IExp lf; ITok ct; ITok cmp; IExp lv] (t0 :: t1 :: n) ""%string = None) by reflexivity.
    assert (A2 : r_and_or TOr Or [IExp lf; ITok ct; ITok cmp; IExp lv] (t0 :: t1 :: n) ""%string = None) by reflexivity.
    assert (A3 : r_equal [IExp lf; ITok ct; ITok cmp; IExp lv] (t0 :: t1 :: n) ""%string = None) by reflexivity.
    rewrite A1, A2, A3. unfold r_compare. rewrite Hc, Hm. cbn [andb].
    unfold cmp_op. destruct (is TGreater cmp); rewrite ParserShape.expr_new_field by tauto; cbn; reflexivity. }
  rewrite E4. reflexivity.
Qed.

Lemma reduce_cmp_eq lf lv ct cmp eq r t0 t1 t2 n : is TColon ct = true -> (is TGreater cmp || is TLess cmp) = true -> is TEqual eq = true ->
  reduce_loop o (IExp lv :: ITok eq :: ITok cmp :: ITok ct :: IExp lf :: r) [] (t0 :: t1 :: t2 :: n) ""%string =
  ROk (IExp (Build.cmpx (cmp_op cmp true) lf lv) :: r) n.
Proof.
  intros Hc Hm He. cbn [reduce_loop].
  assert (E1 : try_reducers (reducers o) [IExp lv] (t0 :: t1 :: t2 :: n) ""%string = None) by reflexivity. rewrite E1.
  assert (E2 : try_reducers (reducers o) [ITok eq; IExp lv] (t0 :: t1 :: t2 :: n) ""%string = None).
  { destruct eq as [ty v]. destruct ty; cbn in He; try discriminate; reflexivity. }
  rewrite E2.
  assert (E3 : try_reducers (reducers o) [ITok cmp; ITok eq; IExp lv] (t0 :: t1 :: t2 :: n) ""%string = None).
  { destruct eq as [ty v]. destruct ty; cbn in He; try discriminate; destruct cmp as [ty2 v2]; destruct ty2; cbn in Hm; try discriminate; reflexivity. }
  rewrite E3.
  assert (E4 : try_reducers (reducers o) [ITok ct; ITok cmp; ITok eq; IExp lv] (t0 :: t1 :: t2 :: n) ""%string = None).
  { destruct eq as [ty v]. destruct ty; cbn in He; try discriminate; reflexivity. }
  rewrite E4.
  assert (E5 : try_reducers (reducers o) [IExp lf; ITok ct; ITok cmp; ITok eq; IExp lv] (t0 :: t1 :: t2 :: n) ""%string =
               Some (Ret ([IExp (Build.cmpx (cmp_op cmp true) lf lv)], n))).
  { unfold reducers. cbn [try_reducers].
    assert (A1 : r_and_or TAnd And [IExp lf; ITok ct; ITok cmp; ITok eq; IExp lv] (t0 :: t1 :: t2 :: n) ""%string = None) by reflexivity.
    assert (A2 : r_and_or TOr Or [IExp lf; ITok ct; ITok cmp; ITok eq; IExp lv] (t0 :: t1 :: t2 :: n) ""%string = None) by reflexivity.
    assert (A3 : r_equal [IExp lf; ITok ct; ITok cmp; ITok eq; IExp lv] (t0 :: t1 :: t2 :: n) ""%string = None) by reflexivity.
    assert (A4 : r_compare [IExp lf; ITok ct; ITok cmp; ITok eq; IExp lv] (t0 :: t1 :: t2 :: n) ""%string = None) by reflexivity.
    rewrite A1, A2, A3, A4. unfold r_compare_eq. rewrite Hc, Hm, He. cbn [andb].
    unfold cmp_op. destruct (is TGreater cmp); rewrite ParserShape.expr_new_field by tauto; cbn; reflexivity. }
  rewrite E5. reflexivity.
Qed.

Lemma reduce_range lf lo hi ct op to cl r t0 t1 t2 t3 n :
  is TColon ct = true -> (is TLSquare op || is TLCurly op) = true -> (is TRSquare cl || is TRCurly cl) = true -> is TTO to = true ->
  reduce_loop o (ITok cl :: IExp hi :: ITok to :: IExp lo :: ITok op :: ITok ct :: IExp lf :: r) [] (t0 :: t1 :: t2 :: t3 :: n) ""%string =
  ROk (IExp (Build.rangex lf lo hi (is TLSquare op && is TRSquare cl)) :: r) n.
Proof.
  intros Hc Ho Hcl Hto.
  destruct cl as [clt clv]; destruct clt; cbn in Hcl; try discriminate;
  destruct to as [tot tov]; destruct tot; cbn in Hto; try discriminate;
  destruct op as [opt opv]; destruct opt; cbn in Ho; try discriminate;
  destruct ct as [ctt ctv]; destruct ctt; cbn in Hc; try discriminate;
  cbn; rewrite ParserShape.expr_new_range; reflexivity.
Qed.

Lemma reduce_eq_gen lf lv ct r t0 n : (is TEqual ct || is TColon ct) = true ->
  reduce_loop o (IExp lv :: ITok ct :: IExp lf :: r) [] (t0 :: n) ""%string = ROk (IExp (fe_node lf lv) :: r) n.
Proof.
  intros Ht. cbn [reduce_loop].
  assert (E1 : try_reducers (reducers o) [IExp lv] (t0 :: n) ""%string = None) by reflexivity. rewrite E1.
  assert (E2 : try_reducers (reducers o) [ITok ct; IExp lv] (t0 :: n) ""%string = None).
  { destruct ct as [ty v]. destruct ty; cbn in Ht; try discriminate; reflexivity. }
  rewrite E2.
  assert (E3 : try_reducers (reducers o) [IExp lf; ITok ct; IExp lv] (t0 :: n) ""%string =
               Some (Ret ([IExp (fe_node lf lv)], n))).
  { unfold reducers. cbn [try_reducers].
    assert (A1 : r_and_or TAnd And [IExp lf; ITok ct; IExp lv] (t0 :: n) ""%string = None).
    { destruct ct as [ty v]. destruct ty; cbn in Ht; try discriminate; reflexivity. }
    assert (A2 : r_and_or TOr Or [IExp lf; ITok ct; IExp lv] (t0 :: n) ""%string = None).
    { destruct ct as [ty v]. destruct ty; cbn in Ht; try discriminate; reflexivity. }
    rewrite A1, A2. unfold r_equal, fe_node. rewrite Ht.
    destruct (chained_or_literals ""%string lv) as [lits ok]. destruct (ok && (1 <? List.length lits)).
    - rewrite ParserShape.expr_new_list. cbn [bind]. rewrite ParserShape.expr_new_in. cbn. reflexivity.
    - unfold eq_. rewrite ParserShape.expr_new_field by tauto. cbn. reflexivity. }
  rewrite E3. reflexivity.
Qed.

Arguments reduce_loop : simpl never.

Arguments fits : simpl never.
Arguments closes : simpl never.

Lemma fits_spec c t : fits c t = true <-> ctx_tok c = true /\ (clvl c < lvl t \/ (is_prefix_op c = true /\ lvl t = clvl c)).
Proof.
  unfold fits. rewrite andb_true_iff, orb_true_iff, andb_true_iff, Nat.ltb_lt, Nat.eqb_eq. tauto.
Qed.
Lemma closes_spec nx t : closes nx t = true <-> closing nx = true /\ nlvl nx <= lvl t.
Proof. unfold closes. rewrite andb_true_iff, Nat.leb_le. tauto. Qed.

Lemma lvl_pos t : 1 <= lvl t. Proof. destruct t; simpl; lia. Qed.


Ltac kill_r r Htop := destruct r as [|[?|?] ?]; simpl in Htop; try contradiction.

(* the context token lets an operator of level l through *)
Ltac shift_tac c Hc := unfold step; cbn; destruct c; cbn in Hc; try discriminate; try lia; try reflexivity.

Lemma main : forall t, wfq t ->
  forall r c cv n nx nv rest,
    fits c t = true -> closes nx t = true -> top_not_exp r ->
    reach (mk r ({| typ := c; val := cv |} :: n) (pr t ++ {| typ := nx; val := nv |} :: rest))
          (mk (IExp (want t) :: r) ({| typ := c; val := cv |} :: n) ({| typ := nx; val := nv |} :: rest)).
Proof.
  induction t as [tok | f ct v | f ct cmp eq v | f ct op lo to hi cl | f ct a IHa | a IHa b IHb | a IHa b IHb | a IHa | a IHa | a IHa | a IHa num | a IHa num | a IHa];
    intros W r c cv n nx nv rest Hc Hnx Htop;
    apply fits_spec in Hc; destruct Hc as (Hctx & Hc); apply closes_spec in Hnx; destruct Hnx as (Hcl & Hnx).
  - (* term *)
    cbn in W. cbn [pr app want].
    eapply reach_step; [|apply reach_refl].
    unfold step; cbn. destruct tok as [ty v]; destruct ty; cbn in W; try discriminate;
      kill_r r Htop; destruct c; cbn in Hctx; try discriminate; reflexivity.
  - (* field:value *)
    cbn [wfq] in W. destruct W as (Wf & Wv & Wc). cbn [pr app want].
    eapply reach_step.
    { unfold step; cbn. destruct f as [ty v0]; destruct ty; cbn in Wf; try discriminate;
        kill_r r Htop; destruct c; cbn in Hctx; try discriminate; reflexivity. }
    eapply reach_step.
    { unfold step; cbn. destruct ct as [ty v0]; destruct ty; cbn in Wc; try discriminate.
      destruct c; cbn in Hctx; try discriminate; reflexivity. }
    eapply reach_step.
    { unfold step; cbn. destruct v as [ty v0]; destruct ty; cbn in Wv; try discriminate; reflexivity. }
    eapply reach_step; [|apply reach_refl].
    unfold step. destruct ct as [cty cval]. destruct cty; cbn in Wc; try discriminate.
    destruct nx; cbn in Hcl, Hnx; try discriminate; try lia; cbn;
      unfold do_reduce; cbn [rs ns toks pend mk];
      rewrite reduce_eq by (auto using ParserShape.parse_literal_leaf); reflexivity.
  - (* comparison *)
    cbn [wfq] in W. destruct W as (Wf & Wv & Wc & Wm & We).
    destruct eq as [e|].
    + cbn [pr app want].
      eapply reach_step.
      { unfold step; cbn. destruct f as [ty v0]; destruct ty; cbn in Wf; try discriminate;
          kill_r r Htop; destruct c; cbn in Hctx; try discriminate; reflexivity. }
      eapply reach_step.
      { unfold step; cbn. destruct ct as [ty v0]; destruct ty; cbn in Wc; try discriminate.
        destruct c; cbn in Hctx; try discriminate; reflexivity. }
      eapply reach_step.
      { unfold step; cbn. destruct ct as [ty v0]; destruct ty; cbn in Wc; try discriminate.
        destruct cmp as [ty2 v2]; destruct ty2; cbn in Wm; try discriminate; reflexivity. }
      eapply reach_step.
      { unfold step; cbn. destruct cmp as [ty2 v2]; destruct ty2; cbn in Wm; try discriminate;
        destruct e as [ty3 v3]; destruct ty3; cbn in We; try discriminate; reflexivity. }
      eapply reach_step.
      { unfold step; cbn. destruct v as [ty v0]; destruct ty; cbn in Wv; try discriminate; reflexivity. }
      eapply reach_step; [|apply reach_refl].
      unfold step. destruct e as [ety eval]. destruct ety; cbn in We; try discriminate.
      destruct nx; cbn in Hcl, Hnx; try discriminate; try lia; cbn;
        unfold do_reduce; cbn [rs ns toks pend mk];
        rewrite reduce_cmp_eq by auto; reflexivity.
    + cbn [pr app want].
      eapply reach_step.
      { unfold step; cbn. destruct f as [ty v0]; destruct ty; cbn in Wf; try discriminate;
          kill_r r Htop; destruct c; cbn in Hctx; try discriminate; reflexivity. }
      eapply reach_step.
      { unfold step; cbn. destruct ct as [ty v0]; destruct ty; cbn in Wc; try discriminate.
        destruct c; cbn in Hctx; try discriminate; reflexivity. }
      eapply reach_step.
      { unfold step; cbn. destruct ct as [ty v0]; destruct ty; cbn in Wc; try discriminate.
        destruct cmp as [ty2 v2]; destruct ty2; cbn in Wm; try discriminate; reflexivity. }
      eapply reach_step.
      { unfold step; cbn. destruct v as [ty v0]; destruct ty; cbn in Wv; try discriminate; reflexivity. }
      eapply reach_step; [|apply reach_refl].
      unfold step. destruct cmp as [cty cval]. destruct cty; cbn in Wm; try discriminate;
      (destruct nx; cbn in Hcl, Hnx; try discriminate; try lia; cbn;
        unfold do_reduce; cbn [rs ns toks pend mk];
        rewrite reduce_cmp by auto; reflexivity).
  - (* range *)
    cbn [wfq] in W. destruct W as (Wf & Wlo & Whi & Wc & Wop & Wcl & Wto). cbn [pr app want].
    eapply reach_step.
    { unfold step; cbn. destruct f as [ty v0]; destruct ty; cbn in Wf; try discriminate;
        kill_r r Htop; destruct c; cbn in Hctx; try discriminate; reflexivity. }
    eapply reach_step.
    { unfold step; cbn. destruct ct as [ty v0]; destruct ty; cbn in Wc; try discriminate.
      destruct c; cbn in Hctx; try discriminate; reflexivity. }
    eapply reach_step.
    { unfold step; cbn. destruct ct as [ty v0]; destruct ty; cbn in Wc; try discriminate.
      destruct op as [ty2 v2]; destruct ty2; cbn in Wop; try discriminate; reflexivity. }
    eapply reach_step.
    { unfold step; cbn. destruct lo as [ty v0]; destruct ty; cbn in Wlo; try discriminate; reflexivity. }
    eapply reach_step.
    { unfold step; cbn. destruct op as [ty2 v2]; destruct ty2; cbn in Wop; try discriminate;
      destruct to as [ty3 v3]; destruct ty3; cbn in Wto; try discriminate; reflexivity. }
    eapply reach_step.
    { unfold step; cbn. destruct hi as [ty v0]; destruct ty; cbn in Whi; try discriminate; reflexivity. }
    eapply reach_step.
    { unfold step; cbn. destruct to as [ty3 v3]; destruct ty3; cbn in Wto; try discriminate;
      destruct cl as [ty4 v4]; destruct ty4; cbn in Wcl; try discriminate; reflexivity. }
    eapply reach_step; [|apply reach_refl].
    unfold step. destruct cl as [clty clval]. destruct clty; cbn in Wcl; try discriminate;
    (destruct nx; cbn in Hcl, Hnx; try discriminate; try lia; cbn;
      unfold do_reduce; cbn [rs ns toks pend mk];
      rewrite reduce_range by auto; reflexivity).
  - (* field:(expression) *)
    cbn [wfq] in W. destruct W as (Wf & Wc & Wa). cbn [pr app want].
    eapply reach_step.
    { unfold step; cbn. destruct f as [ty v0]; destruct ty; cbn in Wf; try discriminate;
        kill_r r Htop; destruct c; cbn in Hctx; try discriminate; reflexivity. }
    eapply reach_step.
    { unfold step; cbn. destruct ct as [ty v0]; destruct ty; cbn in Wc; try discriminate.
      destruct c; cbn in Hctx; try discriminate; reflexivity. }
    eapply reach_step.
    { unfold step; cbn. destruct ct as [ty v0]; destruct ty; cbn in Wc; try discriminate. reflexivity. }
    rewrite <- app_assoc. cbn [app].
    eapply reach_trans. { apply (IHa Wa (ITok (tk TLParen) :: ITok ct :: IExp (parse_literal o f) :: r) TLParen "("%string (_ :: _ :: n) TRParen ")"%string); cbn; auto;
      try (apply fits_spec; split; auto; left; cbn; pose proof (lvl_pos a); lia);
      try (apply closes_spec; split; auto; cbn; lia). }
    eapply reach_step. { unfold step; cbn. reflexivity. }
    eapply reach_step.
    { unfold step; destruct nx; cbn in Hcl; try discriminate; cbn;
        unfold do_reduce; cbn [rs ns toks pend mk]; rewrite reduce_sub; reflexivity. }
    eapply reach_step; [|apply reach_refl].
    unfold step. destruct ct as [cty cval]. destruct cty; cbn in Wc; try discriminate.
    destruct nx; cbn in Hcl, Hnx; try discriminate; try lia; cbn;
      unfold do_reduce; cbn [rs ns toks pend mk];
      rewrite reduce_eq_gen by auto; reflexivity.
  - (* and *)
    cbn [wfq] in W. destruct W as (Wa & Wb & La & Fb). apply fits_spec in Fb. destruct Fb as (_ & Fb). cbn [lvl clvl is_prefix_op] in *.
    assert (Hc2 : clvl c < 2) by (destruct Hc as [?|[Hp ?]]; [lia | destruct c; cbn in *; try discriminate; lia]).
    assert (Fb2 : 2 < lvl b) by (destruct Fb as [?|[? ?]]; [lia | discriminate]).
    cbn [pr want]. rewrite <- app_assoc. cbn [app].
    eapply reach_trans. { apply (IHa Wa r c cv n TAnd "AND"%string); auto; [apply fits_spec; split; auto; left; lia | apply closes_spec; split; auto]. }
    eapply reach_step. { unfold step; cbn. destruct c; cbn in Hctx, Hc2; try discriminate; try lia; reflexivity. }
    eapply reach_trans. { apply (IHb Wb (ITok (tk TAnd) :: IExp (want a) :: r) TAnd "AND"%string); cbn; auto;
      [apply fits_spec; split; auto | apply closes_spec; split; auto; lia]. }
    eapply reach_step; [|apply reach_refl].
    unfold step; destruct nx; cbn in Hcl, Hnx; try discriminate; try lia; cbn;
      unfold do_reduce; cbn [rs ns toks pend mk]; rewrite (reduce_bin TAnd And) by auto; reflexivity.
  - (* or *)
    cbn [wfq] in W. destruct W as (Wa & Wb & La & Fb). apply fits_spec in Fb. destruct Fb as (_ & Fb). cbn [lvl clvl is_prefix_op] in *.
    assert (Hc2 : clvl c < 1) by (destruct Hc as [?|[Hp ?]]; [lia | destruct c; cbn in *; try discriminate; lia]).
    assert (Fb2 : 1 < lvl b) by (destruct Fb as [?|[? ?]]; [lia | discriminate]).
    cbn [pr want]. rewrite <- app_assoc. cbn [app].
    eapply reach_trans. { apply (IHa Wa r c cv n TOr "OR"%string); auto; [apply fits_spec; split; auto; left; lia | apply closes_spec; split; auto]. }
    eapply reach_step. { unfold step; cbn. destruct c; cbn in Hctx, Hc2; try discriminate; try lia; reflexivity. }
    eapply reach_trans. { apply (IHb Wb (ITok (tk TOr) :: IExp (want a) :: r) TOr "OR"%string); cbn; auto;
      [apply fits_spec; split; auto | apply closes_spec; split; auto; lia]. }
    eapply reach_step; [|apply reach_refl].
    unfold step; destruct nx; cbn in Hcl, Hnx; try discriminate; try lia; cbn;
      unfold do_reduce; cbn [rs ns toks pend mk]; rewrite (reduce_bin TOr Or) by auto; reflexivity.
  - (* not *)
    cbn [wfq] in W. destruct W as (Wa & Fa). pose proof Fa as Fa'. apply fits_spec in Fa'. destruct Fa' as (_ & Fa'). cbn [lvl clvl is_prefix_op] in *.
    assert (La : 3 <= lvl a) by (destruct Fa' as [?|[? ?]]; lia).
    cbn [pr want app].
    eapply reach_step. { unfold step; cbn. destruct c; cbn in Hctx, Hc; try discriminate; try reflexivity; destruct Hc as [?|[? ?]]; try lia; try discriminate. }
    eapply reach_trans. { apply (IHa Wa (ITok (tk TNot) :: r) TNot "NOT"%string); cbn; auto. apply closes_spec; split; auto; lia. }
    eapply reach_step; [|apply reach_refl].
    unfold step; destruct nx; cbn in Hcl, Hnx; try discriminate; try lia; cbn;
      unfold do_reduce; cbn [rs ns toks pend mk]; rewrite (reduce_prefix TNot Not) by auto; reflexivity.
  - (* must *)
    cbn [wfq] in W. destruct W as (Wa & Fa). pose proof Fa as Fa'. apply fits_spec in Fa'. destruct Fa' as (_ & Fa'). cbn [lvl clvl is_prefix_op] in *.
    assert (La : 7 <= lvl a) by (destruct Fa' as [?|[? ?]]; lia).
    cbn [pr want app].
    eapply reach_step. { unfold step; cbn. destruct c; cbn in Hctx, Hc; try discriminate; try reflexivity; destruct Hc as [?|[? ?]]; try lia; try discriminate. }
    eapply reach_trans. { apply (IHa Wa (ITok (tk TPlus) :: r) TPlus "+"%string); cbn; auto. apply closes_spec; split; auto; lia. }
    eapply reach_step; [|apply reach_refl].
    unfold step; destruct nx; cbn in Hcl, Hnx; try discriminate; try lia; cbn;
      unfold do_reduce; cbn [rs ns toks pend mk]; rewrite (reduce_prefix TPlus Must) by auto; reflexivity.
  - (* mustnot *)
    cbn [wfq] in W. destruct W as (Wa & Fa). pose proof Fa as Fa'. apply fits_spec in Fa'. destruct Fa' as (_ & Fa'). cbn [lvl clvl is_prefix_op] in *.
    assert (La : 6 <= lvl a) by (destruct Fa' as [?|[? ?]]; lia).
    cbn [pr want app].
    eapply reach_step. { unfold step; cbn. destruct c; cbn in Hctx, Hc; try discriminate; try reflexivity; destruct Hc as [?|[? ?]]; try lia; try discriminate. }
    eapply reach_trans. { apply (IHa Wa (ITok (tk TMinus) :: r) TMinus "-"%string); cbn; auto. apply closes_spec; split; auto; lia. }
    eapply reach_step; [|apply reach_refl].
    unfold step; destruct nx; cbn in Hcl, Hnx; try discriminate; try lia; cbn;
      unfold do_reduce; cbn [rs ns toks pend mk]; rewrite (reduce_prefix TMinus MustNot) by auto; reflexivity.
  - (* boost *)
    cbn [wfq] in W. destruct W as (Wa & La & Wn). cbn [lvl clvl is_prefix_op] in *.
    assert (Hc2 : clvl c < 4) by (destruct Hc as [?|[Hp ?]]; [lia | destruct c; cbn in *; try discriminate; lia]).
    cbn [pr]. rewrite <- app_assoc. cbn [app].
    eapply reach_trans. { apply (IHa Wa r c cv n TCarrot "^"%string); auto; [apply fits_spec; split; auto; left; lia | apply closes_spec; split; auto]. }
    eapply reach_step. { unfold step; cbn. destruct c; cbn in Hctx, Hc2; try discriminate; try lia; reflexivity. }
    destruct num as [tok|].
    + destruct Wn as (Tt & f & Hf). cbn [app want]. rewrite Hf.
      eapply reach_step. { unfold step; cbn. destruct tok as [ty v]; destruct ty; cbn in Tt; try discriminate; reflexivity. }
      eapply reach_step; [|apply reach_refl].
      unfold step; destruct nx; cbn in Hcl, Hnx; try discriminate; try lia; cbn;
        unfold do_reduce; cbn [rs ns toks pend mk]; rewrite (reduce_boost1 _ f) by auto; reflexivity.
    + cbn [app want].
      eapply reach_step; [|apply reach_refl].
      unfold step; destruct nx; cbn in Hcl, Hnx; try discriminate; try lia; cbn;
        unfold do_reduce; cbn [rs ns toks pend mk]; rewrite reduce_boost0; reflexivity.
  - (* fuzzy *)
    cbn [wfq] in W. destruct W as (Wa & La & Wn). cbn [lvl clvl is_prefix_op] in *.
    assert (Hc2 : clvl c < 5) by (destruct Hc as [?|[Hp ?]]; [lia | destruct c; cbn in *; try discriminate; lia]).
    cbn [pr]. rewrite <- app_assoc. cbn [app].
    eapply reach_trans. { apply (IHa Wa r c cv n TTilde "~"%string); auto; [apply fits_spec; split; auto; left; lia | apply closes_spec; split; auto]. }
    eapply reach_step. { unfold step; cbn. destruct c; cbn in Hctx, Hc2; try discriminate; try lia; reflexivity. }
    destruct num as [tok|].
    + destruct Wn as (Tt & d & Hd & Ho). cbn [app want]. rewrite Hd.
      eapply reach_step. { unfold step; cbn. destruct tok as [ty v]; destruct ty; cbn in Tt; try discriminate; reflexivity. }
      eapply reach_step; [|apply reach_refl].
      unfold step; destruct nx; cbn in Hcl, Hnx; try discriminate; try lia; cbn;
        unfold do_reduce; cbn [rs ns toks pend mk]; rewrite (reduce_fuzzy1 _ d) by auto; reflexivity.
    + cbn [app want].
      eapply reach_step; [|apply reach_refl].
      unfold step; destruct nx; cbn in Hcl, Hnx; try discriminate; try lia; cbn;
        unfold do_reduce; cbn [rs ns toks pend mk]; rewrite reduce_fuzzy0; reflexivity.
  - (* parens *)
    cbn [wfq] in W. cbn [pr app want]. rewrite <- app_assoc. cbn [app].
    eapply reach_step. { unfold step; cbn. destruct c; cbn in Hctx; try discriminate; reflexivity. }
    eapply reach_trans. { apply (IHa W (ITok (tk TLParen) :: r) TLParen "("%string (_ :: n) TRParen ")"%string); cbn; auto;
      try (apply fits_spec; split; auto; left; cbn; pose proof (lvl_pos a); lia);
      try (apply closes_spec; split; auto; cbn; lia). }
    eapply reach_step. { unfold step; cbn. reflexivity. }
    eapply reach_step; [|apply reach_refl].
    unfold step; destruct nx; cbn in Hcl; try discriminate; cbn;
      unfold do_reduce; cbn [rs ns toks pend mk]; rewrite reduce_sub; reflexivity.
Qed.

(* ---- value lists: f:(v1 OR v2 OR ... OR vn) is IN(f, LIST[v1..vn]) ---- *)
Lemma chained_lit e : is_plain e = true -> chained_or_literals ""%string e = ([e], true).
Proof. destruct e as [l op r b f]. destruct op, l, r; cbn; try discriminate; reflexivity. Qed.

Lemma chained_or a b : chained_or_literals ""%string (mk2 Or a b) =
  (let '(ll, okl) := chained_or_literals ""%string a in let '(rl, okr) := chained_or_literals ""%string b in ((ll ++ rl)%list, okl && okr)).
Proof. reflexivity. Qed.

Lemma chained_chain : forall xs x, is_plain x = true -> forallb is_plain xs = true ->
  chained_or_literals ""%string (fold_left (fun acc y => mk2 Or acc y) xs x) = ((x :: xs)%list, true).
Proof.
  intros xs. induction xs as [|y xs IH] using rev_ind; intros x Hx Hxs; [exact (chained_lit x Hx)|].
  rewrite forallb_app in Hxs. apply andb_true_iff in Hxs. destruct Hxs as [Hxs Hy]. cbn in Hy. rewrite andb_true_r in Hy.
  rewrite fold_left_app. cbn [fold_left]. rewrite chained_or, (IH x Hx Hxs), (chained_lit y Hy). reflexivity.
Qed.

Definition qchain (v : token) (vs : list token) : qt := fold_left (fun acc t => QOr acc (QTerm t)) vs (QTerm v).

Lemma want_qchain : forall vs a,
  want (fold_left (fun acc t => QOr acc (QTerm t)) vs a) =
  fold_left (fun acc y => mk2 Or acc y) (map (parse_literal o) vs) (want a).
Proof. induction vs as [|t vs IH]; intros a; cbn [fold_left map]; [reflexivity|]. rewrite IH. reflexivity. Qed.

Lemma wfq_qchain : forall vs a, wfq a -> forallb is_term_tok vs = true -> wfq (fold_left (fun acc t => QOr acc (QTerm t)) vs a).
Proof.
  induction vs as [|t vs IH]; intros a Wa H; cbn [fold_left]; [exact Wa|].
  cbn [forallb] in H. apply andb_true_iff in H. destruct H as [Ht Hvs]. apply IH; [|exact Hvs].
  cbn [wfq]. split; [exact Wa|]. split; [exact Ht|]. split; [apply lvl_pos|reflexivity].
Qed.

Theorem list_tree f ct v vs :
  is_plain (parse_literal o v) = true -> forallb is_plain (map (parse_literal o) vs) = true -> vs <> [] ->
  want (QFe f ct (qchain v vs)) = Build.inx (parse_literal o f) (parse_literal o v :: map (parse_literal o) vs).
Proof.
  intros Hv Hvs Hne. cbn [want]. unfold qchain. rewrite want_qchain. cbn [want]. unfold fe_node.
  rewrite (chained_chain _ _ Hv Hvs). cbn [andb List.length]. rewrite map_length.
  destruct vs; [contradiction|]. reflexivity.
Qed.

Theorem roundtrip : forall t, wfq t -> exists k, steps k (mk [] [start] (pr t ++ [eof])) = Accept (want t).
Proof.
  intros t W.
  assert (R : reach (mk [] [start] (pr t ++ [eof])) (mk [IExp (want t)] [start] [eof])).
  { apply (main t W [] TStart ""%string [] TEOF "EOF"%string []); cbn; auto.
    apply fits_spec; split; auto; left; cbn; pose proof (lvl_pos t); lia. }
  destruct R as [k Hk]. exists (k + 1). rewrite (steps_add _ _ _ _ Hk). cbn.
  rewrite andb_false_r. reflexivity.
Qed.
Print Assumptions roundtrip.
Print Assumptions list_tree.

End RT.
