(* C16 — The token stream is a lossless segmentation of the input. *)
Require Import Parser Api.
Require Lex.
Require Import ParserErrTok.
Require LexProof LexFuel LexPeek.
Require LexBackup LexBackup2.
From Coq Require Import List String NArith.
Import ListNotations.

(* for EVERY rune classification: each proper token's text, preceded only by skipped whitespace (space, tab, CR, LF), is the
   next piece of the input, and the rest is strictly shorter *)
Theorem C16_next_token_lossless : forall (cl : Lex.classes) (s : Lex.bytes) (t : Lex.token) (rest : Lex.bytes),
  Lex.next_token cl s = (t, rest) -> LexProof.proper t ->
  exists w, forallb LexProof.ws_byte w = true /\ s = (w ++ Lex.val t ++ rest)%list /\ List.length rest < List.length s.
Proof. exact LexProof.next_token_lossless. Qed.

(* the whole stream tiles the input up to its end or up to the first lexical error, and stops there *)
Theorem C16_stream_is_a_segmentation : forall (cl : Lex.classes) (fuel : nat) (s : Lex.bytes),
  LexProof.segments s (Lex.lex_all cl fuel s).
Proof. exact LexProof.lex_lossless. Qed.

(* finitely many tokens: |s|+1 calls of Next suffice, more fuel changes nothing *)
Theorem C16_finitely_many_tokens : forall (cl : Lex.classes) (s : Lex.bytes) (k : nat),
  Lex.lex cl s = Lex.lex_all cl (S (List.length s) + k) s.
Proof. exact LexFuel.lex_fuel_free. Qed.

(* a token list that ends in an error token (a rune that starts no token, an unterminated quote or regexp) never yields a tree *)
Theorem C16_lexical_error_rejects : forall (o : oracle) (df : string) (ts : list token),
  ends_in_err ts -> match parse_toks o df ts with PTree _ => False | _ => True end.
Proof. exact lex_error_rejects. Qed.

(* the Lexer object (Model/Lex.v lstate, lnext, lpeek): in every state reachable by reads, Peek returns exactly the token the next
   read returns (including the currItem = EOF shortcut); Peek hands no state back, so it cannot affect the stream *)
Theorem C16_peek_is_next : forall (cl : Lex.classes) (s : Lex.bytes) (st : Lex.lstate),
  LexPeek.reachable cl s st -> Lex.lpeek cl st = fst (Lex.lnext cl st).
Proof. exact LexPeek.peek_is_next. Qed.

(* after the end of input or a lexical error every further read reports end-of-input *)
Theorem C16_eof_forever : forall (cl : Lex.classes) (st : Lex.lstate), LexPeek.ended (fst (Lex.lnext cl st)) = true ->
  forall k, fst (Lex.lnext cl (LexPeek.reads cl k (snd (Lex.lnext cl st)))) = Lex.eof_tok.
Proof. exact LexPeek.eof_forever. Qed.


(* lex.go reads ahead with peek() = next(); backup(), and backup() steps back by the width utf8.DecodeLastRuneInString reports for
   the consumed prefix; the model simply does not consume. Proofs/LexBackup.v models DecodeLastRuneInString as the Go source has it
   (the last byte if ASCII; otherwise scan back at most three bytes for a byte that is no continuation byte, decode forward from
   there, accept only a rune that ends exactly at the end) and Proofs/LexBackup2.v shows, for EVERY input - valid UTF-8 or not - and
   every position the forward decoder reaches from the start (aligned: position 0, and from a reached position the one after the next
   step), that it reports exactly the width the forward step consumed: the position after next(); backup() is the position before.
   For a step that consumed an ASCII byte or a valid sequence the rune is the same too, whatever precedes (no alignment needed). *)
Theorem C16_backup_undoes_next : forall (a x r : Lex.bytes) (rn : N),
  LexBackup2.aligned (a ++ x ++ r) (List.length a) = true -> Lex.decode_rune (x ++ r) = Some (rn, List.length x) ->
  snd (LexBackup.decode_last (a ++ x)) = List.length x /\ List.length (a ++ x) - snd (LexBackup.decode_last (a ++ x)) = List.length a.
Proof. exact LexBackup2.backup_undoes_next_everywhere. Qed.

Theorem C16_lexer_positions_are_aligned : forall (s : Lex.bytes),
  LexBackup2.aligned s 0 = true /\
  forall (p : nat) (rn : N) (w : nat), LexBackup2.aligned s p = true -> Lex.decode_rune (skipn p s) = Some (rn, w) -> LexBackup2.aligned s (p + w) = true.
Proof. intros s. split; [exact (LexBackup2.aligned_0 s)|exact (LexBackup2.aligned_step s)]. Qed.

Theorem C16_backup_returns_the_rune_of_a_valid_step : forall (a x r : Lex.bytes) (rn : N) (w : nat),
  Lex.decode_rune (x ++ r) = Some (rn, w) -> List.length x = w ->
  (2 <= w \/ match x with [c] => (Lex.bval c <? 128)%N = true | _ => False end) -> LexBackup.decode_last (a ++ x) = (rn, w).
Proof. exact LexBackup.decode_last_undoes_decode. Qed.

Print Assumptions C16_next_token_lossless.
Print Assumptions C16_peek_is_next.
Print Assumptions C16_eof_forever.
Print Assumptions C16_stream_is_a_segmentation.
Print Assumptions C16_finitely_many_tokens.
Print Assumptions C16_lexical_error_rejects.
Print Assumptions C16_backup_undoes_next.
Print Assumptions C16_lexer_positions_are_aligned.
Print Assumptions C16_backup_returns_the_rune_of_a_valid_step.
