(* Scratch: C10 — every expression the parser builds has the expected shape; Validate strengthens it *)
Require Import Parser.
Require Export Shape.
From Coq Require Import List String ZArith Bool Lia Arith.
Import ListNotations.
Close Scope string_scope.
Open Scope nat_scope.

Arguments parse_literal : simpl never.
Arguments to_positive_float : simpl never.

Section S.
Variable o : oracle.
Variable df : string.

(* ---------- what the constructors build ---------- *)
Lemma is_leaf_wf b e : is_leaf e = true -> wf b e = true.
Proof. destruct e as [l op r bo fu]. destruct op, l, r; cbn; try discriminate; auto. Qed.

Lemma wf_colwrap b t : wf b t = true -> wf b (colwrap t) = true.
Proof. unfold colwrap. destruct (e_left t); auto. Qed.
Lemma leaf_colwrap t : is_leaf t = true -> is_leaf (colwrap t) = true.
Proof. unfold colwrap. destruct (e_left t); auto. Qed.

Lemma expr_new_field op term v :
  (op = Equals \/ op = Greater \/ op = Less \/ op = GreaterEq \/ op = LessEq) ->
  expr_new (VExp term) op [VExp v] =
  Ret (empty_e (VExp (colwrap term)) (if op_eqb op Equals && should_use_like (VExp v) then Like else op) (VExp v)).
Proof.
  intros H. unfold expr_new, colwrap, is_stringlike, wrap_in_column.
  destruct H as [->|[->|[->|[->| ->]]]]; cbn; destruct (e_left term); cbn;
    try (destruct (e_op v); reflexivity); reflexivity.
Qed.

Lemma expr_new_bin op l r : (op = And \/ op = Or) -> expr_new (VExp l) op [VExp r] = Ret (empty_e (VExp l) op (VExp r)).
Proof. intros [->| ->]; unfold expr_new; cbn; rewrite andb_false_r; reflexivity. Qed.
Lemma expr_new_un op l : (op = Not \/ op = Must \/ op = MustNot) -> expr_new (VExp l) op [] = Ret (empty_e (VExp l) op VNil).
Proof. intros [->|[->| ->]]; unfold expr_new; cbn; rewrite andb_false_r; reflexivity. Qed.
Lemma expr_new_fuzzy l d : expr_new (VExp l) Fuzzy [VInt d] = Ret (E (VExp l) Fuzzy VNil one_bits d).
Proof. unfold expr_new; cbn; rewrite andb_false_r; reflexivity. Qed.
Lemma expr_new_boost l f : expr_new (VExp l) Boost [VFloat f] = Ret (E (VExp l) Boost VNil f 1%Z).
Proof. unfold expr_new; cbn; rewrite andb_false_r; reflexivity. Qed.
Lemma expr_new_range term a b incl :
  expr_new (VExp term) Range [VExp a; VExp b; VBool incl] = Ret (empty_e (VExp (colwrap term)) Range (VBound (VExp a) (VExp b) incl)).
Proof. unfold expr_new, colwrap, is_stringlike, wrap_in_column. cbn. destruct (e_left term); reflexivity. Qed.
Lemma expr_new_list lits : expr_new (VList lits) Tables.List [] = Ret (empty_e (VList lits) Tables.List VNil).
Proof. reflexivity. Qed.
Lemma expr_new_in term l : expr_new (VExp term) Tables.In [VExp l] = Ret (empty_e (VExp (colwrap term)) Tables.In (VExp l)).
Proof. unfold expr_new, colwrap, is_stringlike, wrap_in_column. cbn. destruct (e_left term); reflexivity. Qed.
Lemma expr_new_dfcol e :
  expr_new (VCol df) Equals [VExp e] =
  Ret (empty_e (VExp (lit (VCol df))) (if should_use_like (VExp e) then Like else Equals) (VExp e)).
Proof. unfold expr_new. cbn. destruct (e_op e); reflexivity. Qed.

Lemma should_use_like_pattern v : wf false v = true -> should_use_like (VExp v) = is_pattern v.
Proof.
  destruct v as [l op r b f]. destruct op, l, r; cbn; try discriminate; auto.
Qed.

(* wrap_literal keeps well-formedness *)
Lemma wrap_literal_wf e : wf false e = true -> exists e', wrap_literal e df = Ret e' /\ wf false e' = true.
Proof.
  intros H. unfold wrap_literal. destruct (String.eqb df ""); [eauto|].
  destruct (is_leaf_op (e_op e)) eqn:L; [|eauto].
  unfold eq_. rewrite expr_new_dfcol. eexists; split; [reflexivity|].
  rewrite should_use_like_pattern by auto.
  assert (Hl : is_leaf e = true).
  { destruct e as [l op r b f]. cbn in L. destruct op; try discriminate; cbn in H; auto. }
  destruct (is_pattern e) eqn:P; cbn; rewrite ?P; cbn; auto.
  rewrite (is_leaf_wf false e Hl). reflexivity.
Qed.

(* chained_or_literals returns plain literals *)
Definition unwrap_df (e : expr) : expr :=
  match e with
  | E (VExp col) Equals (VExp v) _ _ => if negb (String.eqb df "") && value_eqb_col (e_left col) df then v else e
  | _ => e
  end.

Lemma col_unfold e : chained_or_literals df e =
  match unwrap_df e with
  | E _ Literal _ _ _ => ([unwrap_df e], true)
  | E (VExp l) Or (VExp r) _ _ =>
      let '(ll, okl) := chained_or_literals df l in
      let '(rl, okr) := chained_or_literals df r in
      ((ll ++ rl)%list, okl && okr)
  | _ => ([], false)
  end.
Proof. destruct e as [l op r b f]. reflexivity. Qed.

Fixpoint esize (e : expr) : nat := match e with E l _ r _ _ => 1 + vsize l + vsize r end
with vsize (v : value) : nat :=
  match v with
  | VExp e => esize e
  | VBound a b _ => 1 + vsize a + vsize b
  | VList l => 1 + (fix ls (l : list expr) : nat := match l with [] => 0 | x :: r => esize x + ls r end) l
  | _ => 0
  end.

Lemma unwrap_size e : esize (unwrap_df e) <= esize e.
Proof.
  destruct e as [l op r b f]. unfold unwrap_df.
  destruct l; auto. destruct op; auto. destruct r; auto.
  destruct (negb (String.eqb df "") && value_eqb_col (e_left e) df); cbn; lia.
Qed.
Lemma unwrap_wf e : wf false e = true -> wf false (unwrap_df e) = true.
Proof.
  destruct e as [l op r b f]. unfold unwrap_df.
  destruct l; auto. destruct op; auto. destruct r; auto.
  destruct (negb (String.eqb df "") && value_eqb_col (e_left e) df); auto.
  cbn. intros W. apply andb_true_iff in W. destruct W as [W _]. apply andb_true_iff in W. tauto.
Qed.

Lemma chained_plain : forall n e lits, esize e <= n -> wf false e = true ->
  chained_or_literals df e = (lits, true) -> forallb is_plain lits = true.
Proof.
  induction n as [|n IH]; intros e lits Hs W H.
  - destruct e; cbn in Hs; lia.
  - rewrite col_unfold in H. pose proof (unwrap_size e) as Hu. pose proof (unwrap_wf e W) as Wu.
    destruct (unwrap_df e) as [l' op' r' b' f'] eqn:EU.
    destruct op'; try (destruct l'; try discriminate; destruct r'; discriminate).
    + (* Or *)
      destruct l' as [| | | | | | x | |]; try discriminate. destruct r' as [| | | | | | y | |]; try discriminate.
      cbn in Wu. apply andb_true_iff in Wu. destruct Wu as [Wx Wy].
      destruct (chained_or_literals df x) as [ll okl] eqn:Ex. destruct (chained_or_literals df y) as [rl okr] eqn:Ey.
      inversion H; subst. apply andb_true_iff in H2. destruct H2 as [-> ->].
      cbn in Hu. rewrite forallb_app.
      rewrite (IH x ll) by (auto; lia). rewrite (IH y rl) by (auto; lia). reflexivity.
    + (* Literal *)
      cbn in Wu.
      destruct l'; try discriminate; destruct r'; try discriminate; injection H as <-; reflexivity.
Qed.


Arguments expr_new : simpl never.
Arguments wrap_literal : simpl never.
Arguments drop : simpl never.

Definition items_wf (l : list item) : Prop := forall e, In (IExp e) l -> wf false e = true.

Lemma Some_inj {A} (a b : A) : Some a = Some b -> a = b. Proof. congruence. Qed.

Lemma items_wf_cons_e e l : wf false e = true -> items_wf l -> items_wf (IExp e :: l).
Proof. intros H1 H2 x [Hx|Hx]; [inversion Hx; subst; auto | auto]. Qed.
Lemma items_wf_cons_t t l : items_wf l -> items_wf (ITok t :: l).
Proof. intros H2 x [Hx|Hx]; [discriminate | auto]. Qed.
Lemma items_wf_nil : items_wf []. Proof. intros x []. Qed.
Lemma items_wf_inv_e e l : items_wf (IExp e :: l) -> wf false e = true /\ items_wf l.
Proof. intros H. split; [apply H; left; reflexivity | intros x Hx; apply H; right; assumption]. Qed.
Lemma items_wf_inv_t t l : items_wf (ITok t :: l) -> items_wf l.
Proof. intros H x Hx; apply H; right; assumption. Qed.
Lemma items_wf_app a b : items_wf (a ++ b) <-> items_wf a /\ items_wf b.
Proof. unfold items_wf. split.
  - intros H. split; intros x Hx; apply H; apply in_or_app; auto.
  - intros [Ha Hb] x Hx. apply in_app_or in Hx. destruct Hx; auto.
Qed.

Ltac wf_hyps :=
  repeat match goal with
  | H : items_wf (IExp _ :: _) |- _ => apply items_wf_inv_e in H; destruct H as [? H]
  | H : items_wf (ITok _ :: _) |- _ => apply items_wf_inv_t in H
  end.

Ltac use_wrap H :=
  match type of H with
  | context [wrap_literal ?x df] =>
      let e := fresh "w" in let E1 := fresh "Ew" in let E2 := fresh "Ww" in
      destruct (wrap_literal_wf x) as (e & E1 & E2); [assumption|]; rewrite E1 in H; cbn [bind] in H
  end.
Ltac use_drop H :=
  match type of H with
  | context [drop ?k ?n] => destruct (drop k n); cbn [bind] in H; try discriminate
  end.
Ltac shape H :=
    repeat match type of H with
    | match ?x with _ => _ end = _ => destruct x eqn:?; try discriminate
    | (if ?x then _ else _) = _ => destruct x eqn:?; try discriminate
    | (let '(_, _) := ?x in _) = _ => destruct x eqn:?
    end.
Ltac rw_wf := repeat match goal with Hx : wf false ?x = true |- context [wf false ?x] => rewrite Hx end.
Ltac finish H := inversion H; subst; apply items_wf_cons_e; [|apply items_wf_nil].

Lemma r_and_or_wf which mk top nts top' nts' : (mk = And \/ mk = Or) ->
  items_wf top -> r_and_or which mk top nts df = Some (Ret (top', nts')) -> items_wf top'.
Proof.
  intros Hmk HW H. unfold r_and_or in H. shape H. apply Some_inj in H. subst. wf_hyps.
  use_wrap H. use_wrap H. rewrite expr_new_bin in H by auto. cbn [bind] in H. use_drop H. finish H.
  destruct Hmk as [->| ->]; cbn; rewrite Ww, Ww0; reflexivity.
Qed.

Lemma r_prefix_wf which mk top nts top' nts' : (mk = Must \/ mk = MustNot) ->
  items_wf top -> r_prefix which mk top nts df = Some (Ret (top', nts')) -> items_wf top'.
Proof.
  intros Hmk HW H. unfold r_prefix in H. shape H. apply Some_inj in H. subst. wf_hyps.
  use_wrap H. rewrite expr_new_un in H by tauto. cbn [bind] in H. use_drop H. finish H.
  destruct Hmk as [->| ->]; cbn; rewrite Ww; reflexivity.
Qed.

Lemma r_sub_wf top nts top' nts' : items_wf top -> r_sub top nts df = Some (Ret (top', nts')) -> items_wf top'.
Proof.
  intros HW H. unfold r_sub in H. shape H. apply Some_inj in H. subst. wf_hyps. use_drop H. finish H. assumption.
Qed.

Lemma r_fuzzy_wf top nts top' nts' : items_wf top -> r_fuzzy top nts df = Some (Ret (top', nts')) -> items_wf top'.
Proof.
  intros HW H. unfold r_fuzzy in H. shape H; apply Some_inj in H; subst; wf_hyps;
    use_wrap H; rewrite expr_new_fuzzy in H; cbn [bind] in H; use_drop H; finish H; cbn; rewrite Ww; reflexivity.
Qed.

Lemma r_boost_wf top nts top' nts' : items_wf top -> r_boost o top nts df = Some (Ret (top', nts')) -> items_wf top'.
Proof.
  intros HW H. unfold r_boost in H. shape H; apply Some_inj in H; subst; wf_hyps;
    use_wrap H; rewrite expr_new_boost in H; cbn [bind] in H; use_drop H; finish H; cbn; rewrite Ww; reflexivity.
Qed.

Lemma r_compare_wf top nts top' nts' : items_wf top -> r_compare top nts df = Some (Ret (top', nts')) -> items_wf top'.
Proof.
  intros HW H. unfold r_compare in H. shape H. apply Some_inj in H. subst. wf_hyps.
  rewrite expr_new_field in H by (destruct (is TGreater t0); tauto). cbn [bind] in H. use_drop H. finish H.
  destruct (is TGreater t0); cbn; rewrite wf_colwrap by assumption; rw_wf; reflexivity.
Qed.

Lemma r_compare_eq_wf top nts top' nts' : items_wf top -> r_compare_eq top nts df = Some (Ret (top', nts')) -> items_wf top'.
Proof.
  intros HW H. unfold r_compare_eq in H. shape H. apply Some_inj in H. subst. wf_hyps.
  rewrite expr_new_field in H by (destruct (is TGreater t0); tauto). cbn [bind] in H. use_drop H. finish H.
  destruct (is TGreater t0); cbn; rewrite wf_colwrap by assumption; rw_wf; reflexivity.
Qed.

Lemma r_range_wf top nts top' nts' : items_wf top -> r_range top nts df = Some (Ret (top', nts')) -> items_wf top'.
Proof.
  intros HW H. unfold r_range in H. shape H. apply Some_inj in H. subst. wf_hyps.
  rewrite expr_new_range in H. cbn [bind] in H. use_drop H. finish H.
  cbn. rewrite wf_colwrap by assumption. rw_wf. reflexivity.
Qed.

Lemma r_equal_wf top nts top' nts' : items_wf top -> r_equal top nts df = Some (Ret (top', nts')) -> items_wf top'.
Proof.
  intros HW H. unfold r_equal in H. shape H. apply Some_inj in H. subst. wf_hyps.
  match type of H with (if ?c then _ else _) = _ => destruct c eqn:EC end.
  - rewrite expr_new_list in H. cbn [bind] in H. rewrite expr_new_in in H. cbn [bind] in H. use_drop H. finish H.
    apply andb_true_iff in EC. destruct EC as [-> EC]. apply Nat.ltb_lt in EC.
    assert (Hl : (2 <=? List.length l2) = true) by (apply Nat.leb_le; lia).
    assert (Hp : forallb is_plain l2 = true) by (eapply chained_plain; eauto).
    cbn -[Nat.leb forallb]. rewrite wf_colwrap by assumption. rewrite Hl, Hp. reflexivity.
  - unfold eq_ in H. rewrite expr_new_field in H by tauto. rewrite should_use_like_pattern in H by assumption.
    cbn [bind op_eqb andb] in H. use_drop H.
    destruct (is_pattern e0) eqn:P; finish H; cbn; rewrite wf_colwrap by assumption; rewrite ?P; cbn; auto.
    rw_wf. reflexivity.
Qed.

Lemma r_not_wf top nts top' nts' : items_wf top -> r_not top nts df = Some (Ret (top', nts')) -> items_wf top'.
Proof.
  intros HW H. unfold r_not in H.
  destruct (split_last2 top) as [[[p a] b]|] eqn:E; try discriminate.
  destruct a as [t|]; try discriminate. destruct b as [|x]; try discriminate.
  destruct (is TNot t); try discriminate. apply Some_inj in H.
  assert (Htop : forall (l : list item) p a b, split_last2 l = Some (p, a, b) -> l = p ++ [a; b]).
  { clear. induction l as [|h l IH]; intros p a b E; [discriminate|].
    destruct l as [|y l]; [discriminate|]. destruct l as [|z l].
    - inversion E; subst. reflexivity.
    - change (split_last2 (h :: y :: z :: l)) with
        (match split_last2 (y :: z :: l) with Some (p0, a0, b0) => Some (h :: p0, a0, b0) | None => None end) in E.
      destruct (split_last2 (y :: z :: l)) as [[[p' a'] b']|] eqn:E'; try discriminate.
      inversion E; subst. rewrite (IH p' a b eq_refl). reflexivity. }
  apply Htop in E. subst top. apply items_wf_app in HW. destruct HW as [Hp Hr]. wf_hyps.
  use_wrap H. rewrite expr_new_un in H by tauto. cbn [bind] in H. use_drop H. inversion H; subst.
  apply items_wf_app. split; auto. apply items_wf_cons_e; [|apply items_wf_nil]. cbn. rewrite Ww. reflexivity.
Qed.

Lemma reducer_wf : forall rd, In rd (reducers o) -> forall top nts top' nts',
  items_wf top -> rd top nts df = Some (Ret (top', nts')) -> items_wf top'.
Proof.
  intros rd Hin top nts top' nts' HW H.
  unfold reducers in Hin. simpl in Hin.
  destruct Hin as [<-|Hin]; [eapply (r_and_or_wf TAnd And); eauto|].
  destruct Hin as [<-|Hin]; [eapply (r_and_or_wf TOr Or); eauto|].
  destruct Hin as [<-|Hin]; [eapply r_equal_wf; eauto|].
  destruct Hin as [<-|Hin]; [eapply r_compare_wf; eauto|].
  destruct Hin as [<-|Hin]; [eapply r_compare_eq_wf; eauto|].
  destruct Hin as [<-|Hin]; [eapply r_not_wf; eauto|].
  destruct Hin as [<-|Hin]; [eapply r_sub_wf; eauto|].
  destruct Hin as [<-|Hin]; [eapply (r_prefix_wf TPlus Must); eauto|].
  destruct Hin as [<-|Hin]; [eapply (r_prefix_wf TMinus MustNot); eauto|].
  destruct Hin as [<-|Hin]; [eapply r_fuzzy_wf; eauto|].
  destruct Hin as [<-|Hin]; [eapply r_boost_wf; eauto|].
  destruct Hin as [<-|Hin]; [eapply r_range_wf; eauto|].
  contradiction.
Qed.

Lemma parse_literal_leaf t : is_leaf (parse_literal o t) = true.
Proof.
  unfold parse_literal. destruct (typ t); try reflexivity;
  repeat match goal with |- context [match ?x with _ => _ end] => destruct x end; reflexivity.
Qed.

Lemma try_reducers_wf : forall rds, (forall rd, In rd rds -> In rd (reducers o)) -> forall top nts top' nts',
  items_wf top -> try_reducers rds top nts df = Some (Ret (top', nts')) -> items_wf top'.
Proof.
  induction rds as [|rd rds IH]; intros Hsub top nts top' nts' HW H; cbn in H; try discriminate.
  destruct (rd top nts df) eqn:E.
  - apply Some_inj in H. subst. eapply reducer_wf; eauto. apply Hsub; left; reflexivity.
  - eapply IH; eauto. intros. apply Hsub. right. assumption.
Qed.

Lemma items_wf_rev_append a b : items_wf a -> items_wf b -> items_wf (rev_append a b).
Proof.
  revert b. induction a as [|x a IH]; intros b Ha Hb; cbn; auto.
  apply IH.
  - intros e He. apply Ha. right. assumption.
  - destruct x as [t|e]; [apply items_wf_cons_t; auto | apply items_wf_cons_e; auto; apply Ha; left; reflexivity].
Qed.

Lemma reduce_wf : forall r top nts r' nts', items_wf r -> items_wf top ->
  reduce_loop o r top nts df = ROk r' nts' -> items_wf r'.
Proof.
  induction r as [|s r IH]; intros top nts r' nts' Hr Ht H; cbn [reduce_loop] in H; try discriminate.
  assert (Hst : items_wf (s :: top)).
  { destruct s as [t|e]; [apply items_wf_cons_t; auto | apply items_wf_cons_e; auto; apply Hr; left; reflexivity]. }
  assert (Hr' : items_wf r) by (intros e He; apply Hr; right; assumption).
  destruct (try_reducers (reducers o) (s :: top) nts df) as [[[t n]|]|] eqn:E; try discriminate.
  - inversion H; subst. apply items_wf_rev_append.
    + eapply (try_reducers_wf (reducers o) (fun _ h => h) (s :: top) nts); [exact Hst | exact E].
    + exact Hr'.
  - exact (IH (s :: top) nts r' nts' Hr' Hst H).
Qed.

End S.
