(* C03 / C04 specification, SQL side: the value of the boolean expression PostgreSQL reads (PgModel.ast) on a row.
   BETWEEN is >= AND <=, IN is a disjunction of equalities, SIMILAR TO matches with % (any run) and _ (any one character)
   for patterns without further metacharacters, comparisons are numeric between numbers and byte-wise between strings.
   None = the expression cannot be evaluated on this row (type clash, regular-expression match, a bare constant used as a
   truth value, an unbound placeholder, a SIMILAR TO pattern with metacharacters other than % and _). *)
Require Import Parser PgModel QuerySem.
From Coq Require Import List Ascii String ZArith QArith Bool.
Import ListNotations.
Close Scope Q_scope.
Open Scope string_scope.

Definition sstr (b : bytes) : string := string_of_list_ascii b.

(* numeric literal text [digits][.digits][e[+-]digits] -> rational *)
Fixpoint dec_digits (s : list ascii) (acc : Z) (n : nat) : option (Z * nat * list ascii) :=
  match s with
  | c :: r =>
      let k := nat_of_ascii c in
      if (48 <=? k)%nat && (k <=? 57)%nat then dec_digits r (acc * 10 + Z.of_nat (k - 48))%Z (S n) else Some (acc, n, s)
  | [] => Some (acc, n, [])
  end.

Definition q_of_decimal (s : list ascii) : option Q :=
  match dec_digits s 0%Z 0 with
  | Some (ip, n1, rest) =>
      let '(mant, scale, rest2, n2) :=
        match rest with
        | "."%char :: r => match dec_digits r ip 0 with Some (m, k, r2) => (m, k, r2, k) | None => (ip, 0, rest, 0) end
        | _ => (ip, 0, rest, 0)
        end in
      if Nat.eqb (n1 + n2) 0 then None else
      let base := Qmake mant (Pos.pow 10 (Pos.of_nat scale)) in
      let base := if Nat.eqb scale 0 then inject_Z mant else base in
      match rest2 with
      | [] => Some base
      | e :: r =>
          if Ascii.eqb e "e"%char || Ascii.eqb e "E"%char then
            let '(neg, r') := match r with "-"%char :: t => (true, t) | "+"%char :: t => (false, t) | _ => (false, r) end in
            match dec_digits r' 0%Z 0 with
            | Some (ex, S _, []) =>
                let p := inject_Z (Z.pow 10 ex) in
                Some (if neg then Qdiv base p else Qmult base p)
            | _ => None
            end
          else None
      end
  | None => None
  end.

(* SIMILAR TO with only % and _ as metacharacters *)
Definition similar_meta (c : ascii) : bool :=
  existsb (Ascii.eqb c) ["|"; "*"; "+"; "?"; "("; ")"; "["; "]"; "{"; "}"; "\"]%char.

Fixpoint sim_match_fuel (fuel : nat) (p s : string) : bool :=
  match fuel with
  | O => false
  | S f =>
    match p with
    | EmptyString => match s with EmptyString => true | _ => false end
    | String "%"%char p' =>
        sim_match_fuel f p' s || match s with EmptyString => false | String _ s' => sim_match_fuel f p s' end
    | String "_"%char p' => match s with EmptyString => false | String _ s' => sim_match_fuel f p' s' end
    | String c p' => match s with String d s' => Ascii.eqb c d && sim_match_fuel f p' s' | EmptyString => false end
    end
  end.
Definition sim_match (p s : string) : bool := sim_match_fuel (S (String.length p + String.length s)) p s.
Fixpoint has_meta (p : string) : bool := match p with EmptyString => false | String c r => similar_meta c || has_meta r end.

Section Sem.
Variable r : row.
Variable params : list rval.      (* the values bound to $1, $2, ... *)

Fixpoint nat_of_digits (s : list ascii) (acc : nat) : nat :=
  match s with c :: t => nat_of_digits t (acc * 10 + (nat_of_ascii c - 48)) | [] => acc end.

(* the value of an operand *)
Definition operand (a : ast) : option rval :=
  match a with
  | ACol c => r (sstr c)
  | AStr s => Some (RStr (sstr s))
  | ANum neg t => match q_of_decimal t with Some q => Some (RNum (if neg then Qopp q else q)) | None => None end
  | AParam k => nth_error params (nat_of_digits k 0 - 1)
  | _ => None
  end.

Definition cmp_of (op : string) : option cmpop :=
  if String.eqb op "=" then Some CEq else if String.eqb op "<" then Some CLt else if String.eqb op "<=" then Some CLe
  else if String.eqb op ">" then Some CGt else if String.eqb op ">=" then Some CGe else None.

Definition cmp2 (op : cmpop) (a b : ast) : option bool :=
  match operand a, operand b with Some x, Some y => cmp_vals op x y | _, _ => None end.

Fixpoint ssem (a : ast) : option bool :=
  match a with
  | ABool is_and l =>
      (fix go (l : list ast) : option bool :=
         match l with
         | [] => Some is_and
         | x :: rest => (if is_and then opt_and else opt_or) (ssem x) (go rest)
         end) l
  | ANot x => option_map negb (ssem x)
  | AOp op x y => match cmp_of (sstr op) with Some c => cmp2 c x y | None => None end
  | ABetween x lo hi => opt_and (cmp2 CGe x lo) (cmp2 CLe x hi)
  | AIn x l =>
      (fix go (l : list ast) : option bool :=
         match l with [] => Some false | y :: rest => opt_or (cmp2 CEq x y) (go rest) end) l
  | ASimilar x p =>
      match operand x, operand p with
      | Some (RStr s), Some (RStr pat) => if has_meta pat then None else Some (sim_match pat s)
      | _, _ => None
      end
  | _ => None
  end.

End Sem.
