(* Independent shape predicate of C10 (the well-formedness a parse result must have), used by C01/C10/C13 *)
Require Import Parser.
From Coq Require Import List String ZArith Bool Lia Arith.
Import ListNotations.
Close Scope string_scope.
Open Scope nat_scope.

(* ---------- shapes ---------- *)
Definition leaf_val (v : value) : bool := match v with VStr _ | VInt _ | VFloat _ | VCol _ => true | _ => false end.
Definition is_leaf (e : expr) : bool :=
  match e with
  | E l Literal VNil _ _ => leaf_val l
  | E (VStr _) Wild VNil _ _ | E (VStr _) Regexp VNil _ _ => true
  | _ => false
  end.
Definition is_pattern (e : expr) : bool :=
  match e with E (VStr _) Wild VNil _ _ | E (VStr _) Regexp VNil _ _ => true | _ => false end.
Definition is_plain (e : expr) : bool := match e with E l Literal VNil _ _ => leaf_val l | _ => false end.

(* strict = after Validate: field positions and range bounds are single terms *)
Fixpoint wf (strict : bool) (e : expr) {struct e} : bool :=
  match e with
  | E l op r _ _ =>
    match op with
    | Literal | Wild | Regexp => is_leaf e
    | Equals | Greater | Less | GreaterEq | LessEq =>
        match l, r with
        | VExp f, VExp v => (if strict then is_leaf f else wf strict f) && wf strict v &&
                            (match op with Equals => negb (is_pattern v) | _ => true end)
        | _, _ => false end
    | Like =>
        match l, r with VExp f, VExp v => (if strict then is_leaf f else wf strict f) && is_pattern v | _, _ => false end
    | Tables.In =>
        match l, r with
        | VExp f, VExp (E (VList lits) Tables.List VNil _ _) =>
            (if strict then is_leaf f else wf strict f) && (2 <=? List.length lits) && forallb is_plain lits
        | _, _ => false end
    | Range =>
        match l, r with
        | VExp f, VBound (VExp a) (VExp b) _ =>
            (if strict then is_leaf f && is_leaf a && is_leaf b else wf strict f && wf strict a && wf strict b)
        | _, _ => false end
    | And | Or => match l, r with VExp a, VExp b => wf strict a && wf strict b | _, _ => false end
    | Not | Must | MustNot | Boost | Fuzzy => match l, r with VExp a, VNil => wf strict a | _, _ => false end
    | Undefined | Tables.List => false
    end
  end.


Definition colwrap (t : expr) : expr := match e_left t with VStr s => lit (VCol s) | _ => t end.

