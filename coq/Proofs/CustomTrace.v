(* C15: Render is a fold — the traced fold (Model/Driver.v render_tr) erases to Render, its calls are the nodes in post-order,
   each exactly once, left before right; a function table that differs only at an operator the tree does not contain gives the
   same output. All for an ARBITRARY table of render functions. *)
Require Import Parser ParserShape Render Driver Custom.
From Coq Require Import List Ascii String ZArith Bool Lia Arith.
Import ListNotations.

Section T.
Variable o2 : oracle2.
Variable fns : operator -> option (string -> string -> out sres).
Notation render_with := (Driver.render_with o2 fns).
Notation serialize_with := (Driver.serialize_with o2 fns).
Notation ser_list_with := (Driver.ser_list_with o2 fns).
Notation render_tr := (Driver.render_tr o2 fns).
Notation serialize_tr := (Driver.serialize_tr o2 fns).
Notation ser_list_tr := (Driver.ser_list_tr o2 fns).

Definition erase (x : out (sres * list call)) : out sres := match x with Ret (a, _) => Ret a | Panic s => Panic s end.

Definition node_with (l : value) (op : operator) (r : value) (ls : sres) (k : sres -> out sres) : out sres := k ls.

Lemma render_with_unfold l op r b f : render_with (E l op r b f) =
  bind (serialize_with l) (fun ls => match ls with
  | (_, Some er) => Ret (""%string, Some er)
  | (lf, None) => bind (serialize_with r) (fun rs_ => match rs_ with
    | (_, Some er) => Ret (""%string, Some er)
    | (rt, None) =>
        match fns op with
        | None => Ret (""%string, Some "unable to render operator"%string)
        | Some fn => fn (wrap_if (negb (no_wrap_op op) && negb (is_simple l)) lf) (wrap_if (negb (no_wrap_op op) && negb (is_simple r)) rt)
        end
    end) end).
Proof. reflexivity. Qed.

Lemma render_tr_unfold l op r b f : render_tr (E l op r b f) =
  bind (serialize_tr l) (fun ls => match ls with
  | ((_, Some er), tl) => Ret ((""%string, Some er), tl)
  | ((lf, None), tl) => bind (serialize_tr r) (fun rs_ => match rs_ with
    | ((_, Some er), tr) => Ret ((""%string, Some er), (tl ++ tr)%list)
    | ((rt, None), tr) =>
        match fns op with
        | None => Ret ((""%string, Some "unable to render operator"%string), (tl ++ tr)%list)
        | Some fn => bind (fn (wrap_if (negb (no_wrap_op op) && negb (is_simple l)) lf) (wrap_if (negb (no_wrap_op op) && negb (is_simple r)) rt))
                          (fun x => Ret (x, (tl ++ tr ++ [(op, wrap_if (negb (no_wrap_op op) && negb (is_simple l)) lf, wrap_if (negb (no_wrap_op op) && negb (is_simple r)) rt)])%list))
        end
    end) end).
Proof. reflexivity. Qed.

Lemma serialize_with_bound a b i : serialize_with (VBound a b i) =
  bind (serialize_with a) (fun x => match x with
  | (_, Some er) => Ret (""%string, Some er)
  | (smin, None) => bind (serialize_with b) (fun y => match y with
    | (_, Some er) => Ret (""%string, Some er)
    | (smax, None) => Ret ((if i then "[" ++ smin ++ ", " ++ smax ++ "]" else "(" ++ smin ++ ", " ++ smax ++ ")")%string, None)
    end) end).
Proof. reflexivity. Qed.
Lemma serialize_tr_bound a b i : serialize_tr (VBound a b i) =
  bind (serialize_tr a) (fun x => match x with
  | ((_, Some er), ta) => Ret ((""%string, Some er), ta)
  | ((smin, None), ta) => bind (serialize_tr b) (fun y => match y with
    | ((_, Some er), tb) => Ret ((""%string, Some er), (ta ++ tb)%list)
    | ((smax, None), tb) => Ret (((if i then "[" ++ smin ++ ", " ++ smax ++ "]" else "(" ++ smin ++ ", " ++ smax ++ ")")%string, None), (ta ++ tb)%list)
    end) end).
Proof. reflexivity. Qed.

(* ---------- erasure: the traced fold computes exactly what Render computes ---------- *)
Lemma erase_sz : forall n,
  (forall e, esize e <= n -> erase (render_tr e) = render_with e) /\
  (forall v, vsize v <= n -> erase (serialize_tr v) = serialize_with v).
Proof.
  induction n as [|n [IHe IHv]].
  { split; [intros e H; destruct e; cbn in H; lia|].
    intros v H. destruct v; try reflexivity; cbn in H; try lia. destruct e; cbn in H; lia. }
  assert (HE : forall e, esize e <= S n -> erase (render_tr e) = render_with e).
  { intros [l op r b f] H. cbn in H. rewrite render_with_unfold, render_tr_unfold.
    rewrite <- (IHv l) by lia. destruct (serialize_tr l) as [[[lf [er|]] tl]|]; cbn [erase bind]; try reflexivity.
    rewrite <- (IHv r) by lia. destruct (serialize_tr r) as [[[rt [er|]] tr]|]; cbn [erase bind]; try reflexivity.
    destruct (fns op) as [fn|]; [|reflexivity].
    destruct (fn _ _) as [x|]; reflexivity. }
  split; [exact HE|].
  intros v H. destruct v; try reflexivity.
  - cbn in H. change (erase (render_tr e) = render_with e). apply HE. exact H.
  - rewrite serialize_tr_list, serialize_with_list. cbn in H.
    generalize (@nil string) (@nil call). induction l as [|x xs IHl]; intros acc tr; [reflexivity|].
    cbn [Driver.ser_list_tr Driver.ser_list_with]. cbn in H. rewrite <- (IHe x) by lia.
    destruct (render_tr x) as [[[s' [er|]] t]|]; cbn [erase bind]; try reflexivity.
    apply IHl. lia.
  - cbn in H. rewrite serialize_with_bound, serialize_tr_bound.
    rewrite <- (IHv v1) by lia. destruct (serialize_tr v1) as [[[sa [er|]] ta]|]; cbn [erase bind]; try reflexivity.
    rewrite <- (IHv v2) by lia. destruct (serialize_tr v2) as [[[sb [er|]] tb]|]; cbn [erase bind]; reflexivity.
Qed.

Theorem traced_fold_is_render e : erase (render_tr e) = render_with e.
Proof. exact (proj1 (erase_sz (esize e)) e (le_n _)). Qed.

(* ---------- the calls of a successful Render are the nodes in post-order ---------- *)
Definition ops (tr : list call) : list operator := map (fun c => fst (fst c)) tr.
Lemma ops_app a b : ops (a ++ b) = (ops a ++ ops b)%list. Proof. apply map_app. Qed.

Lemma postorder_sz : forall n,
  (forall e s tr, esize e <= n -> render_tr e = Ret ((s, None), tr) -> ops tr = postorder e) /\
  (forall v s tr, vsize v <= n -> serialize_tr v = Ret ((s, None), tr) -> ops tr = postorder_v v).
Proof.
  induction n as [|n [IHe IHv]].
  { split; [intros e s tr H; destruct e; cbn in H; lia|].
    intros v s tr H R. destruct v; cbn in H; try lia; try (cbn in R; inversion R; reflexivity);
      try (cbn in R; destruct (ser_column _); inversion R; reflexivity).
    destruct e; cbn in H; lia. }
  assert (HE : forall e s tr, esize e <= S n -> render_tr e = Ret ((s, None), tr) -> ops tr = postorder e).
  { intros [l op r b f] s tr H R. cbn in H. rewrite render_tr_unfold in R.
    destruct (serialize_tr l) as [[[lf [er|]] tl]|] eqn:El; cbn [bind] in R; try discriminate.
    destruct (serialize_tr r) as [[[rt [er|]] tr0]|] eqn:Er; cbn [bind] in R; try discriminate.
    destruct (fns op) as [fn|]; [|discriminate].
    destruct (fn _ _) as [[x g]|]; cbn [bind] in R; try discriminate. inversion R; subst.
    rewrite !ops_app. rewrite (IHv l _ _ ltac:(lia) El), (IHv r _ _ ltac:(lia) Er). reflexivity. }
  split; [exact HE|].
  intros v s tr H R. destruct v; try (cbn in R; inversion R; reflexivity);
    try (cbn in R; destruct (ser_column _); inversion R; reflexivity).
  - cbn in H. apply (HE e s tr H R).
  - rewrite serialize_tr_list in R. cbn in H.
    assert (G : forall l acc tr0 s tr, (fix ls (l : list expr) : nat := match l with [] => 0 | x :: r => esize x + ls r end) l <= n ->
              ser_list_tr l acc tr0 = Ret ((s, None), tr) ->
              ops tr = (ops tr0 ++ (fix each (l : list expr) : list operator := match l with [] => [] | x :: rest => (postorder x ++ each rest)%list end) l)%list).
    { induction l0 as [|x xs IHl]; intros acc tr0 s0 tr1 Hl R0; cbn [Driver.ser_list_tr] in R0.
      - inversion R0. rewrite app_nil_r. reflexivity.
      - destruct (render_tr x) as [[[s' [er|]] t]|] eqn:Ex; cbn [bind] in R0; try discriminate.
        rewrite (IHl _ _ _ _ ltac:(lia) R0). rewrite ops_app. rewrite (IHe x _ _ ltac:(lia) Ex). rewrite <- app_assoc. reflexivity. }
    rewrite (G l [] [] s tr ltac:(lia) R). reflexivity.
  - cbn in H. rewrite serialize_tr_bound in R.
    destruct (serialize_tr v1) as [[[sa [er|]] ta]|] eqn:Ea; cbn [bind] in R; try discriminate.
    destruct (serialize_tr v2) as [[[sb [er|]] tb]|] eqn:Eb; cbn [bind] in R; try discriminate.
    inversion R; subst. rewrite ops_app, (IHv v1 _ _ ltac:(lia) Ea), (IHv v2 _ _ ltac:(lia) Eb). reflexivity.
Qed.

Theorem calls_are_the_nodes_in_postorder e s tr : render_tr e = Ret ((s, None), tr) -> ops tr = postorder e.
Proof. exact (proj1 (postorder_sz (esize e)) e s tr (le_n _)). Qed.

End T.

(* ---------- replacing one operator's function changes nothing where that operator does not occur ---------- *)
Section O.
Variable o2 : oracle2.
Variables fns fns' : operator -> option (string -> string -> out sres).
Variable o : operator.
Hypothesis same_elsewhere : forall op, op <> o -> fns op = fns' op.

Lemma op_dec (a b : operator) : {a = b} + {a <> b}. Proof. decide equality. Qed.

Lemma override_sz : forall n,
  (forall e, esize e <= n -> ~ In o (postorder e) -> Driver.render_with o2 fns e = Driver.render_with o2 fns' e) /\
  (forall v, vsize v <= n -> ~ In o (postorder_v v) -> Driver.serialize_with o2 fns v = Driver.serialize_with o2 fns' v).
Proof.
  induction n as [|n [IHe IHv]].
  { split; [intros e H; destruct e; cbn in H; lia|].
    intros v H N. destruct v; try reflexivity; cbn in H; try lia. destruct e; cbn in H; lia. }
  assert (HE : forall e, esize e <= S n -> ~ In o (postorder e) -> Driver.render_with o2 fns e = Driver.render_with o2 fns' e).
  { intros [l op r b f] H N. cbn in H. rewrite !render_with_unfold.
    change (postorder (E l op r b f)) with (postorder_v l ++ postorder_v r ++ [op])%list in N.
    rewrite (IHv l) by (try lia; intros X; apply N; apply in_or_app; left; exact X).
    rewrite (IHv r) by (try lia; intros X; apply N; apply in_or_app; right; apply in_or_app; left; exact X).
    rewrite (same_elsewhere op) by (intros ->; apply N; apply in_or_app; right; apply in_or_app; right; left; reflexivity).
    reflexivity. }
  split; [exact HE|].
  intros v H N. destruct v; try reflexivity.
  - cbn in H. apply HE; assumption.
  - rewrite !serialize_with_list. cbn in H.
    change (postorder_v (VList l)) with ((fix each (l : list expr) : list operator := match l with [] => [] | x :: rest => (postorder x ++ each rest)%list end) l) in N.
    generalize (@nil string). induction l as [|x xs IHl]; intros acc; [reflexivity|].
    cbn [Driver.ser_list_with]. cbn in H.
    rewrite (IHe x) by (try lia; intros X; apply N; apply in_or_app; left; exact X).
    destruct (Driver.render_with o2 fns' x) as [[s' [er|]]|]; cbn [bind]; try reflexivity.
    apply IHl; [lia|]. intros X; apply N; apply in_or_app; right; exact X.
  - cbn in H. rewrite !serialize_with_bound.
    change (postorder_v (VBound v1 v2 incl)) with (postorder_v v1 ++ postorder_v v2)%list in N.
    rewrite (IHv v1) by (try lia; intros X; apply N; apply in_or_app; left; exact X).
    rewrite (IHv v2) by (try lia; intros X; apply N; apply in_or_app; right; exact X).
    reflexivity.
Qed.

Theorem override_is_local e : ~ In o (postorder e) -> Driver.render_with o2 fns e = Driver.render_with o2 fns' e.
Proof. exact (proj1 (override_sz (esize e)) e (le_n _)). Qed.
End O.
