(* C11 — A default field scopes bare terms and changes nothing else. *)
Require Import Parser Api Shape Build Scope.
Require Import ParserScope ParserScope2.
From Coq Require Import List String.

(* Spec/Scope.v: scope f e applies f to every bare leaf that is an operand of AND/OR/NOT/+/-/~/^ or the whole query and to
   nothing else. For every token list none of whose tokens denotes the string f, and f <> "": parsing with the default field f
   is parsing without one followed by scope f — same acceptance, and exactly the scoped tree. *)
Theorem C11_default_field_scopes_bare_terms : forall (o : oracle) (f : string),
  String.eqb f "" = false ->
  forall ts : list token, tokens_clean o f ts ->
  parse_toks o f ts = map_pres f (parse_toks o "" ts).
Proof. exact C11_scope. Qed.

Print Assumptions C11_default_field_scopes_bare_terms.
