(* C12 specification: the JSON syntax tree of what MarshalJSON writes for a tree (for trees it can encode: finite floats).
   Keys keep their raw text, as the decoder model expects; strings carry the oracle's raw encoding and their decoded text. *)
Require Import Parser Render Decode.
From Coq Require Import List Ascii String ZArith Bool.
Import ListNotations.
Open Scope string_scope.

Definition key (k : string) : string * string := ("""" ++ k ++ """", k).
Definition member (k : string) (v : jv) : string * string * jv := (key k, v).
Definition jbool (b : bool) : jv := if b then JTrue else JFalse.

Section C.
Variable o2 : oracle2.

Definition jnum (f : Z) : jv := JNum (match json_num o2 f with Some t => t | None => "" end).
Definition jstr (s : string) : jv := JStr (json_str o2 s) s.

Fixpoint cst_e (e : expr) {struct e} : jv :=
  match e with
  | E l op r boost fuzzy =>
    if Render.is_leaf op then cst_v l
    else JObj ([member "left" (cst_v l); member "operator" (JStr ("""" ++ op_string op ++ """") (op_string op))]
               ++ (match r with VNil => [] | _ => [member "right" (cst_v r)] end)
               ++ (if (fuzzy =? 1)%Z then [] else [member "distance" (JNum (z_to_string fuzzy))])
               ++ (if (boost =? one_bits)%Z then [] else [member "power" (jnum boost)]))%list
  end
with cst_v (v : value) {struct v} : jv :=
  match v with
  | VNil => JNull
  | VStr s | VCol s => jstr s
  | VInt z => JNum (z_to_string z)
  | VFloat f => jnum f
  | VBool b => jbool b
  | VExp e => cst_e e
  | VList l => JArr ((fix each (l : list expr) : list jv := match l with [] => [] | x :: rest => cst_e x :: each rest end) l)
  | VBound mn mx incl => JObj [member "min" (cst_v mn); member "max" (cst_v mx); member "inclusive" (jbool incl)]
  end.
End C.
