(* Scratch: more string-surgery lemmas for rang()/rangParam(): strip the brackets, first/last part of
   a Split, Trim keeps a non-space first/last byte *)
Require Import Parser Render RenderStr.
From Coq Require Import List Ascii String ZArith Bool Lia.
Import ListNotations.
Open Scope string_scope.

Lemma rev_str_acc : forall s acc, rev_str s acc = rev_str s "" ++ acc.
Proof.
  induction s as [|c s IH]; intros acc; cbn [rev_str]; [reflexivity|].
  rewrite IH, (IH (String c "")), append_assoc. reflexivity.
Qed.
Lemma rev_str_app : forall a b acc, rev_str (a ++ b) acc = rev_str b (rev_str a acc).
Proof. induction a as [|c a IH]; intros b acc; cbn [append rev_str]; [reflexivity|apply IH]. Qed.
Lemma rev_str_rev : forall s acc acc', rev_str (rev_str s acc) acc' = rev_str acc (s ++ acc').
Proof. induction s as [|c s IH]; intros acc acc'; cbn [rev_str append]; [reflexivity|]. rewrite IH. reflexivity. Qed.
Lemma rev_str_invol s : rev_str (rev_str s "") "" = s.
Proof. rewrite rev_str_rev. cbn. apply append_nil_r. Qed.

Lemma strip_ends_brackets o c X : strip_ends (String o (X ++ String c "")) = X.
Proof.
  unfold strip_ends. rewrite rev_str_app. cbn [rev_str]. apply rev_str_invol.
Qed.

(* first and last element of strings.Split *)
Lemma split_first : forall s cur, exists t l, split_comma s cur = (cur ++ t) :: l.
Proof.
  induction s as [|c s IH]; intros cur; cbn [split_comma].
  - exists "", []. rewrite append_nil_r. reflexivity.
  - destruct (Ascii.eqb c ","%char).
    + exists "", (split_comma s ""). rewrite append_nil_r. reflexivity.
    + destruct (IH (cur ++ String c "")) as [t [l E]]. exists (String c t), l. rewrite E, append_assoc. reflexivity.
Qed.
Lemma split_last q : Ascii.eqb q ","%char = false ->
  forall X cur, exists (l : list string) (t : string), split_comma (X ++ String q "") cur = (l ++ [(t ++ String q "")%string])%list.
Proof.
  intros Hq. induction X as [|c X IH]; intros cur; cbn [append split_comma].
  - rewrite Hq. cbn [split_comma]. exists [], cur. reflexivity.
  - destruct (Ascii.eqb c ","%char).
    + destruct (IH "") as [l [t E]]. exists (cur :: l), t. rewrite E. reflexivity.
    + destruct (IH (cur ++ String c "")) as [l [t E]]. exists l, t. exact E.
Qed.

Lemma trim_left_cons c r : trim_left (String c r) = if Ascii.eqb c " "%char then trim_left r else String c r.
Proof. destruct c as [[] [] [] [] [] [] [] []]; reflexivity. Qed.

Lemma trim_left_keeps_last q : Ascii.eqb q " "%char = false ->
  forall Y, exists Y', trim_left (Y ++ String q "") = Y' ++ String q "".
Proof.
  intros Hq. induction Y as [|c Y IH]; cbn [append]; rewrite trim_left_cons.
  - rewrite Hq. exists "". reflexivity.
  - destruct (Ascii.eqb c " "%char); [apply IH|]. exists (String c Y). reflexivity.
Qed.

(* Trim keeps a non-space first byte / last byte *)
Lemma trim_first q r : Ascii.eqb q " "%char = false -> exists r', trim (String q r) = String q r'.
Proof.
  intros Hq. unfold trim. rewrite trim_left_cons, Hq. cbn [rev_str]. rewrite (rev_str_acc r (String q "")).
  destruct (trim_left_keeps_last q Hq (rev_str r "")) as [Y' E]. rewrite E.
  rewrite rev_str_app. cbn [rev_str]. eexists. reflexivity.
Qed.
Lemma trim_last q X : Ascii.eqb q " "%char = false -> exists X', trim (X ++ String q "") = X' ++ String q "".
Proof.
  intros Hq. unfold trim.
  destruct (trim_left_keeps_last q Hq X) as [X1 E]. rewrite E.
  rewrite rev_str_app. cbn [rev_str]. rewrite trim_left_cons, Hq.
  cbn [rev_str]. rewrite (rev_str_acc _ (String q "")). eexists. reflexivity.
Qed.

Lemma trim_first_ne q r p : Ascii.eqb q " "%char = false -> q <> p -> trim (String q r) <> String p "".
Proof. intros Hq Hne E. destruct (trim_first q r Hq) as [r' E']. rewrite E' in E. inversion E. contradiction. Qed.
Lemma trim_last_ne q X p : Ascii.eqb q " "%char = false -> q <> p -> trim (X ++ String q "") <> String p "".
Proof.
  intros Hq Hne E. destruct (trim_last q X Hq) as [X' E']. rewrite E' in E.
  destruct X' as [|c X']; cbn in E; [injection E as E1; contradiction|injection E as E1 E2; destruct X'; discriminate].
Qed.
Print Assumptions trim_last_ne.
