(* C11 — A default field scopes bare terms and changes nothing else. *)
Require Import Parser Api Shape Build Scope.
Require Import ParserScope ParserScope2.
Require Lex.
From Coq Require Import List String.

(* Spec/Scope.v: scope f e applies f to every bare leaf that is an operand of AND/OR/NOT/+/-/~/^ or the whole query and to
   nothing else. For every token list none of whose tokens denotes the string f, and f <> "": parsing with the default field f
   is parsing without one followed by scope f — same acceptance, and exactly the scoped tree. *)
Theorem C11_default_field_scopes_bare_terms : forall (o : oracle) (f : string),
  String.eqb f "" = false ->
  forall ts : list token, tokens_clean o f ts ->
  parse_toks o f ts = map_pres f (parse_toks o "" ts).
Proof. exact C11_scope. Qed.

(* the same for Parse on every input string (any bytes): with a default field f that none of the query's terms denotes,
   Parse accepts exactly what it accepts without the option and returns the scoped tree *)
Theorem C11_parse_with_default_field : forall (o : oracle) (cl : Lex.classes) (f s : string),
  String.eqb f "" = false -> tokens_clean o f (Api.lex_tokens cl s) ->
  Api.parse o cl f s = map_pres f (Api.parse o cl "" s).
Proof. intros o cl f s Hf Hc. exact (C11_scope o f Hf (Api.lex_tokens cl s) Hc). Qed.

Print Assumptions C11_default_field_scopes_bare_terms.
Print Assumptions C11_parse_with_default_field.
