(* Scratch: C10 — on a strictly well-formed tree a successful Render never returns the empty string *)
Require Import Parser ParserShape Render RenderNum RenderStr RenderStr2 RenderTotal RenderInline RenderParamTotal RenderEmpty.
From Coq Require Import List Ascii String ZArith Bool Lia Arith.
Import ListNotations.

Section N.
Variable o2 : oracle2.
(* %v of a float64 is never the empty string *)
Hypothesis fmt_v_nonempty : forall f, fmt_v o2 f <> ""%string.

Lemma app_const_ne a c b : (a ++ String c b)%string <> ""%string.
Proof. destruct a; discriminate. Qed.
Lemma wrap_ne b s : s <> ""%string -> wrap_if b s <> ""%string.
Proof. destruct b; cbn; [discriminate|auto]. Qed.

Lemma z_to_string_ne z : z_to_string z <> ""%string.
Proof.
  unfold z_to_string. destruct (z <? 0)%Z eqn:E; [discriminate|].
  apply Z.ltb_ge in E. destruct (z_digits_head 30 z "" ltac:(lia) E) as [m [r [_ H]]]. rewrite H. discriminate.
Qed.

Definition ne (x : out sres) : Prop := forall s, x = Ret (s, None) -> s <> ""%string.

Lemma range_text_ne left incl a b sa sb : range_text left incl a b sa sb <> ""%string.
Proof.
  unfold range_text. repeat match goal with |- context [if ?c then _ else _] => destruct c end; apply app_const_ne.
Qed.

Lemma fn_rang_ne left right : ne (fn_rang o2 left right).
Proof.
  intros s. unfold fn_rang, fn_rang_core. destruct (String.length right) as [|[|n]]; try discriminate.
  destruct (split_comma _ _) as [|a [|b [|c l]]]; try discriminate.
  unfold rang_by_text. destruct (to_ints _ _) as [[i j]|]; [intros H; inversion H; apply range_text_ne|].
  destruct (to_floats o2 _ _) as [[f g]|]; intros H; inversion H; [apply range_text_ne|apply app_const_ne].
Qed.

Lemma rn_node_ne l op r lf rt :
  op <> Must -> op <> Literal -> op <> Wild -> op <> Regexp -> ne (rn_node o2 l op r lf rt).
Proof.
  intros N1 N2 N3 N4 s. unfold rn_node. destruct op; try contradiction; cbn [pg_fn];
    try discriminate; try (intros H; inversion H; first [apply app_const_ne | discriminate]).
  - (* Like *) unfold fn_like. destruct (_ && _); intros H; inversion H; apply app_const_ne.
  - (* Range *) apply fn_rang_ne.
Qed.

Lemma leaf_ne e : Shape.is_leaf e = true -> ne (render o2 e).
Proof.
  destruct e as [l op r bo fu]. intros H s.
  assert (Hr : r = VNil) by (destruct op, l, r; cbn in H; try discriminate; reflexivity). subst r.
  assert (Hop : op = Literal \/ op = Wild \/ op = Regexp). { destruct op; auto; destruct l; cbn in H; discriminate. }
  rewrite render_eq.
  destruct l as [|z|f|x| |c| | |]; try (destruct Hop as [ -> | [ -> | -> ] ]; discriminate).
  - destruct Hop as [ -> | [ -> | -> ] ]; try discriminate. cbn. unfold fn_literal.
    repeat match goal with |- context [if ?b then _ else _] => destruct b end; try discriminate.
    intros E; inversion E. apply z_to_string_ne.
  - destruct Hop as [ -> | [ -> | -> ] ]; try discriminate. cbn. unfold fn_literal.
    repeat match goal with |- context [if ?b then _ else _] => destruct b end; try discriminate.
    intros E; inversion E. apply fmt_v_nonempty.
  - destruct Hop as [ -> | [ -> | -> ] ]; cbn; unfold fn_literal;
    repeat match goal with |- context [if ?b then _ else _] => destruct b end; try discriminate;
    intros E; inversion E; discriminate.
  - destruct Hop as [ -> | [ -> | -> ] ]; try discriminate. cbn [serialize]. unfold ser_column.
    destruct (String.eqb c ""); [cbn; discriminate|]. destruct (contains_char _ c); [cbn; discriminate|].
    cbn. unfold fn_literal. repeat match goal with |- context [if ?b then _ else _] => destruct b end; try discriminate.
    intros E; inversion E; discriminate.
Qed.

Theorem render_nonempty_sz : forall (n : nat) e, (esize e <= n)%nat -> wf true e = true -> ne (render o2 e).
Proof.
  induction n as [|n IH]; intros e Hs W; [destruct e; cbn in Hs; lia|].
  destruct (Shape.is_leaf e) eqn:Lf; [apply leaf_ne; exact Lf|].
  destruct e as [l op r bo fu]. cbn in Hs. intros s. rewrite render_eq.
  destruct (serialize o2 l) as [[lf [el|]]|] eqn:El; cbn [bind]; try discriminate.
  destruct (serialize o2 r) as [[rt [er|]]|] eqn:Er; cbn [bind]; try discriminate.
  destruct op; try (apply rn_node_ne; discriminate); cbn [wf] in W; try (rewrite W in Lf; discriminate).
  (* Must: the operand's own text *)
  destruct l as [| | | | | | a | |]; try discriminate. destruct r; try discriminate.
  unfold rn_node. cbn [pg_fn no_wrap_op negb andb wrap_if]. intros H; inversion H; subst.
  change (serialize o2 (VExp a)) with (render o2 a) in El. apply (IH a ltac:(cbn in Hs; lia) W s El).
Qed.

Theorem render_nonempty e s : wf true e = true -> render o2 e = Ret (s, None) -> s <> ""%string.
Proof. intros W. exact (render_nonempty_sz (esize e) e (le_n _) W s). Qed.
End N.
Print Assumptions render_nonempty.
