(* C03 from the query TEXT: for a query printed from a specification tree (Spec/Printer: ASCII tokens that lex to themselves,
   parentheses at least where the precedence table requires them) whose parse is a tree of the filterable fragment, ToPostgres
   returns a text, PostgreSQL reads one expression from it, and that expression is true on exactly the rows on which the query is
   true. Composition of C05 (text -> tree), Render succeeds / text / scanner / grammar / semantics (tree -> rows). *)
Require Import Parser Render Api PgModel QuerySem SqlSem SqlFrag Shape Build Printer.
Require Lex LexWs LexWsG.
Require Import PrintedText SqlParse SqlSemProof SqlEndToEnd SqlSucceeds.
From Coq Require Import List Ascii String ZArith Bool Lia.
Import ListNotations.

Theorem to_postgres_on_printed_fragment_query :
  forall (o : oracle) (o2 : oracle2) (cl : Lex.classes),
  (forall r, Lex.is_space r = true -> Lex.is_alnum cl r = false) ->
  forall (t : qt) (ts : list tok) (a : ast),
  wfq o t -> Forall (LexWsG.lexes_clean cl) (map ltok (pr t)) ->
  tr (want o t) = Some (ts, a) ->
  side (want o t) = true -> text_ok (want o t) = true -> names_ok (want o t) = true -> leaves_ok o2 (want o t) = true ->
  exists s : string,
    Api.to_postgres o o2 cl "" (text_of (pr t)) = Ret (s, None) /\
    pg_read (str s) = Some a /\
    forall r : row, ssem r [] a = qsem r (want o t).
Proof.
  intros o o2 cl Hws t ts a Wf La T S Ok Nm Lv.
  destruct (render_succeeds o2 (want o t) ts a T Ok Lv) as [s R]. exists s.
  split.
  - unfold Api.to_postgres. rewrite (printed_text_parses o cl Hws t Wf La). exact R.
  - split; [exact (render_reads o2 (want o t) ts a s T Ok Nm R)|intros r; exact (tr_sem r [] (want o t) ts a T S)].
Qed.

(* the premises are satisfiable: the query  n : 5 AND NOT ( s : x OR k : y )  under the ASCII classifier and an oracle whose
   ParseFloat rejects everything and whose ValidString accepts everything *)
Definition o_ex : oracle := {| parse_float := fun _ => None; is_nan_or_inf := fun _ => false; float_pos := fun _ => false; float_of_int := fun z => z |}.
Definition o2_ex : oracle2 :=
  {| fmt_v := fun _ => ""%string; fmt_2f := fun _ => ""%string; fmt_1f := fun _ => ""%string; f_gt1 := fun _ => false; go_quote := fun s => s;
     json_str := fun s => s; json_num := fun _ => None; pfloat := fun _ => None; valid_utf8 := fun _ => true |}.
Definition ex_tree : qt :=
  QAnd (QFv (lit_tok "n") (tk TColon) (lit_tok "5"))
       (QNot (QPar (QOr (QFv (lit_tok "s") (tk TColon) (lit_tok "x")) (QFv (lit_tok "k") (tk TColon) (lit_tok "y"))))).
Example premises_are_satisfiable :
  wfq o_ex ex_tree /\ Forall (LexWsG.lexes_clean LexWs.cl_ascii) (map ltok (pr ex_tree)) /\
  (exists ts a, tr (want o_ex ex_tree) = Some (ts, a)) /\
  side (want o_ex ex_tree) = true /\ text_ok (want o_ex ex_tree) = true /\ names_ok (want o_ex ex_tree) = true /\ leaves_ok o2_ex (want o_ex ex_tree) = true /\
  text_of (pr ex_tree) = "n : 5 AND NOT ( s : x OR k : y ) "%string.
Proof.
  split; [cbn [wfq ex_tree]; repeat split; try reflexivity; cbn; lia|].
  split.
  { repeat (apply Forall_cons; [split; [split; discriminate|vm_compute; reflexivity]|]). apply Forall_nil. }
  split; [eexists; eexists; vm_compute; reflexivity|].
  repeat split; vm_compute; reflexivity.
Qed.
