(* Guard predicate of the renderers: what Render/RenderParam need of a tree in order not to panic (C01/C13) *)
Require Import Parser Shape Render.
From Coq Require Import List Ascii String ZArith Bool Lia Arith.
Import ListNotations.

(* what the directly recursive renderers need *)
Fixpoint gok (e : expr) {struct e} : bool :=
  match e with
  | E l op r _ _ =>
    (match op with
     | Range => match r with VBound (VExp a) (VExp b) _ => Shape.is_leaf a && Shape.is_leaf b | _ => false end
     | Like => match r with VExp x => is_pattern x | _ => false end
     | _ => true
     end) && gv l && gv r
  end
with gv (v : value) {struct v} : bool :=
  match v with
  | VExp e => gok e
  | VList l => (fix all (l : list expr) : bool := match l with [] => true | x :: r => gok x && all r end) l
  | VBound a b _ => gv a && gv b
  | _ => true
  end.

