(* C09 (whitespace), for ASCII inputs: the token stream does not depend on how much whitespace (space, tab, CR, LF) stands
   between two tokens, nor on whether there is any where the tokens can be told apart without it. *)
Require Import Lex LexProof LexFuel.
From Coq Require Import List Ascii String NArith Bool Arith Lia ZifyBool ZifyN ZifyNat.
Import ListNotations.

Section W.
Variable cl : classes.
(* oracle facts: the four whitespace runes are neither letters nor digits *)
Hypothesis ws_not_alnum : forall r, is_space r = true -> is_alnum cl r = false.

Definition asc (s : bytes) : Prop := forallb (fun c => (bval c <? 128)%N) s = true.
Lemma asc_cons c s : asc (c :: s) <-> (bval c <? 128)%N = true /\ asc s.
Proof. unfold asc. cbn [forallb]. rewrite andb_true_iff. tauto. Qed.
Lemma asc_app a b : asc (a ++ b) <-> asc a /\ asc b.
Proof. unfold asc. rewrite forallb_app, andb_true_iff. tauto. Qed.

Lemma decode_ascii c s : (bval c <? 128)%N = true -> decode_rune (c :: s) = Some (bval c, 1).
Proof. intros H. unfold decode_rune. rewrite H. reflexivity. Qed.

(* ---------- the word state on ASCII input, one byte at a time ---------- *)
Definition wordb (c : ascii) : bool := is_alnum cl (bval c) || is_wildcard (bval c) || (bval c =? 46)%N || (bval c =? 45)%N.
Definition escb (c : ascii) : bool := is_escape (bval c).
Definition mkword (v : bytes) : token := {| typ := word_type v; val := v |}.

Lemma lex_word_step f c s acc : (bval c <? 128)%N = true ->
  lex_word cl (S f) (c :: s) acc =
  if wordb c then lex_word cl f s (c :: acc)
  else if escb c then
    match decode_rune s with
    | None => lex_word cl f s (c :: acc)
    | Some (_, w2) => let '(s2, acc2) := take_onto w2 s (c :: acc) in lex_word cl f s2 acc2
    end
  else Tok (mkword (rev acc)) (c :: s).
Proof. intros H. cbn [lex_word]. rewrite (decode_ascii c s H). reflexivity. Qed.

Lemma lex_word_nil f acc : lex_word cl (S f) [] acc = Tok (mkword (rev acc)) [].
Proof. reflexivity. Qed.

(* how the word state covers a byte string a exactly: Some false = cleanly, Some true = a ends in a dangling escape *)
Fixpoint wcover (n : nat) (a : bytes) : option bool :=
  match n with
  | 0 => None
  | S n' =>
    match a with
    | [] => Some false
    | c :: r => if wordb c then wcover n' r else if escb c then match r with [] => Some true | _ :: r' => wcover n' r' end else None
    end
  end.

Definition stopper (rest : bytes) : Prop :=
  match rest with [] => True | c :: _ => wordb c = false /\ escb c = false end.

(* backward: a cleanly covered, the continuation stops the word: the word is exactly a *)
Lemma lex_word_cover : forall n a acc rest f,
  asc a -> (match rest with [] => True | c :: _ => (bval c <? 128)%N = true end) ->
  wcover n a = Some false -> stopper rest -> List.length a < f ->
  lex_word cl f (a ++ rest) acc = Tok (mkword (rev acc ++ a)) rest.
Proof.
  induction n as [|n IH]; intros a acc rest f Ha Hr Hc Hs Hf; [discriminate|].
  destruct a as [|c r].
  - cbn [app]. rewrite app_nil_r. destruct f as [|f]; [cbn in Hf; lia|].
    destruct rest as [|d rest]; [reflexivity|]. destruct Hs as [S1 S2].
    rewrite (lex_word_step f d rest acc Hr), S1, S2. reflexivity.
  - apply asc_cons in Ha. destruct Ha as [Hc0 Ha]. cbn [wcover] in Hc.
    destruct f as [|f]; [cbn in Hf; lia|]. cbn [app]. rewrite (lex_word_step f c (r ++ rest) acc Hc0).
    destruct (wordb c).
    + rewrite (IH r (c :: acc) rest f Ha Hr Hc Hs) by (cbn in Hf; lia). cbn [rev]. rewrite <- app_assoc. reflexivity.
    + destruct (escb c); [|discriminate]. destruct r as [|d r']; [discriminate|].
      apply asc_cons in Ha. destruct Ha as [Hd Ha]. cbn [app]. rewrite (decode_ascii d _ Hd). cbn [take_onto].
      rewrite (IH r' (d :: c :: acc) rest f Ha Hr Hc Hs) by (cbn in Hf; lia). cbn [rev]. rewrite <- !app_assoc. reflexivity.
Qed.

(* forward: if the word state, started on a ++ rest, hands back exactly rest, then it covered a *)
Lemma lex_word_covered : forall n a acc rest f t,
  asc (a ++ rest) -> List.length a < n ->
  lex_word cl f (a ++ rest) acc = Tok t rest ->
  exists d, wcover n a = Some d /\ (d = true -> rest = []) /\ stopper rest /\ t = mkword (rev acc ++ a).
Proof.
  induction n as [|n IH]; intros a acc rest f t Ha Hn R; [lia|].
  destruct f as [|f]; [discriminate|].
  destruct a as [|c r].
  - cbn [app] in *. exists false. split; [reflexivity|]. split; [discriminate|]. rewrite app_nil_r.
    destruct rest as [|d rest].
    + cbn in R. inversion R. split; [exact I|reflexivity].
    + apply asc_cons in Ha. destruct Ha as [Hd Ha]. rewrite (lex_word_step f d rest acc Hd) in R.
      destruct (wordb d) eqn:Wd.
      * (* the word would go on: it cannot hand back d :: rest *)
        exfalso. pose proof (lex_word_spec cl _ _ _ _ _ R) as [E L]. cbn in L. lia.
      * destruct (escb d) eqn:Ed.
        -- exfalso. destruct (decode_rune rest) as [[r2 w2]|] eqn:D.
           ++ destruct (take_onto w2 rest (d :: acc)) as [s2 acc2] eqn:T.
              pose proof (lex_word_spec cl _ _ _ _ _ R) as [E L].
              pose proof (decode_width _ _ _ D) as Wd2. pose proof (take_onto_len _ _ _ _ _ Wd2 T) as TL. cbn in L. lia.
           ++ pose proof (lex_word_spec cl _ _ _ _ _ R) as [E L]. cbn in L. lia.
        -- inversion R. split; [split; assumption|reflexivity].
  - cbn [app] in *. apply asc_cons in Ha. destruct Ha as [Hc0 Ha]. rewrite (lex_word_step f c (r ++ rest) acc Hc0) in R.
    cbn [wcover]. destruct (wordb c).
    + destruct (IH r (c :: acc) rest f t Ha ltac:(cbn in Hn; lia) R) as (d & C & D1 & S & T).
      exists d. repeat split; auto. rewrite T. cbn [rev]. rewrite <- app_assoc. reflexivity.
    + destruct (escb c).
      * destruct r as [|d r'].
        -- cbn [app] in R. exists true. split; [reflexivity|].
           destruct rest as [|e rest].
           ++ cbn in R. destruct f; inversion R. repeat split; auto.
           ++ exfalso. apply asc_cons in Ha. destruct Ha as [He Ha]. rewrite (decode_ascii e _ He) in R. cbn [take_onto] in R.
              pose proof (lex_word_spec cl _ _ _ _ _ R) as [E L]. cbn in L. lia.
        -- cbn [app] in R. apply asc_cons in Ha. destruct Ha as [Hd Ha]. rewrite (decode_ascii d _ Hd) in R. cbn [take_onto] in R.
           destruct (IH r' (d :: c :: acc) rest f t Ha ltac:(cbn in Hn; lia) R) as (b & C & D1 & S & T).
           exists b. repeat split; auto. rewrite T. cbn [rev]. rewrite <- !app_assoc. reflexivity.
      * exfalso. inversion R. assert (L : List.length (c :: r ++ rest) = List.length rest) by (rewrite H1; reflexivity).
        cbn in L. rewrite app_length in L. lia.
Qed.


(* ---------- the phrase state (after the opening quote) ---------- *)
Definition closes (open : N) (c : ascii) : bool :=
  negb (is_alnum cl (bval c) || is_wildcard (bval c) || is_escape (bval c)) && negb (is_space (bval c)) && (bval c =? open)%N.

Lemma lex_phrase_step f open c s acc : (bval c <? 128)%N = true ->
  lex_phrase cl (S f) open (c :: s) acc =
  if closes open c then Tok {| typ := TQuoted; val := rev (c :: acc) |} s else lex_phrase cl f open s (c :: acc).
Proof.
  intros H. cbn [lex_phrase]. rewrite (decode_ascii c s H). cbn [take_onto]. unfold closes.
  destruct (is_alnum cl (bval c) || is_wildcard (bval c) || is_escape (bval c)); [reflexivity|].
  destruct (is_space (bval c)); [reflexivity|]. destruct (bval c =? open)%N; reflexivity.
Qed.

(* a = bytes up to and including the closing quote *)
Fixpoint pcover (open : N) (a : bytes) : bool :=
  match a with
  | [] => false
  | c :: r => if closes open c then (match r with [] => true | _ => false end) else pcover open r
  end.

Lemma lex_phrase_cover : forall a open acc rest f, asc a -> pcover open a = true -> List.length a < f ->
  lex_phrase cl f open (a ++ rest) acc = Tok {| typ := TQuoted; val := rev acc ++ a |} rest.
Proof.
  induction a as [|c r IH]; intros open acc rest f Ha Hc Hf; [discriminate|].
  apply asc_cons in Ha. destruct Ha as [Hc0 Ha]. destruct f as [|f]; [cbn in Hf; lia|].
  cbn [app]. rewrite (lex_phrase_step f open c (r ++ rest) acc Hc0). cbn [pcover] in Hc.
  destruct (closes open c).
  - destruct r; [|discriminate]. cbn [app rev]. reflexivity.
  - rewrite (IH open (c :: acc) rest f Ha Hc) by (cbn in Hf; lia). cbn [rev]. rewrite <- app_assoc. reflexivity.
Qed.

Lemma lex_phrase_covered : forall a open acc rest f t, asc (a ++ rest) ->
  lex_phrase cl f open (a ++ rest) acc = Tok t rest ->
  pcover open a = true /\ t = {| typ := TQuoted; val := rev acc ++ a |}.
Proof.
  induction a as [|c r IH]; intros open acc rest f t Ha R.
  - exfalso. cbn [app] in R. destruct f as [|f]; [discriminate|]. destruct rest as [|d rest]; [discriminate|].
    apply asc_cons in Ha. destruct Ha as [Hd Ha]. rewrite (lex_phrase_step f open d rest acc Hd) in R.
    destruct (closes open d).
    + inversion R. assert (L : List.length rest = List.length (d :: rest)) by (rewrite <- H1 at 1; reflexivity). cbn in L. lia.
    + pose proof (lex_phrase_spec cl _ _ _ _ _ _ R) as [_ L]. cbn in L. lia.
  - cbn [app] in *. apply asc_cons in Ha. destruct Ha as [Hc0 Ha]. destruct f as [|f]; [discriminate|].
    rewrite (lex_phrase_step f open c (r ++ rest) acc Hc0) in R. cbn [pcover].
    destruct (closes open c).
    + inversion R. destruct r as [|d r'].
      * split; reflexivity.
      * exfalso. assert (L : List.length ((d :: r') ++ rest) = List.length rest) by (rewrite H1; reflexivity).
        rewrite app_length in L. cbn in L. lia.
    + destruct (IH open (c :: acc) rest f t Ha R) as [C T]. split; [exact C|]. rewrite T. cbn [rev]. rewrite <- app_assoc. reflexivity.
Qed.

(* ---------- the regexp state (after the opening slash) ---------- *)
Definition rcloses (open : N) (c : ascii) : bool :=
  negb (is_alnum cl (bval c) || is_wildcard (bval c)) && negb (is_escape (bval c)) && negb (is_space (bval c)) && (bval c =? open)%N.

Lemma lex_regexp_step f open c s acc : (bval c <? 128)%N = true ->
  lex_regexp cl (S f) open (c :: s) acc =
  if is_alnum cl (bval c) || is_wildcard (bval c) then lex_regexp cl f open s (c :: acc)
  else if is_escape (bval c) then
    match decode_rune s with
    | None => lex_regexp cl f open s (c :: acc)
    | Some (_, w2) => let '(s2, acc2) := take_onto w2 s (c :: acc) in lex_regexp cl f open s2 acc2
    end
  else if rcloses open c then Tok {| typ := TRegexp; val := rev (c :: acc) |} s else lex_regexp cl f open s (c :: acc).
Proof.
  intros H. cbn [lex_regexp]. rewrite (decode_ascii c s H). cbn [take_onto]. unfold rcloses.
  destruct (is_alnum cl (bval c) || is_wildcard (bval c)); [reflexivity|]. destruct (is_escape (bval c)); [reflexivity|].
  destruct (is_space (bval c)); [reflexivity|]. destruct (bval c =? open)%N; reflexivity.
Qed.

Fixpoint rcover (n : nat) (open : N) (a : bytes) : bool :=
  match n with
  | 0 => false
  | S n' =>
    match a with
    | [] => false
    | c :: r =>
      if is_alnum cl (bval c) || is_wildcard (bval c) then rcover n' open r
      else if is_escape (bval c) then match r with [] => false | _ :: r' => rcover n' open r' end
      else if rcloses open c then (match r with [] => true | _ => false end) else rcover n' open r
    end
  end.

Lemma lex_regexp_cover : forall n a open acc rest f, asc a -> rcover n open a = true -> List.length a < f ->
  lex_regexp cl f open (a ++ rest) acc = Tok {| typ := TRegexp; val := rev acc ++ a |} rest.
Proof.
  induction n as [|n IH]; intros a open acc rest f Ha Hc Hf; [discriminate|].
  destruct a as [|c r]; [discriminate|].
  apply asc_cons in Ha. destruct Ha as [Hc0 Ha]. destruct f as [|f]; [cbn in Hf; lia|].
  cbn [app]. rewrite (lex_regexp_step f open c (r ++ rest) acc Hc0). cbn [rcover] in Hc.
  destruct (is_alnum cl (bval c) || is_wildcard (bval c)).
  - rewrite (IH r open (c :: acc) rest f Ha Hc) by (cbn in Hf; lia). cbn [rev]. rewrite <- app_assoc. reflexivity.
  - destruct (is_escape (bval c)).
    + destruct r as [|d r']; [discriminate|]. apply asc_cons in Ha. destruct Ha as [Hd Ha]. cbn [app].
      rewrite (decode_ascii d _ Hd). cbn [take_onto].
      rewrite (IH r' open (d :: c :: acc) rest f Ha Hc) by (cbn in Hf; lia). cbn [rev]. rewrite <- !app_assoc. reflexivity.
    + destruct (rcloses open c).
      * destruct r; [|discriminate]. reflexivity.
      * rewrite (IH r open (c :: acc) rest f Ha Hc) by (cbn in Hf; lia). cbn [rev]. rewrite <- app_assoc. reflexivity.
Qed.

Lemma lex_regexp_covered : forall n a open acc rest f t, asc (a ++ rest) -> List.length a < n ->
  lex_regexp cl f open (a ++ rest) acc = Tok t rest ->
  rcover n open a = true /\ t = {| typ := TRegexp; val := rev acc ++ a |}.
Proof.
  induction n as [|n IH]; intros a open acc rest f t Ha Hn R; [lia|].
  destruct f as [|f]; [discriminate|].
  destruct a as [|c r].
  - exfalso. cbn [app] in R. destruct rest as [|d rest]; [discriminate|].
    apply asc_cons in Ha. destruct Ha as [Hd Ha]. rewrite (lex_regexp_step f open d rest acc Hd) in R.
    destruct (is_alnum cl (bval d) || is_wildcard (bval d)).
    { pose proof (lex_regexp_spec cl _ _ _ _ _ _ R) as [_ L]. cbn in L. lia. }
    destruct (is_escape (bval d)).
    { destruct (decode_rune rest) as [[r2 w2]|] eqn:D.
      - destruct (take_onto w2 rest (d :: acc)) as [s2 acc2] eqn:T.
        pose proof (lex_regexp_spec cl _ _ _ _ _ _ R) as [_ L].
        pose proof (decode_width _ _ _ D) as Wd2. pose proof (take_onto_len _ _ _ _ _ Wd2 T) as TL. cbn in L. lia.
      - pose proof (lex_regexp_spec cl _ _ _ _ _ _ R) as [_ L]. cbn in L. lia. }
    destruct (rcloses open d).
    + inversion R. assert (L : List.length rest = List.length (d :: rest)) by (rewrite <- H1 at 1; reflexivity). cbn in L. lia.
    + pose proof (lex_regexp_spec cl _ _ _ _ _ _ R) as [_ L]. cbn in L. lia.
  - cbn [app] in *. apply asc_cons in Ha. destruct Ha as [Hc0 Ha].
    rewrite (lex_regexp_step f open c (r ++ rest) acc Hc0) in R. cbn [rcover].
    destruct (is_alnum cl (bval c) || is_wildcard (bval c)).
    { destruct (IH r open (c :: acc) rest f t Ha ltac:(cbn in Hn; lia) R) as [C T]. split; [exact C|]. rewrite T. cbn [rev]. rewrite <- app_assoc. reflexivity. }
    destruct (is_escape (bval c)).
    { destruct r as [|d r'].
      - exfalso. cbn [app] in R. destruct rest as [|e rest].
        + cbn in R. destruct f; discriminate.
        + apply asc_cons in Ha. destruct Ha as [He Ha]. rewrite (decode_ascii e _ He) in R. cbn [take_onto] in R.
          pose proof (lex_regexp_spec cl _ _ _ _ _ _ R) as [_ L]. cbn in L. lia.
      - cbn [app] in R. apply asc_cons in Ha. destruct Ha as [Hd Ha]. rewrite (decode_ascii d _ Hd) in R. cbn [take_onto] in R.
        destruct (IH r' open (d :: c :: acc) rest f t Ha ltac:(cbn in Hn; lia) R) as [C T]. split; [exact C|]. rewrite T. cbn [rev]. rewrite <- !app_assoc. reflexivity. }
    destruct (rcloses open c).
    + inversion R. destruct r as [|d r'].
      * split; reflexivity.
      * exfalso. assert (L : List.length ((d :: r') ++ rest) = List.length rest) by (rewrite H1; reflexivity).
        rewrite app_length in L. cbn in L. lia.
    + destruct (IH r open (c :: acc) rest f t Ha ltac:(cbn in Hn; lia) R) as [C T]. split; [exact C|]. rewrite T. cbn [rev]. rewrite <- app_assoc. reflexivity.
Qed.

(* ---------- one call of Next ---------- *)
Lemma nt_skip : forall s t rest, next_token cl s = (t, rest) -> proper t ->
  val t ++ rest = skip_space s /\ List.length rest < List.length (skip_space s).
Proof.
  intros s t rest H [Parser P2]. unfold next_token in H. cbv zeta in H.
  set (s1 := skip_space s) in *. clearbody s1.
  assert (Hgoal : val t ++ rest = s1 /\ List.length rest < List.length s1 -> val t ++ rest = s1 /\ List.length rest < List.length s1) by auto.
  destruct (decode_rune s1) as [[r wd]|] eqn:D.
  2:{ inversion H; subst. exfalso. apply Parser. reflexivity. }
  pose proof (decode_width _ _ _ D) as Hw.
  assert (Hword : forall x, (match x with Tok t0 rest0 => (t0, rest0) | LErr => (err_tok, []) end) = (t, rest) ->
            x = lex_word cl (S (List.length s1)) s1 [] ->
            (is_alnum cl r || is_wildcard r || (r =? 46)%N || (r =? 45)%N || is_escape r) = true ->
            val t ++ rest = s1 /\ List.length rest < List.length s1).
  { intros x Hx Ex C. destruct x as [t0 rest0|]; [|inversion Hx; subst; exfalso; apply P2; reflexivity].
    inversion Hx; subst t0 rest0. symmetry in Ex. split.
    - apply lex_word_spec in Ex. destruct Ex as [Ex _]. exact Ex.
    - eapply lex_word_progress; eauto. }
  destruct (is_alnum cl r || is_wildcard r || is_escape r) eqn:C0.
  { apply Hgoal. apply (Hword (lex_word cl (S (List.length s1)) s1 [])); [exact H | reflexivity |].
    apply orb_true_iff in C0. destruct C0 as [C0|C0]; [apply orb_true_iff in C0; destruct C0 as [C0|C0]|];
      rewrite C0; rewrite ?orb_true_r; reflexivity. }
  destruct (symbol r) as [ty|].
  { destruct (take_onto wd s1 []) as [s' acc] eqn:T. inversion H; subst. cbn [val].
    pose proof (take_onto_spec _ _ _ _ _ T) as [E L]. apply Hgoal. split; [exact E|lia]. }
  destruct (r =? 45)%N eqn:C45.
  { destruct (take_onto wd s1 []) as [s' acc] eqn:T.
    pose proof (take_onto_spec _ _ _ _ _ T) as [E L].
    assert (Hminus : (({| typ := TMinus; val := rev acc |}, s') = (t, rest)) -> val t ++ rest = s1 /\ List.length rest < List.length s1).
    { intros Hm. inversion Hm; subst. cbn [val]. split; [exact E|lia]. }
    destruct (decode_rune s') as [[r2 w2]|].
    - destruct (is_digit cl r2).
      + apply Hgoal. apply (Hword (lex_word cl (S (List.length s1)) s1 [])); [exact H | reflexivity |]. rewrite orb_true_r. reflexivity.
      + apply Hgoal. auto.
    - apply Hgoal. auto. }
  destruct ((r =? 34)%N || (r =? 39)%N).
  { destruct (take_onto wd s1 []) as [s' acc] eqn:T.
    pose proof (take_onto_spec _ _ _ _ _ T) as [E L].
    destruct (lex_phrase cl (S (List.length s1)) r s' acc) as [t0 rest0|] eqn:EP; [|inversion H; subst; exfalso; apply P2; reflexivity].
    inversion H; subst t0 rest0. apply lex_phrase_spec in EP. destruct EP as [EP1 EP2].
    apply Hgoal. cbn in E. split; [rewrite EP1; exact E|lia]. }
  destruct (r =? 47)%N.
  { destruct (take_onto wd s1 []) as [s' acc] eqn:T.
    pose proof (take_onto_spec _ _ _ _ _ T) as [E L].
    destruct (lex_regexp cl (S (List.length s1)) r s' acc) as [t0 rest0|] eqn:EP; [|inversion H; subst; exfalso; apply P2; reflexivity].
    inversion H; subst t0 rest0. apply lex_regexp_spec in EP. destruct EP as [EP1 EP2].
    apply Hgoal. cbn in E. split; [rewrite EP1; exact E|lia]. }
  inversion H; subst. exfalso. apply P2. reflexivity.
Qed.

Lemma skip_space_len : forall s, List.length (skip_space s) <= List.length s.
Proof. induction s as [|c r IH]; cbn [skip_space]; [lia|]. destruct (is_space (ch c)); cbn; lia. Qed.
Lemma skip_space_id c s : ws_byte c = false -> skip_space (c :: s) = c :: s.
Proof. unfold ws_byte. intros H. cbn [skip_space]. rewrite H. reflexivity. Qed.
Lemma skip_space_head c s : skip_space (c :: s) = c :: s -> ws_byte c = false.
Proof.
  unfold ws_byte. cbn [skip_space]. destruct (is_space (ch c)); [|reflexivity].
  intros H. pose proof (skip_space_len s) as L. rewrite H in L. cbn in L. lia.
Qed.

Lemma wcover_mono : forall n a d, wcover n a = Some d -> forall m, n <= m -> wcover m a = Some d.
Proof.
  induction n as [|n IH]; intros a d H m Hm; [discriminate|]. destruct m as [|m]; [lia|].
  destruct a as [|c r]; [exact H|]. cbn [wcover] in *.
  destruct (wordb c); [apply IH; [exact H|lia]|]. destruct (escb c); [|exact H].
  destruct r as [|e r']; [exact H|]. apply IH; [exact H|lia].
Qed.

Lemma ws_stopper c rest : ws_byte c = true -> stopper (c :: rest).
Proof.
  unfold ws_byte, ch. intros H. pose proof (ws_not_alnum _ H) as A. unfold stopper, wordb, escb.
  unfold is_space in H. rewrite A. unfold is_wildcard, is_escape.
  repeat match type of H with (_ || _ = true) => apply orb_true_iff in H; destruct H as [H|H] end;
    apply N.eqb_eq in H; rewrite H; split; reflexivity.
Qed.
Lemma ws_not_digit c : ws_byte c = true -> is_digit cl (bval c) = false.
Proof.
  unfold ws_byte, ch. intros H. pose proof (ws_not_alnum _ H) as A. unfold is_alnum in A.
  apply orb_false_iff in A. destruct A as [_ A]. exact A.
Qed.
Lemma ws_ascii c : ws_byte c = true -> (bval c <? 128)%N = true.
Proof.
  unfold ws_byte, ch, is_space. intros H.
  repeat match type of H with (_ || _ = true) => apply orb_true_iff in H; destruct H as [H|H] end;
    apply N.eqb_eq in H; rewrite H; reflexivity.
Qed.

(* what follows a token may change as long as its first byte stays the same, or becomes whitespace, or the input ends *)
Definition la_ok (r r' : bytes) : Prop :=
  match r' with [] => True | c' :: _ => ws_byte c' = true \/ (exists tl, r = c' :: tl) end.
(* a word that ends in a dangling escape (only possible at the very end of the input: known finding K14) *)
Definition clean (t : token) : Prop := wcover (S (S (List.length (val t)))) (val t) <> Some true.

Definition fin (x : lexres) : token * bytes := match x with Tok t rest => (t, rest) | LErr => (err_tok, []) end.
Lemma fin_tok x t r : fin x = (t, r) -> proper t -> x = Tok t r.
Proof. destruct x as [t0 r0|]; cbn; intros H [P1 P2]; inversion H; subst; [reflexivity|exfalso; apply P2; reflexivity]. Qed.

Lemma la_stopper r r' : la_ok r r' -> stopper r -> stopper r'.
Proof.
  unfold la_ok. destruct r' as [|c' r'']; [intros; exact I|]. intros [W|[tl ->]] S; [apply ws_stopper; exact W|exact S].
Qed.
Lemma la_ascii r r' : la_ok r r' -> asc r' -> match r' with [] => True | c :: _ => (bval c <? 128)%N = true end.
Proof. destruct r' as [|c' r'']; [auto|]. intros _ A. apply asc_cons in A. tauto. Qed.

Lemma next_token_ctx : forall t r r', asc (val t ++ r) -> asc r' ->
  next_token cl (val t ++ r) = (t, r) -> proper t -> clean t -> la_ok r r' ->
  next_token cl (val t ++ r') = (t, r').
Proof.
  intros t r r' A A' H P C L.
  destruct (nt_skip _ _ _ H P) as [E Ln].
  destruct (val t) as [|c v'] eqn:V; [rewrite <- E in Ln; cbn in Ln; lia|].
  cbn [app] in *. symmetry in E. pose proof (skip_space_head _ _ E) as Wc.
  apply asc_cons in A. destruct A as [Ac A].
  unfold next_token in *. cbv zeta in *. clear E Ln.
  rewrite (skip_space_id c (v' ++ r) Wc) in H. rewrite (skip_space_id c (v' ++ r') Wc).
  rewrite (decode_ascii c (v' ++ r) Ac) in H. rewrite (decode_ascii c (v' ++ r') Ac). fold fin in *.
  destruct (is_alnum cl (bval c) || is_wildcard (bval c) || is_escape (bval c)) eqn:C0.
  { (* a word *)
    apply fin_tok in H; [|exact P].
    destruct (lex_word_covered (S (S (List.length v'))) (c :: v') [] r _ t ltac:(apply asc_cons; split; assumption) ltac:(cbn; lia) H) as (d & Cv & D1 & St & T).
    destruct d.
    - exfalso. apply C. rewrite V. apply (wcover_mono _ _ _ Cv). cbn; lia.
    - rewrite (lex_word_cover (S (S (List.length v'))) (c :: v') [] r' _ ltac:(apply asc_cons; apply asc_app in A; tauto) (la_ascii _ _ L A') Cv (la_stopper _ _ L St)) by (cbn; rewrite app_length; lia).
      cbn [fin rev app]. rewrite T. reflexivity. }
  destruct (symbol (bval c)) as [ty|] eqn:Sy.
  { cbn [take_onto] in *. inversion H. subst t. cbn in V. inversion V; subst. reflexivity. }
  destruct (bval c =? 45)%N eqn:C45.
  { cbn [take_onto] in *.
    assert (Hw : forall rr, asc rr -> la_ok r rr \/ rr = r ->
              (match decode_rune (v' ++ rr) with Some (r2, _) => is_digit cl r2 | None => false end) =
              (match decode_rune (v' ++ r) with Some (r2, _) => is_digit cl r2 | None => false end) \/ v' = []).
    { intros rr _ _. destruct v' as [|e v'']; [right; reflexivity|left]. apply asc_app in A. destruct A as [Av _]. apply asc_cons in Av. destruct Av as [Ae _].
      cbn [app]. rewrite !(decode_ascii e _ Ae). reflexivity. }
    destruct (decode_rune (v' ++ r)) as [[r2 w2]|] eqn:D.
    - destruct (is_digit cl r2) eqn:Dg.
      + (* negative number: a word *)
        apply fin_tok in H; [|exact P].
        destruct (lex_word_covered (S (S (List.length v'))) (c :: v') [] r _ t ltac:(apply asc_cons; split; assumption) ltac:(cbn; lia) H) as (d & Cv & D1 & St & T).
        destruct v' as [|e v''].
        { (* the digit would be the first byte of r: r cannot be a stopper *)
          exfalso. cbn [app] in D. destruct r as [|e r0]; [discriminate|]. apply asc_cons in A. destruct A as [Ae _].
          rewrite (decode_ascii e _ Ae) in D. inversion D; subst. destruct St as [S1 _]. unfold wordb, is_alnum in S1. rewrite Dg in S1.
          rewrite !orb_true_r in S1. cbn in S1. discriminate. }
        apply asc_app in A. destruct A as [Av Ar]. pose proof Av as Av0. apply asc_cons in Av. destruct Av as [Ae Av].
        cbn [app] in D |- *. rewrite (decode_ascii e _ Ae) in D. inversion D; subst r2 w2. rewrite (decode_ascii e _ Ae), Dg.
        destruct d.
        * exfalso. apply C. rewrite V. apply (wcover_mono _ _ _ Cv). cbn; lia.
        * rewrite (lex_word_cover (S (S (List.length (e :: v'')))) (c :: e :: v'') [] r' _ ltac:(apply asc_cons; split; assumption) (la_ascii _ _ L A') Cv (la_stopper _ _ L St)) by (cbn; rewrite app_length; lia).
          cbn [fin rev app]. rewrite T. reflexivity.
      + (* a minus sign *)
        inversion H. subst t. cbn in V. inversion V; subst. cbn [app] in *.
        destruct r' as [|c' r'']; [reflexivity|]. apply asc_cons in A'. destruct A' as [Ac' _]. rewrite (decode_ascii c' _ Ac').
        destruct L as [W|[tl Er]].
        * rewrite (ws_not_digit c' W). reflexivity.
        * subst r. apply asc_cons in A. destruct A as [Ae _]. rewrite (decode_ascii c' _ Ae) in D. inversion D; subst. rewrite Dg. reflexivity.
    - inversion H. subst t. cbn in V. inversion V; subst. cbn [app] in *. destruct r as [|e r0]; [|apply asc_cons in A; destruct A as [Ae _]; rewrite (decode_ascii e _ Ae) in D; discriminate].
      destruct r' as [|c' r'']; [reflexivity|]. apply asc_cons in A'. destruct A' as [Ac' _]. rewrite (decode_ascii c' _ Ac').
      destruct L as [W|[tl Er]]; [rewrite (ws_not_digit c' W); reflexivity|discriminate]. }
  destruct ((bval c =? 34)%N || (bval c =? 39)%N) eqn:Cq.
  { cbn [take_onto] in *. apply fin_tok in H; [|exact P].
    destruct (lex_phrase_covered v' (bval c) [c] r _ t A H) as [Cv T].
    apply asc_app in A. destruct A as [Av _].
    rewrite (lex_phrase_cover v' (bval c) [c] r' _ Av Cv) by (cbn; rewrite app_length; lia).
    cbn [fin rev app]. rewrite T. reflexivity. }
  destruct (bval c =? 47)%N eqn:Cs.
  { cbn [take_onto] in *. apply fin_tok in H; [|exact P].
    destruct (lex_regexp_covered (S (List.length v')) v' (bval c) [c] r _ t A ltac:(lia) H) as [Cv T].
    apply asc_app in A. destruct A as [Av _].
    rewrite (lex_regexp_cover (S (List.length v')) v' (bval c) [c] r' _ Av Cv) by (cbn; rewrite app_length; lia).
    cbn [fin rev app]. rewrite T. reflexivity. }
  exfalso. inversion H. subst t. destruct P as [_ P2]. apply P2. reflexivity.
Qed.

(* ---------- the stream ---------- *)
Definition all_ws (w : bytes) : Prop := forallb ws_byte w = true.

Lemma skip_space_ws w s : all_ws w -> skip_space (w ++ s) = skip_space s.
Proof.
  unfold all_ws. induction w as [|c w IH]; intros H; [reflexivity|]. cbn [forallb] in H. apply andb_true_iff in H. destruct H as [Hc Hw].
  cbn [app skip_space]. unfold ws_byte in Hc. rewrite Hc. apply IH. exact Hw.
Qed.
Lemma next_token_ws w s : all_ws w -> next_token cl (w ++ s) = next_token cl s.
Proof. intros H. unfold next_token. rewrite (skip_space_ws w s H). reflexivity. Qed.
Lemma next_token_all_ws w : all_ws w -> next_token cl w = (eof_tok, []).
Proof. intros H. unfold next_token. rewrite <- (app_nil_r w), (skip_space_ws w [] H). reflexivity. Qed.
Lemma all_ws_asc w : all_ws w -> asc w.
Proof.
  unfold all_ws, asc. induction w as [|c w IH]; intros H; [reflexivity|]. cbn [forallb] in *. apply andb_true_iff in H. destruct H as [Hc Hw].
  rewrite (ws_ascii c Hc), (IH Hw). reflexivity.
Qed.

(* s' is s with the whitespace between (and around) its tokens changed: a separator may grow, shrink, change its bytes, or
   appear where there was none; an existing separator is never removed entirely. Anything may follow unchanged (wv_same),
   in particular the remainder behind a lexical error. *)
Inductive wsvar : bytes -> bytes -> Prop :=
| wv_same : forall r, wsvar r r
| wv_end : forall w w', all_ws w -> all_ws w' -> wsvar w w'
| wv_tok : forall w w' t r r', all_ws w -> all_ws w' -> (w <> [] -> w' <> []) ->
    next_token cl (val t ++ r) = (t, r) -> proper t -> clean t -> wsvar r r' ->
    wsvar (w ++ val t ++ r) (w' ++ val t ++ r').

Lemma proper_nonempty t r : next_token cl (val t ++ r) = (t, r) -> proper t -> val t <> [].
Proof.
  intros H P E. destruct (nt_skip _ _ _ H P) as [E1 L]. rewrite E in *. cbn [app] in *. rewrite <- E1 in L. lia.
Qed.

Lemma wsvar_la r r' : wsvar r r' -> la_ok r r'.
Proof.
  intros W. destruct W as [r | w w' Hw Hw' | w w' t r r' Hw Hw' Hn H P C W].
  - unfold la_ok. destruct r as [|c tl]; [exact I|]. right. exists tl. reflexivity.
  - unfold la_ok. destruct w' as [|c tl]; [exact I|]. left. unfold all_ws in Hw'. cbn [forallb] in Hw'. apply andb_true_iff in Hw'. tauto.
  - unfold la_ok. destruct w' as [|c tl].
    + assert (w = []) by (destruct w; [reflexivity|exfalso; apply Hn; [discriminate|reflexivity]]). subst w. cbn [app].
      pose proof (proper_nonempty t r H P) as Ne. destruct (val t) as [|c v']; [contradiction|]. cbn [app]. right. eexists. reflexivity.
    + cbn [app]. left. unfold all_ws in Hw'. cbn [forallb] in Hw'. apply andb_true_iff in Hw'. tauto.
Qed.

Lemma lex_all_proper f t rest s : next_token cl s = (t, rest) -> proper t -> lex_all cl (S f) s = t :: lex_all cl f rest.
Proof. intros H [P1 P2]. cbn [lex_all]. rewrite H. destruct (typ t); try reflexivity; exfalso; [apply P2|apply P1]; reflexivity. Qed.

Theorem lex_all_ws : forall s s', wsvar s s' -> asc s -> asc s' ->
  forall f f', List.length s < f -> List.length s' < f' -> lex_all cl f' s' = lex_all cl f s.
Proof.
  intros s s' W. induction W as [r | w w' Hw Hw' | w w' t r r' Hw Hw' Hn H P C W IH]; intros A A' f f' Hf Hf'.
  - apply lex_all_fuel; assumption.
  - destruct f as [|f]; [lia|]. destruct f' as [|f']; [lia|]. cbn [lex_all].
    rewrite (next_token_all_ws w Hw), (next_token_all_ws w' Hw'). reflexivity.
  - apply asc_app in A. destruct A as [_ A]. apply asc_app in A'. destruct A' as [_ A'].
    pose proof A as A0. pose proof A' as A0'. apply asc_app in A0. destruct A0 as [_ Ar]. apply asc_app in A0'. destruct A0' as [_ Ar'].
    destruct f as [|f]; [lia|]. destruct f' as [|f']; [lia|].
    pose proof (next_token_ctx t r r' A Ar' H P C (wsvar_la _ _ W)) as H'.
    rewrite (lex_all_proper f t r (w ++ val t ++ r)) by (try exact P; rewrite (next_token_ws w _ Hw); exact H).
    rewrite (lex_all_proper f' t r' (w' ++ val t ++ r')) by (try exact P; rewrite (next_token_ws w' _ Hw'); exact H').
    assert (Lv : 1 <= List.length (val t)) by (pose proof (proper_nonempty t r H P); destruct (val t); [contradiction|cbn; lia]).
    f_equal. apply IH; try assumption; rewrite !app_length in *; lia.
Qed.

(* C09, whitespace clause, ASCII inputs: the token streams are equal - so the parse results are *)
Theorem lex_ws s s' : wsvar s s' -> asc s -> asc s' -> lex cl s' = lex cl s.
Proof. intros W A A'. unfold lex. apply (lex_all_ws s s' W A A'); lia. Qed.

End W.

(* ---------- non-vacuity: a concrete variant pair under an ASCII classifier ---------- *)
Definition cl_ascii : classes :=
  {| is_letter := fun r => ((65 <=? r) && (r <=? 90) || (97 <=? r) && (r <=? 122))%N; is_digit := fun r => ((48 <=? r) && (r <=? 57))%N |}.
Lemma cl_ascii_ws : forall r, is_space r = true -> is_alnum cl_ascii r = false.
Proof.
  intros r H. unfold is_space in H.
  repeat match type of H with (_ || _ = true) => apply orb_true_iff in H; destruct H as [H|H] end; apply N.eqb_eq in H; subst; reflexivity.
Qed.
Definition b (s : string) : bytes := list_ascii_of_string s.
Example ws_variant_example :
  wsvar cl_ascii (b "a:b  AND -c") (b " a : b" ++ [ascii_of_nat 9] ++ b "AND" ++ [ascii_of_nat 10] ++ b "- c ").
Proof.
  assert (P : forall ty v, ty <> TEOF -> ty <> TErr -> proper {| typ := ty; val := v |}) by (intros; split; assumption).
  assert (C : forall ty v, wcover cl_ascii (S (S (List.length v))) v <> Some true -> clean cl_ascii {| typ := ty; val := v |}) by (intros; assumption).
  apply (wv_tok cl_ascii [] (b " ") {| typ := TLiteral; val := b "a" |} (b ":b  AND -c")); [reflexivity|reflexivity|congruence|reflexivity|apply P; discriminate|apply C; vm_compute; discriminate|].
  apply (wv_tok cl_ascii [] (b " ") {| typ := TColon; val := b ":" |} (b "b  AND -c")); [reflexivity|reflexivity|congruence|reflexivity|apply P; discriminate|apply C; vm_compute; discriminate|].
  apply (wv_tok cl_ascii [] (b " ") {| typ := TLiteral; val := b "b" |} (b "  AND -c")); [reflexivity|reflexivity|congruence|reflexivity|apply P; discriminate|apply C; vm_compute; discriminate|].
  apply (wv_tok cl_ascii (b "  ") [ascii_of_nat 9] {| typ := TAnd; val := b "AND" |} (b " -c")); [reflexivity|reflexivity|discriminate|reflexivity|apply P; discriminate|apply C; vm_compute; discriminate|].
  apply (wv_tok cl_ascii (b " ") [ascii_of_nat 10] {| typ := TMinus; val := b "-" |} (b "c")); [reflexivity|reflexivity|discriminate|reflexivity|apply P; discriminate|apply C; vm_compute; discriminate|].
  apply (wv_tok cl_ascii [] (b " ") {| typ := TLiteral; val := b "c" |} []); [reflexivity|reflexivity|congruence|reflexivity|apply P; discriminate|apply C; vm_compute; discriminate|].
  apply (wv_end cl_ascii [] (b " ")); reflexivity.
Qed.
Example ws_variant_same_tokens :
  lex cl_ascii (b " a : b" ++ [ascii_of_nat 9] ++ b "AND" ++ [ascii_of_nat 10] ++ b "- c ") = lex cl_ascii (b "a:b  AND -c").
Proof. apply (lex_ws cl_ascii cl_ascii_ws _ _ ws_variant_example); reflexivity. Qed.

(* ---------- tokens written one after the other with single blanks between them ---------- *)
Section S.
Variable cl : classes.
Hypothesis ws_not_alnum : forall r, is_space r = true -> is_alnum cl r = false.

Definition sp : ascii := " "%char.
Fixpoint spaced (ts : list token) : bytes := match ts with [] => [] | t :: r => val t ++ sp :: spaced r end.
(* a token that is what the lexer makes of its own text *)
Definition lexes_alone (t : token) : Prop :=
  next_token cl (val t) = (t, []) /\ proper t /\ clean cl t /\ asc (val t).

Lemma sp_ws : ws_byte sp = true. Proof. reflexivity. Qed.
Lemma asc_spaced ts : Forall lexes_alone ts -> asc (spaced ts).
Proof.
  induction 1 as [|t ts (_ & _ & _ & A) _ IH]; [reflexivity|]. cbn [spaced]. apply asc_app. split; [exact A|]. apply asc_cons. split; [reflexivity|exact IH].
Qed.

Theorem lex_spaced : forall ts, Forall lexes_alone ts -> forall f, List.length (spaced ts) < f -> lex_all cl f (spaced ts) = ts ++ [eof_tok].
Proof.
  induction 1 as [|t ts (N & P & C & A) Hts IH]; intros f Hf.
  - destruct f as [|f]; [cbn in Hf; lia|]. reflexivity.
  - destruct f as [|f]; [cbn in Hf; lia|]. cbn [spaced app] in *.
    assert (N' : next_token cl (val t ++ sp :: spaced ts) = (t, sp :: spaced ts)).
    { apply (next_token_ctx cl ws_not_alnum t [] (sp :: spaced ts)).
      - rewrite app_nil_r. exact A.
      - apply asc_cons. split; [reflexivity|apply asc_spaced; exact Hts].
      - rewrite app_nil_r. exact N.
      - exact P.
      - exact C.
      - left. reflexivity. }
    rewrite (lex_all_proper cl f t (sp :: spaced ts) _ N' P).
    destruct f as [|f]; [rewrite app_length in Hf; cbn in Hf; lia|].
    f_equal.
    (* the blank is skipped *)
    assert (E : lex_all cl (S f) (sp :: spaced ts) = lex_all cl (S f) (spaced ts)).
    { cbn [lex_all]. change (sp :: spaced ts) with ([sp] ++ spaced ts). rewrite (next_token_ws cl [sp] (spaced ts) eq_refl). reflexivity. }
    rewrite E. apply IH. rewrite app_length in Hf. cbn in Hf. lia.
Qed.

Corollary lex_spaced_text ts : Forall lexes_alone ts -> lex cl (spaced ts) = ts ++ [eof_tok].
Proof. intros H. unfold lex. apply lex_spaced; [exact H|lia]. Qed.
End S.
