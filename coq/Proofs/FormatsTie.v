(* renderfn.go, the one-line render functions: gentables translates every function whose body is one fmt.Sprintf of a constant
   format over left / right / op into Tables.fn_formats; here each translated format is shown to BE the function of the model
   (TablesTie.fn_of_id, which pg_fn_tie ties to the postgres table): the model's SQL templates are read from the Go source, not
   retyped. A function rewritten into another form is no longer translated (no entry: nothing to show, the correspondence check
   still compares its output); a format that changes breaks formats_tie. *)
Require Import Tables Parser Render TablesTie.
From Coq Require Import List String Ascii Bool.
Import ListNotations.
Open Scope string_scope.

(* fmt.Sprintf restricted to the verb %s, with a string per argument *)
Fixpoint fmt_s (f : string) (args : list string) : string :=
  match f with
  | String "%" (String "s" r) =>
      match args with
      | a :: t => match r with EmptyString => a | _ => a ++ fmt_s r t end
      | [] => "%!s(MISSING)" ++ fmt_s r []
      end
  | String c r => String c (fmt_s r args)
  | EmptyString => ""
  end.

Definition fn_name (id : renderfn_id) : string :=
  match id with
  | Fn_literal => "literal" | Fn_basicCompound _ => "basicCompound" | Fn_basicWrap _ => "basicWrap" | Fn_equals => "equals"
  | Fn_rang => "rang" | Fn_noop => "noop" | Fn_like => "like" | Fn_greater => "greater" | Fn_greaterEq => "greaterEq"
  | Fn_less => "less" | Fn_lessEq => "lessEq" | Fn_inFn => "inFn" | Fn_list => "list"
  end.
Definition fn_op (id : renderfn_id) : string :=
  match id with Fn_basicCompound op | Fn_basicWrap op => op_string op | _ => "" end.
Definition arg_val (l r op : string) (a : fmt_arg) : string := match a with A_left => l | A_right => r | A_op => op end.

Fixpoint assoc_fmt (k : string) (t : list (string * (string * list fmt_arg))) : option (string * list fmt_arg) :=
  match t with [] => None | (k', v) :: r => if String.eqb k k' then Some v else assoc_fmt k r end.

Theorem formats_tie : forall (o2 : oracle2) (id : renderfn_id) (l r : string),
  match assoc_fmt (fn_name id) fn_formats with
  | Some (f, args) => fn_of_id o2 id l r = Ret (fmt_s f (map (arg_val l r (fn_op id)) args), None)
  | None => True
  end.
Proof. intros o2 id l r. destruct id; cbn; try exact I; reflexivity. Qed.

(* how much is translated on this tree *)
Definition translated_fns : list string := map fst fn_formats.
