(* Scratch: C13 — a decoded tree that passes Validate satisfies the renderers' guard *)
Require Import Parser ParserShape Render RenderTotal RenderParamTotal RenderGuard Decode DecodeShape.
From Coq Require Import List Ascii String ZArith Bool Lia Arith.
Import ListNotations.

Lemma leaf_gok e : Shape.is_leaf e = true -> gok e = true.
Proof. destruct e as [l op r b f]. destruct op, l, r; cbn; try discriminate; reflexivity. Qed.

Lemma leaves_all (l : list expr) : forallb Shape.is_leaf l = true ->
  (fix all (l : list expr) : bool := match l with [] => true | x :: r => gok x && all r end) l = true.
Proof.
  induction l as [|x xs IH]; cbn [forallb]; auto. intros H. apply andb_true_iff in H. destruct H as [Hx Hxs].
  rewrite (leaf_gok x Hx), (IH Hxs). reflexivity.
Qed.

(* a node that Validate calls a literal expression and that the decoder built is leaf-built *)
Lemma literal_expr_leaf x : dsh x = true -> is_literal_expr (VExp x) = true -> Shape.is_leaf x = true.
Proof.
  destruct x as [l op r b f]. cbn [dsh is_literal_expr e_op e_left]. intros D L.
  apply andb_true_iff in L. destruct L as [Lo Ll].
  apply orb_true_iff in D. destruct D as [D|D]; [exact D|].
  destruct l; cbn in Ll; try discriminate; cbn in D; discriminate.
Qed.

Theorem dsh_validate_gok : forall n e, esize e <= n -> dsh e = true -> validate e = true -> gok e = true.
Proof.
  induction n as [|n IH]; intros e Hs D V; [destruct e; cbn in Hs; lia|].
  destruct (Shape.is_leaf e) eqn:Lf; [apply leaf_gok; exact Lf|].
  destruct e as [l op r bo fu]. cbn in Hs. cbn [dsh] in D. rewrite Lf in D. cbn [orb] in D.
  apply andb_true_iff in D. destruct D as [Dl Dr].
  cbn [validate] in V. apply andb_true_iff in V. destruct V as [Vn Vc]. apply andb_true_iff in Vc. destruct Vc as [Vl Vr].
  unfold validate_node in Vn. cbn [e_op e_left e_right] in Vn. apply andb_true_iff in Vn. destruct Vn as [NBo Vn].
  cbn [gok]. apply andb_true_iff. split; [apply andb_true_iff; split|].
  - (* the operator's own guard *)
    destruct op; try reflexivity.
    + (* Like *)
      destruct r as [| | | | | | x | |]; try (rewrite !andb_false_r in Vn; discriminate).
      apply andb_true_iff in Vn. destruct Vn as [_ Vx].
      cbn in Vr. destruct x as [xl xo xr xb xf]. cbn [e_op] in Vx. cbn in Hs.
      cbn [validate] in Vr. apply andb_true_iff in Vr. destruct Vr as [Vxn _].
      unfold validate_node in Vxn. cbn [e_op e_left e_right] in Vxn. apply andb_true_iff in Vxn. destruct Vxn as [_ Vxn].
      destruct xo; try discriminate; destruct xl, xr; cbn in Vxn, Dr |- *; try discriminate; try reflexivity.
    + (* Range *)
      destruct r as [| | | | | | | |mn mx incl]; try (rewrite !andb_false_r in Vn; discriminate).
      apply andb_true_iff in Vn. destruct Vn as [_ Vb].
      apply andb_true_iff in Vb. destruct Vb as [Vb Lmx]. apply andb_true_iff in Vb. destruct Vb as [_ Lmn].
      apply andb_true_iff in Dr. destruct Dr as [Dmn Dmx].
      destruct mn as [| | | | | | a | |]; try discriminate. destruct mx as [| | | | | | b | |]; try discriminate.
      rewrite (literal_expr_leaf a Dmn Lmn), (literal_expr_leaf b Dmx Lmx). reflexivity.
  - (* left operand *)
    destruct l as [| | | | | | a | xs |]; try discriminate.
    + cbn [gv]. apply (IH a); [cbn in Hs; lia|exact Dl|exact Vl].
    + cbn [gv]. apply leaves_all. exact Dl.
  - (* right operand *)
    destruct r as [| | | | | | c | |mn mx incl]; try discriminate; try reflexivity.
    + cbn [gv]. apply (IH c); [cbn in Hs; lia|exact Dr|exact Vr].
    + (* a boundary: under Range its ends are leaves (above); elsewhere Validate says nothing about them *)
      destruct op; try (cbn in NBo; rewrite andb_false_r in NBo; discriminate).
      apply andb_true_iff in Vn. destruct Vn as [_ Vb].
      apply andb_true_iff in Vb. destruct Vb as [Vb Lmx]. apply andb_true_iff in Vb. destruct Vb as [_ Lmn].
      apply andb_true_iff in Dr. destruct Dr as [Dmn Dmx].
      destruct mn as [| | | | | | a | |]; try discriminate. destruct mx as [| | | | | | b | |]; try discriminate.
      cbn [gv]. rewrite (leaf_gok a (literal_expr_leaf a Dmn Lmn)), (leaf_gok b (literal_expr_leaf b Dmx Lmx)). reflexivity.
Qed.

(* C13, second half, for the parameterized renderer: decode, Validate (which includes F14's check), then RenderParam returns *)
Theorem validated_render_param o o2 v e :
  decode o v = DOk e -> validate e = true -> is_ret (render_param o2 e).
Proof.
  intros D V. apply render_param_guard. exact (dsh_validate_gok (esize e) e (le_n _) (decode_dsh o v e D) V).
Qed.
Print Assumptions validated_render_param.
