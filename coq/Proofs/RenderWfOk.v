Require Import Parser ParserShape Render RenderTotal.
From Coq Require Import List Ascii String ZArith Bool Lia Arith.
Import ListNotations.

(* ---------- parser output has the shape the printers rely on ---------- *)
Lemma leaf_eok e : Shape.is_leaf e = true -> eok e = true.
Proof. destruct e as [l op r bo fu]. destruct op, l, r; cbn; try discriminate; auto. Qed.

Lemma plain_all lits : forallb is_plain lits = true ->
  (fix all (l : list expr) : bool := match l with [] => true | x :: r => eok x && all r end) lits = true.
Proof.
  induction lits as [|x xs IH]; cbn [forallb]; auto. intros H. apply andb_true_iff in H. destruct H as [Hx Hxs].
  rewrite (IH Hxs), andb_true_r. apply leaf_eok. destruct x as [l op r bo fu]. destruct op, l, r; cbn in Hx |- *; try discriminate; auto.
Qed.

Lemma wf_eok : forall n e s, esize e <= n -> wf s e = true -> eok e = true.
Proof.
  induction n as [|n IH]; intros e s Hs W; [destruct e; cbn in Hs; lia|].
  assert (IF : forall f, esize f <= n -> (if s then Shape.is_leaf f else wf s f) = true -> eok f = true).
  { intros f Hf H. destruct s; [apply leaf_eok; exact H|eapply IH; eauto]. }
  destruct e as [l op r bo fu]. cbn in Hs.
  destruct op; cbn [wf] in W; try discriminate;
    try (apply leaf_eok; exact W);
    destruct l as [| | | | | | a | |]; try discriminate.
  all: try (destruct r as [| | | | | | c | |]; try discriminate; cbn in Hs;
            repeat (match goal with H : _ && _ = true |- _ => apply andb_true_iff in H; destruct H end);
            cbn [eok vok]; rewrite ?andb_true_r; apply andb_true_iff; split; [first [apply IF; [lia|assumption] | eapply IH; [|eassumption]; lia]|];
            first [eapply IH; [|eassumption]; lia | apply leaf_eok; destruct c as [[] [] [] ? ?]; cbn in *; try discriminate; reflexivity | idtac]).
  all: try (destruct r; try discriminate; cbn in Hs; cbn [eok vok]; rewrite ?andb_true_r; eapply IH; [|eassumption]; lia).
  - (* Range *)
    destruct r as [| | | | | | | |mn mx incl]; try discriminate.
    destruct mn as [| | | | | | x1 | |]; try discriminate; destruct mx as [| | | | | | x2 | |]; try discriminate.
    cbn in Hs. cbn [eok vok]. rewrite ?andb_true_r.
    destruct s.
    + apply andb_true_iff in W; destruct W as [W W2]; apply andb_true_iff in W; destruct W as [Wa W1].
      rewrite (leaf_eok _ Wa), (leaf_eok _ W1), (leaf_eok _ W2). reflexivity.
    + apply andb_true_iff in W; destruct W as [W W2]; apply andb_true_iff in W; destruct W as [Wa W1].
      rewrite (IH a false), (IH x1 false), (IH x2 false); auto; lia.
  - (* In *)
    destruct r as [| | | | | | c | |]; try discriminate.
    destruct c as [cl co cr cb cf]. destruct cl as [| | | | | | |lits|]; try discriminate. destruct co; try discriminate. destruct cr; try discriminate.
    cbn in Hs. apply andb_true_iff in W. destruct W as [W Wp]. apply andb_true_iff in W. destruct W as [Wa _].
    cbn [eok vok]. rewrite (plain_all lits Wp), ?andb_true_r. apply IF; [lia|exact Wa].
Qed.
Print Assumptions wf_eok.


(* C01 clauses 3-4 on the printers, for every tree the parser can return *)
Theorem printers_total o2 e s b : wf s e = true -> is_ret (str_e o2 b e).
Proof. intros W. apply (proj1 (str_total o2 (esize e)) e b (le_n _)). exact (wf_eok _ e s (le_n _) W). Qed.
Theorem string_no_bad_verb o2 e b t : wf true e = true -> str_e o2 b e = Ret t -> bad t = false.
Proof. intros W E. exact (str_good o2 (esize e) e b (le_n _) W t E). Qed.
Print Assumptions printers_total.
Print Assumptions string_no_bad_verb.
