(* one call of Next() does not depend on what follows the token, for all byte strings *)
Require Import Lex LexProof LexFuel LexWs LexCtx.
From Coq Require Import List Ascii String NArith Bool Arith Lia.
Import ListNotations.

Section N.
Variable cl : classes.
Hypothesis ws_not_alnum : forall r, is_space r = true -> is_alnum cl r = false.

Definition nodigit (r : bytes) : Prop := match decode_rune r with Some (r2, _) => is_digit cl r2 = false | None => True end.
(* what the lexer looks at behind a token: whether the next rune can continue a word, and whether it is a digit (after a minus) *)
Definition look_ok (r r' : bytes) : Prop := (wstop cl r -> wstop cl r') /\ (nodigit r -> nodigit r').

Lemma lex_word_progress_w : forall f s acc t rest rn w,
  decode_rune s = Some (rn, w) ->
  (is_alnum cl rn || is_wildcard rn || (rn =? 46)%N || (rn =? 45)%N || is_escape rn) = true ->
  lex_word cl (S f) s acc = Tok t rest -> List.length rest + w <= List.length s.
Proof.
  intros f s acc t rest rn w D C H. cbn [lex_word] in H. rewrite D in H.
  pose proof (decode_width _ _ _ D) as Hw.
  destruct (is_alnum cl rn || is_wildcard rn || (rn =? 46)%N || (rn =? 45)%N) eqn:C1.
  - destruct (take_onto w s acc) as [s' acc'] eqn:T.
    pose proof (take_onto_spec _ _ _ _ _ T) as [_ L]. apply lex_word_spec in H. destruct H as [_ H]. lia.
  - cbn in C. rewrite C in H.
    destruct (take_onto w s acc) as [s1 acc1] eqn:T1.
    pose proof (take_onto_spec _ _ _ _ _ T1) as [_ L1].
    destruct (decode_rune s1) as [[r2 w2]|] eqn:D2.
    + destruct (take_onto w2 s1 acc1) as [s2 acc2] eqn:T2.
      pose proof (take_onto_spec _ _ _ _ _ T2) as [_ L2]. apply lex_word_spec in H. destruct H as [_ H]. lia.
    + apply lex_word_spec in H. destruct H as [_ H]. lia.
Qed.

Lemma lex_word_ctx_fuel : forall x r r' t, r <> [] ->
  lex_word cl (S (List.length (x ++ r))) (x ++ r) [] = Tok t r -> hd_ok r' -> (wstop cl r -> wstop cl r') ->
  lex_word cl (S (List.length (x ++ r'))) (x ++ r') [] = Tok t r'.
Proof.
  intros x r r' t Hr H Hh Hs.
  set (F := S (List.length (x ++ r) + List.length (x ++ r'))).
  rewrite (lex_word_fuel cl _ F) in H by (unfold F; lia). rewrite (lex_word_fuel cl _ F) by (unfold F; lia).
  apply (lex_word_ctx cl F x r r' [] t Hr H Hh Hs).
Qed.

Theorem next_token_ctx_g : forall t r r', r <> [] ->
  next_token cl (val t ++ r) = (t, r) -> proper t -> hd_ok r' -> look_ok r r' ->
  next_token cl (val t ++ r') = (t, r').
Proof.
  intros t r r' Hr H P Hh [Ls Ld].
  destruct (nt_skip cl ws_not_alnum _ _ _ H P) as [E Ln].
  destruct (val t) as [|c v'] eqn:V; [rewrite <- E in Ln; cbn in Ln; lia|].
  symmetry in E. cbn [app] in E. pose proof (skip_space_head _ _ E) as Wc.
  unfold next_token in *. cbv zeta in *. clear E Ln.
  change ((c :: v') ++ r) with (c :: v' ++ r) in H. change ((c :: v') ++ r') with (c :: v' ++ r').
  rewrite (skip_space_id c (v' ++ r) Wc) in H. rewrite (skip_space_id c (v' ++ r') Wc).
  change (c :: v' ++ r) with ((c :: v') ++ r) in H. change (c :: v' ++ r') with ((c :: v') ++ r').
  set (v := c :: v') in *. assert (Vne : v <> []) by discriminate. fold fin in *.
  destruct (decode_rune (v ++ r)) as [[rn w]|] eqn:D; [|apply decode_none in D; unfold v in D; discriminate].
  pose proof (decode_width _ _ _ D) as Hw. rewrite app_length in Hw.
  destruct (is_alnum cl rn || is_wildcard rn || is_escape rn) eqn:C0.
  { (* a word *)
    apply fin_tok in H; [|exact P].
    assert (Wx : w <= List.length v).
    { pose proof (lex_word_progress_w _ _ _ _ _ rn w D ltac:(apply orb_true_iff in C0; destruct C0 as [C0|C0]; [apply orb_true_iff in C0; destruct C0 as [C0|C0]|]; rewrite C0; rewrite ?orb_true_r; reflexivity) H) as L.
      rewrite app_length in L. lia. }
    rewrite (decode_ctx v r r' rn w D Wx Hh), C0. rewrite (lex_word_ctx_fuel v r r' t Hr H Hh Ls). reflexivity. }
  destruct (symbol rn) as [ty|] eqn:Sy.
  { destruct (take_onto w (v ++ r) []) as [s' acc] eqn:T. inversion H. subst s'.
    pose proof (take_onto_spec _ _ _ _ _ T) as [_ L]. rewrite app_length in L. assert (Wx : w <= List.length v) by lia.
    rewrite (decode_ctx v r r' rn w D Wx Hh), C0, Sy.
    rewrite (take_onto_app w v r [] Wx) in T. inversion T. rewrite (take_onto_app w v r' [] Wx).
    assert (E : skipn w v = []).
    { assert (L3 : List.length (skipn w v ++ r) = List.length r) by congruence. rewrite app_length in L3. destruct (skipn w v); [reflexivity|cbn in L3; lia]. }
    rewrite E. reflexivity. }
  destruct (rn =? 45)%N eqn:C45.
  { destruct (take_onto w (v ++ r) []) as [s' acc] eqn:T.
    pose proof (take_onto_spec _ _ _ _ _ T) as [_ L]. rewrite app_length in L.
    assert (Wword : lex_word cl (S (List.length (v ++ r))) (v ++ r) [] = Tok t r -> w <= List.length v).
    { intros Hwd. pose proof (lex_word_progress_w _ _ _ _ _ rn w D ltac:(rewrite C45; rewrite ?orb_true_r; reflexivity) Hwd) as L0. rewrite app_length in L0. lia. }
    destruct (decode_rune s') as [[r2 w2]|] eqn:D2.
    - destruct (is_digit cl r2) eqn:Dg.
      + (* a negative number: a word *)
        apply fin_tok in H; [|exact P]. pose proof (Wword H) as Wx.
        rewrite (take_onto_app w v r [] Wx) in T. inversion T; subst s' acc.
        rewrite (decode_ctx v r r' rn w D Wx Hh), C0, Sy, C45, (take_onto_app w v r' [] Wx).
        (* the digit lies inside the token *)
        assert (Wx2 : w2 <= List.length (skipn w v)).
        { set (F := S (List.length (v ++ r))) in *.
          assert (Hstep : lex_word cl F (v ++ r) [] = lex_word cl (List.length (v ++ r)) (skipn w v ++ r) (rev (firstn w v) ++ [])).
          { unfold F. cbn [lex_word]. rewrite D. replace (is_alnum cl rn || is_wildcard rn || (rn =? 46)%N || (rn =? 45)%N) with true by (rewrite C45; rewrite ?orb_true_r; reflexivity).
            rewrite (take_onto_app w v r [] Wx). reflexivity. }
          rewrite Hstep in H. destruct (List.length (v ++ r)) as [|f0] eqn:Lf; [discriminate|].
          pose proof (lex_word_progress_w _ _ _ _ _ r2 w2 D2 ltac:(unfold is_alnum; rewrite Dg; rewrite ?orb_true_r; reflexivity) H) as L0.
          rewrite app_length in L0. lia. }
        rewrite (decode_ctx _ r r' r2 w2 D2 Wx2 Hh), Dg. rewrite (lex_word_ctx_fuel v r r' t Hr H Hh Ls). reflexivity.
      + (* a minus sign *)
        inversion H. subst s'. assert (Wx : w <= List.length v) by lia.
        rewrite (take_onto_app w v r [] Wx) in T. inversion T.
        assert (E : skipn w v = []).
        { assert (L3 : List.length (skipn w v ++ r) = List.length r) by congruence. rewrite app_length in L3. destruct (skipn w v); [reflexivity|cbn in L3; lia]. }
        rewrite (decode_ctx v r r' rn w D Wx Hh), C0, Sy, C45, (take_onto_app w v r' [] Wx), E. cbn [app].
        assert (Nd : nodigit r') by (apply Ld; unfold nodigit; rewrite D2; exact Dg).
        unfold nodigit in Nd. destruct (decode_rune r') as [[r2' w2']|]; [rewrite Nd|]; reflexivity.
    - apply decode_none in D2. subst s'. inversion H. exfalso. apply Hr. congruence. }
  destruct ((rn =? 34)%N || (rn =? 39)%N) eqn:Cq.
  { destruct (take_onto w (v ++ r) []) as [s' acc] eqn:T.
    pose proof (take_onto_spec _ _ _ _ _ T) as [_ L]. rewrite app_length in L.
    apply fin_tok in H; [|exact P]. pose proof (lex_phrase_spec cl _ _ _ _ _ _ H) as [_ L2].
    assert (Wx : w <= List.length v) by lia.
    rewrite (take_onto_app w v r [] Wx) in T. inversion T; subst s' acc.
    rewrite (decode_ctx v r r' rn w D Wx Hh), C0, Sy, C45, Cq, (take_onto_app w v r' [] Wx).
    set (F := S (List.length (v ++ r) + List.length (v ++ r'))).
    rewrite (lex_phrase_fuel cl _ F) in H by (unfold F; rewrite !app_length, skipn_length; lia).
    rewrite (lex_phrase_fuel cl _ F) by (unfold F; rewrite !app_length, skipn_length; lia).
    rewrite (lex_phrase_ctx cl F rn _ r r' _ t H Hh). reflexivity. }
  destruct (rn =? 47)%N eqn:Cs.
  { destruct (take_onto w (v ++ r) []) as [s' acc] eqn:T.
    pose proof (take_onto_spec _ _ _ _ _ T) as [_ L]. rewrite app_length in L.
    apply fin_tok in H; [|exact P]. pose proof (lex_regexp_spec cl _ _ _ _ _ _ H) as [_ L2].
    assert (Wx : w <= List.length v) by lia.
    rewrite (take_onto_app w v r [] Wx) in T. inversion T; subst s' acc.
    rewrite (decode_ctx v r r' rn w D Wx Hh), C0, Sy, C45, Cq, Cs, (take_onto_app w v r' [] Wx).
    set (F := S (List.length (v ++ r) + List.length (v ++ r'))).
    rewrite (lex_regexp_fuel cl _ F) in H by (unfold F; rewrite !app_length, skipn_length; lia).
    rewrite (lex_regexp_fuel cl _ F) by (unfold F; rewrite !app_length, skipn_length; lia).
    rewrite (lex_regexp_ctx cl F rn _ r r' _ t H Hh). reflexivity. }
  exfalso. inversion H. subst t. destruct P as [_ P2]. apply P2. reflexivity.
Qed.
End N.
