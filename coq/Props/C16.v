(* C16 — The token stream is a lossless segmentation of the input. *)
Require Import Parser Api.
Require Lex.
Require Import ParserErrTok.
Require LexProof LexFuel.
From Coq Require Import List String.

(* for EVERY rune classification: each proper token's text, preceded only by skipped whitespace (space, tab, CR, LF), is the
   next piece of the input, and the rest is strictly shorter *)
Theorem C16_next_token_lossless : forall (cl : Lex.classes) (s : Lex.bytes) (t : Lex.token) (rest : Lex.bytes),
  Lex.next_token cl s = (t, rest) -> LexProof.proper t ->
  exists w, forallb LexProof.ws_byte w = true /\ s = (w ++ Lex.val t ++ rest)%list /\ List.length rest < List.length s.
Proof. exact LexProof.next_token_lossless. Qed.

(* the whole stream tiles the input up to its end or up to the first lexical error, and stops there *)
Theorem C16_stream_is_a_segmentation : forall (cl : Lex.classes) (fuel : nat) (s : Lex.bytes),
  LexProof.segments s (Lex.lex_all cl fuel s).
Proof. exact LexProof.lex_lossless. Qed.

(* finitely many tokens: |s|+1 calls of Next suffice, more fuel changes nothing *)
Theorem C16_finitely_many_tokens : forall (cl : Lex.classes) (s : Lex.bytes) (k : nat),
  Lex.lex cl s = Lex.lex_all cl (S (List.length s) + k) s.
Proof. exact LexFuel.lex_fuel_free. Qed.

(* a token list that ends in an error token (a rune that starts no token, an unterminated quote or regexp) never yields a tree *)
Theorem C16_lexical_error_rejects : forall (o : oracle) (df : string) (ts : list token),
  ends_in_err ts -> match parse_toks o df ts with PTree _ => False | _ => True end.
Proof. exact lex_error_rejects. Qed.

Print Assumptions C16_next_token_lossless.
Print Assumptions C16_stream_is_a_segmentation.
Print Assumptions C16_finitely_many_tokens.
Print Assumptions C16_lexical_error_rejects.
