package main

import (
	"encoding/json"
	"fmt"
	"sort"
	"strings"

	lucene "github.com/grindlemire/go-lucene"
	"github.com/grindlemire/go-lucene/pkg/driver"
	"github.com/grindlemire/go-lucene/pkg/lucene/expr"
)

// a small scanner producing the concrete syntax tree of a document json.Valid accepts; strings and keys keep
// their raw text (the library's heuristics search it) next to the decoded text, numbers their raw text.
type sc struct {
	b []byte
	i int
}

func (s *sc) ws() {
	for s.i < len(s.b) && (s.b[s.i] == ' ' || s.b[s.i] == '\t' || s.b[s.i] == '\n' || s.b[s.i] == '\r') {
		s.i++
	}
}

func (s *sc) str() (raw string, dec string) {
	st := s.i
	s.i++
	for s.b[s.i] != '"' {
		if s.b[s.i] == '\\' {
			s.i++
		}
		s.i++
	}
	s.i++
	raw = string(s.b[st:s.i])
	json.Unmarshal([]byte(raw), &dec)
	return
}

func (s *sc) val(out *strings.Builder) {
	s.ws()
	switch c := s.b[s.i]; {
	case c == 'n':
		s.i += 4
		out.WriteString("n ")
	case c == 't':
		s.i += 4
		out.WriteString("t ")
	case c == 'f':
		s.i += 5
		out.WriteString("f ")
	case c == '"':
		r, d := s.str()
		out.WriteString("s" + hx(r) + ":" + hx(d) + " ")
	case c == '[':
		s.i++
		out.WriteString("[ ")
		s.ws()
		for s.b[s.i] != ']' {
			s.val(out)
			s.ws()
			if s.b[s.i] == ',' {
				s.i++
			}
			s.ws()
		}
		s.i++
		out.WriteString("] ")
	case c == '{':
		s.i++
		out.WriteString("{ ")
		s.ws()
		for s.b[s.i] != '}' {
			s.ws()
			r, d := s.str()
			out.WriteString("k" + hx(r) + ":" + hx(d) + " ")
			s.ws()
			s.i++ // colon
			s.val(out)
			s.ws()
			if s.b[s.i] == ',' {
				s.i++
			}
			s.ws()
		}
		s.i++
		out.WriteString("} ")
	default:
		st := s.i
		for s.i < len(s.b) && strings.IndexByte("+-0123456789.eE", s.b[s.i]) >= 0 {
			s.i++
		}
		out.WriteString("#" + hx(string(s.b[st:s.i])) + " ")
	}
}

// J: decode an untrusted document, validate, and if it validates run every renderer on it
func observeJSON(doc string) []string {
	if !json.Valid([]byte(doc)) {
		// never reaches the library's code (json.Unmarshal checks validity first); still must not panic
		r := guard(func() string {
			var d expr.Expression
			if err := json.Unmarshal([]byte(doc), &d); err != nil {
				// the exported decoding method called directly, as a caller holding raw bytes may: a value or an error, no panic
				var d2 expr.Expression
				_ = d2.UnmarshalJSON([]byte(doc))
				return "ERR"
			}
			return "DECODED-INVALID-JSON"
		})
		return []string{"INVALID", r, "-", "-", "-", "-", "-", "-", "-", "-", "-"}
	}
	var cst strings.Builder
	(&sc{b: []byte(doc)}).val(&cst)
	var d *expr.Expression
	res := guard(func() string {
		var dec expr.Expression
		if err := json.Unmarshal([]byte(doc), &dec); err != nil {
			return "ERR"
		}
		d = &dec
		return showExpr(d)
	})
	out := []string{strings.TrimSpace(cst.String()), res}
	if d == nil {
		return append(out, "-", "-", "-", "-", "-", "-", "-", "-", "-")
	}
	valid := false
	out = append(out, guard(func() string {
		if expr.Validate(d) != nil {
			return "invalid"
		}
		valid = true
		return "ok"
	}))
	if !valid {
		return append(out, "-", "-", "-", "-", "-", "-", "-", "-")
	}
	out = append(out, renderAll(d)...)
	// the same through a driver built the way the README describes (a Base over a copy of Shared) and through zero values
	custom := map[expr.Operator]driver.RenderFN{}
	for op, fn := range driver.Shared {
		custom[op] = fn
	}
	for _, b := range []driver.Base{{RenderFNs: custom}, {}, driver.PostgresDriver{}.Base} {
		b := b
		out = append(out, guard(func() string {
			_, err := b.Render(d)
			_, _, err2 := b.RenderParam(d)
			return "ret" + errflag(err) + errflag(err2)
		}))
	}
	return out
}

// D: custom driver. Every operator gets a tracing render function; mapspec "rm=<op>,<op>;ov=<op>,..." removes the
// functions of some operators and replaces those of others by a differently spelled one.
func observeCustom(q, spec string) []string {
	var e *expr.Expression
	if strings.HasPrefix(q, "J:") {
		var d expr.Expression
		ok := guard(func() string {
			if json.Unmarshal([]byte(q[2:]), &d) != nil || expr.Validate(&d) != nil {
				return "no"
			}
			return "yes"
		})
		if ok != "yes" {
			return []string{"NOPARSE", "-"}
		}
		e = &d
	} else {
		var err error
		e, err = lucene.Parse(q)
		if err != nil || e == nil {
			return []string{"NOPARSE", "-"}
		}
	}
	rm, ov := parseSpec(spec)
	em := parseEmpty(spec)
	trace := []string{}
	fns := map[expr.Operator]driver.RenderFN{}
	for op := expr.Operator(0); int(op) <= int(expr.List); op++ {
		op := op
		if rm[int(op)] {
			continue
		}
		name := fmt.Sprintf("f%d", int(op))
		if ov[int(op)] {
			name = fmt.Sprintf("g%d", int(op))
		}
		fns[op] = func(l, r string) (string, error) {
			trace = append(trace, fmt.Sprintf("%d:%s:%s", int(op), hx(l), hx(r)))
			if em[int(op)] { // a function may return anything, the empty string included
				return "", nil
			}
			return name + "<" + l + "|" + r + ">", nil
		}
	}
	b := driver.Base{RenderFNs: fns}
	if strings.Contains(spec, "nil=1") { // the zero value of Base: no table at all, every node lacks a function
		b = driver.Base{}
	} else if strings.Contains(spec, "empty=1") {
		b = driver.Base{RenderFNs: map[expr.Operator]driver.RenderFN{}}
	}
	res := guard(func() string {
		s, err := b.Render(e)
		return "x" + hx(s) + errflag(err)
	})
	return []string{showExpr(e), res, strings.Join(trace, " "), driverIsolation(), customOperator()}
}

// expr.Operator is an open integer type and the function table a map over it: a program may register a function for an operator
// of its own. Render must call it like any other - once, with the rendered operands.
func customOperator() string {
	return guard(func() string {
		const mine = expr.Operator(100)
		calls := 0
		fns := map[expr.Operator]driver.RenderFN{}
		for op, fn := range driver.Shared {
			fns[op] = fn
		}
		fns[mine] = func(l, r string) (string, error) { calls++; return "mine<" + l + "|" + r + ">", nil }
		b := driver.Base{RenderFNs: fns}
		e := &expr.Expression{Left: expr.Lit(expr.Column("a")), Op: mine, Right: expr.Lit(5)}
		s, err := b.Render(e)
		if err != nil || calls != 1 || s != `mine<"a"|5>` {
			return fmt.Sprintf("CUSTOM-OPERATOR:render=%q err=%v calls=%d", s, err, calls)
		}
		calls = 0
		s2, ps, err2 := b.RenderParam(e)
		if err2 != nil || calls != 1 || !strings.HasPrefix(s2, "mine<") || len(ps) != 1 {
			return fmt.Sprintf("CUSTOM-OPERATOR:renderparam=%q params=%v err=%v calls=%d", s2, ps, err2, calls)
		}
		return "ok"
	})
}

// two drivers must not share state: editing one postgres driver's function table (registering a function for FUZZY,
// removing the one for MUST) must change neither another postgres driver, nor the package-level one behind ToPostgres,
// nor driver.Shared. Whatever the outcome, the edit is undone so that later cases start from the same state.
func driverIsolation() string {
	return guard(func() string {
		d := driver.NewPostgresDriver()
		savedMust, hadMust := d.RenderFNs[expr.Must]
		_, hadFuzzy := d.RenderFNs[expr.Fuzzy]
		d.RenderFNs[expr.Fuzzy] = func(l, r string) (string, error) { return "similar(" + l + ")", nil }
		delete(d.RenderFNs, expr.Must)
		res := "ok"
		if _, found := driver.Shared[expr.Fuzzy]; found {
			res = "LEAK:driver.Shared-sees-the-edit"
		}
		if _, err := lucene.ToPostgres("a:b~"); err == nil {
			res = "LEAK:ToPostgres-renders-fuzzy-after-another-driver-was-edited"
		}
		if _, err := lucene.ToPostgres("+a:b"); err != nil {
			res = "LEAK:ToPostgres-lost-MUST-after-another-driver-was-edited"
		}
		other := driver.NewPostgresDriver()
		if _, found := other.RenderFNs[expr.Fuzzy]; found {
			res = "LEAK:a-new-postgres-driver-sees-the-edit"
		}
		if !hadFuzzy {
			delete(d.RenderFNs, expr.Fuzzy)
		}
		if hadMust {
			d.RenderFNs[expr.Must] = savedMust
		}
		return res
	})
}

func parseEmpty(spec string) map[int]bool {
	em := map[int]bool{}
	for _, part := range strings.Split(spec, ";") {
		kv := strings.SplitN(part, "=", 2)
		if len(kv) == 2 && kv[0] == "em" && kv[1] != "" {
			for _, n := range strings.Split(kv[1], ",") {
				var k int
				fmt.Sscan(n, &k)
				em[k] = true
			}
		}
	}
	return em
}

func parseSpec(spec string) (rm, ov map[int]bool) {
	rm, ov = map[int]bool{}, map[int]bool{}
	for _, part := range strings.Split(spec, ";") {
		kv := strings.SplitN(part, "=", 2)
		if len(kv) != 2 || kv[1] == "" {
			continue
		}
		for _, n := range strings.Split(kv[1], ",") {
			var k int
			fmt.Sscan(n, &k)
			if kv[0] == "rm" {
				rm[k] = true
			} else if kv[0] == "ov" {
				ov[k] = true
			}
		}
	}
	return
}

func sortedKeys(m map[string]int) []string {
	ks := []string{}
	for k := range m {
		ks = append(ks, k)
	}
	sort.Strings(ks)
	return ks
}
