(* lex.go: peek() is next() followed by backup(), and backup() steps back by the width utf8.DecodeLastRuneInString reports for the
   consumed prefix. The model (Model/Lex.v) has no backup: it simply does not consume. This file models DecodeLastRuneInString as
   the Go source has it (the last byte if ASCII; otherwise scan back at most three bytes for a byte that is not a continuation
   byte, decode forward from there, accept only if that rune ends exactly at the end) and proves that it undoes the decoder for
   every step that consumed an ASCII byte or a valid multi-byte sequence, whatever precedes and follows it: the position after
   next(); backup() is the position before. (For a step that consumed one INVALID byte the width is 1 on both sides as well, but
   that needs the alignment of the prefix; it is exercised by the lexer scripts on invalid UTF-8, not proved.) *)
Require Import Lex LexProof LexCtx.
Require LexWs.
From Coq Require Import List Ascii String NArith Bool Arith Lia.
Import ListNotations.

Definition rune_start (c : ascii) : bool := negb (cont (bval c)).

(* rs = the prefix reversed (last byte first); result k: the forward decoding starts k bytes before the last byte *)
Definition scan_back (rs : bytes) : nat :=
  match rs with
  | [] | [_] => 0
  | _ :: b1 :: t1 =>
    if rune_start b1 then 1 else
    match t1 with
    | [] => 1
    | b2 :: t2 =>
      if rune_start b2 then 2 else
      match t2 with
      | [] => 2
      | b3 :: t3 => if rune_start b3 then 3 else match t3 with [] => 3 | _ :: _ => 4 end
      end
    end
  end.

Definition lastn (n : nat) (s : bytes) : bytes := rev (firstn n (rev s)).

(* utf8.DecodeLastRuneInString: (rune, size) *)
Definition decode_last (s : bytes) : N * nat :=
  match rev s with
  | [] => (rune_error, 0)
  | c :: _ =>
    if (bval c <? 128)%N then (bval c, 1)
    else
      let k := scan_back (rev s) in
      match decode_rune (lastn (S k) s) with
      | Some (r, size) => if Nat.eqb size (S k) then (r, size) else (rune_error, 1)
      | None => (rune_error, 1)
      end
  end.

Lemma lastn_app a x : lastn (List.length x) (a ++ x) = x.
Proof. unfold lastn. rewrite rev_app_distr, firstn_app, rev_length, Nat.sub_diag. cbn [firstn]. rewrite app_nil_r, <- rev_length, firstn_all, rev_involutive. reflexivity. Qed.

(* a step of the decoder that consumed x = an ASCII byte or a valid multi-byte sequence: its first byte starts a rune, the others continue it *)
Definition valid_step (x : bytes) : Prop :=
  match x with
  | [c] => (bval c <? 128)%N = true
  | [c0; c1] => rune_start c0 = true /\ (bval c0 <? 128)%N = false /\ cont (bval c1) = true
  | [c0; c1; c2] => rune_start c0 = true /\ (bval c0 <? 128)%N = false /\ cont (bval c1) = true /\ cont (bval c2) = true
  | [c0; c1; c2; c3] => rune_start c0 = true /\ (bval c0 <? 128)%N = false /\ cont (bval c1) = true /\ cont (bval c2) = true /\ cont (bval c3) = true
  | _ => False
  end.

Lemma cont_ge c : cont (bval c) = true -> (bval c <? 128)%N = false.
Proof. unfold cont, in_range. intros H. apply andb_true_iff in H. destruct H as [H _]. apply N.leb_le in H. apply N.ltb_ge. exact H. Qed.

(* every multi-byte result of the decoder is such a step *)
Lemma decode_valid_step x r rn w : decode_rune (x ++ r) = Some (rn, w) -> List.length x = w -> 2 <= w -> valid_step x.
Proof.
  intros D L W. destruct x as [|c0 x]; [cbn in L; lia|]. cbn [app] in D. rewrite decode_shape in D. cbv zeta in D.
  destruct (bval c0 <? 128)%N eqn:A; [inversion D; subst; lia|].
  assert (S0 : forall lo hi, (194 <= lo)%N -> in_range lo hi (bval c0) = true -> rune_start c0 = true).
  { intros lo hi Hlo H. unfold rune_start, cont, in_range in *. apply andb_true_iff in H. destruct H as [H1 _]. apply N.leb_le in H1.
    apply negb_true_iff. apply andb_false_iff. right. apply N.leb_gt. lia. }
  destruct (in_range 194 223 (bval c0)) eqn:R2.
  { destruct (okb cont (nb (x ++ r))) eqn:O; [|inversion D; subst; lia]. injection D as Ern Ew. destruct x as [|c1 [|? ?]]; try (cbn in L; lia).
    cbn [app nb okb] in O. cbn [valid_step]. repeat split; try assumption. apply (S0 194%N 223%N); [lia|exact R2]. }
  destruct (in_range 224 239 (bval c0)) eqn:R3.
  { destruct (okb (ok3 (bval c0)) (nb (x ++ r)) && okb cont (nb (tl (x ++ r)))) eqn:O; [|inversion D; subst; lia]. injection D as Ern Ew.
    destruct x as [|c1 [|c2 [|? ?]]]; try (cbn in L; lia). cbn [app nb tl okb] in O. apply andb_true_iff in O. destruct O as [O1 O2].
    cbn [valid_step]. repeat split; try assumption; [apply (S0 224%N 239%N); [lia|exact R3]|apply (ok3_cont _ _ O1)]. }
  destruct (in_range 240 244 (bval c0)) eqn:R4; [|inversion D; subst; lia].
  destruct (okb (ok4 (bval c0)) (nb (x ++ r)) && okb cont (nb (tl (x ++ r))) && okb cont (nb (tl (tl (x ++ r))))) eqn:O; [|inversion D; subst; lia]. injection D as Ern Ew.
  destruct x as [|c1 [|c2 [|c3 [|? ?]]]]; try (cbn in L; lia). cbn [app nb tl okb] in O. apply andb_true_iff in O. destruct O as [O12 O3]. apply andb_true_iff in O12. destruct O12 as [O1 O2].
  cbn [valid_step]. repeat split; try assumption; [apply (S0 240%N 244%N); [lia|exact R4]|apply (ok4_cont _ _ O1)].
Qed.

Lemma start_not_cont c : rune_start c = true -> cont (bval c) = false. Proof. unfold rune_start. apply negb_true_iff. Qed.
Lemma cont_not_start c : cont (bval c) = true -> rune_start c = false. Proof. unfold rune_start. intros H. rewrite H. reflexivity. Qed.

(* the backward scan finds the first byte of a valid multi-byte step *)
Lemma scan_back_step a x : valid_step x -> 2 <= List.length x -> scan_back (rev (a ++ x)) = List.length x - 1.
Proof.
  intros V L. rewrite rev_app_distr.
  destruct x as [|c0 [|c1 [|c2 [|c3 [|? ?]]]]]; cbn in L; try lia; try contradiction; cbn [valid_step] in V.
  - destruct V as (S0 & _ & C1). cbn [rev app]. cbn [scan_back]. rewrite S0. reflexivity.
  - destruct V as (S0 & _ & C1 & C2). cbn [rev app]. cbn [scan_back]. rewrite (cont_not_start _ C1), S0. reflexivity.
  - destruct V as (S0 & _ & C1 & C2 & C3). cbn [rev app]. cbn [scan_back]. rewrite (cont_not_start _ C2), (cont_not_start _ C1), S0. reflexivity.
Qed.

(* backup undoes next, for every step that consumed an ASCII byte or a valid sequence: the rune and its width are those next() saw *)
Theorem decode_last_undoes_decode : forall a x r rn w,
  decode_rune (x ++ r) = Some (rn, w) -> List.length x = w ->
  (2 <= w \/ match x with [c] => (bval c <? 128)%N = true | _ => False end) -> decode_last (a ++ x) = (rn, w).
Proof.
  intros a x r rn w D L [W|A].
  - pose proof (decode_valid_step x r rn w D L W) as V.
    unfold decode_last. destruct (rev (a ++ x)) as [|c t] eqn:R.
    { apply (f_equal (@List.length ascii)) in R. rewrite rev_length, app_length in R. cbn in R. lia. }
    assert (Hc : (bval c <? 128)%N = false).
    { rewrite rev_app_distr in R. destruct x as [|c0 [|c1 [|c2 [|c3 [|? ?]]]]]; cbn in L; try lia; cbn [valid_step] in V; cbn [rev app] in R; inversion R;
        try contradiction; apply cont_ge; repeat match goal with H : _ /\ _ |- _ => destruct H end; congruence. }
    rewrite Hc, <- R, (scan_back_step a x V ltac:(lia)).
    replace (S (List.length x - 1)) with (List.length x) by lia. rewrite lastn_app.
    rewrite <- (app_nil_r x) at 1. rewrite (decode_ctx x r [] rn w D ltac:(lia) I). rewrite L, Nat.eqb_refl. reflexivity.
  - (* an ASCII byte *)
    destruct x as [|c0 [|? ?]]; try contradiction. cbn [app] in D. rewrite (LexWs.decode_ascii c0 r A) in D. injection D as Ern Ew. subst rn w.
    unfold decode_last. rewrite rev_app_distr. cbn [rev app]. rewrite A. reflexivity.
Qed.

(* the lexer's position: after next() the position is |a ++ x|; backup() subtracts the width reported for the prefix *)
Corollary backup_restores_position a x r rn w :
  decode_rune (x ++ r) = Some (rn, w) -> List.length x = w ->
  (2 <= w \/ match x with [c] => (bval c <? 128)%N = true | _ => False end) ->
  List.length (a ++ x) - snd (decode_last (a ++ x)) = List.length a.
Proof. intros D L V. rewrite (decode_last_undoes_decode a x r rn w D L V). cbn [snd]. rewrite app_length. lia. Qed.

Example decode_last_examples :
  decode_last (LexWs.b "a" ++ [ascii_of_nat 226; ascii_of_nat 130; ascii_of_nat 172]) = (8364%N, 3) /\          (* a€ *)
  decode_last (LexWs.b "caf" ++ [ascii_of_nat 195; ascii_of_nat 169]) = (233%N, 2) /\                              (* café *)
  decode_last (LexWs.b "x" ++ [ascii_of_nat 240; ascii_of_nat 159; ascii_of_nat 152; ascii_of_nat 128]) = (128512%N, 4) /\   (* x😀 *)
  decode_last (LexWs.b "q:") = (58%N, 1) /\
  decode_last (LexWs.b "a" ++ [ascii_of_nat 226; ascii_of_nat 130]) = (rune_error, 1) /\                          (* a truncated sequence: one byte back *)
  decode_last [ascii_of_nat 195; ascii_of_nat 169; ascii_of_nat 169] = (rune_error, 1).                           (* a stray continuation byte *)
Proof. vm_compute. repeat split; reflexivity. Qed.
