(* Scratch: C13 — the decoder never panics, and every decoded tree has the decoded shape `dsh` *)
Require Import Parser ParserShape Render Decode.
Require Export DecodedShape.
From Coq Require Import List Ascii String ZArith Bool Lia.
Import ListNotations.

Section D.
Variable o : Parser.oracle.

(* ---------- no panic ---------- *)
Definition np (r : dres) : Prop := forall s, r <> DPanic s.
Definition npv (r : option value + string) : Prop := forall s, r <> inr s.

Lemma unmarshal_literal_np v : np (unmarshal_literal o v).
Proof.
  intros s. unfold unmarshal_literal. destruct (atoi (jraw v)); [discriminate|].
  destruct (parse_float o (jraw v)); [discriminate|]. destruct v; discriminate.
Qed.

Lemma lift_np um x : np (um x) -> npv (lift um x).
Proof. intros H s. unfold lift. destruct (um x) eqn:E; try discriminate. exfalso. exact (H s0 eq_refl). Qed.

Lemma left_list_np : forall xs acc, npv (left_list o xs acc).
Proof.
  induction xs as [|x xs IH]; intros acc s; cbn [left_list]; [discriminate|].
  pose proof (unmarshal_literal_np x) as H. destruct (unmarshal_literal o x) eqn:E; try discriminate.
  - apply IH.
  - exfalso. exact (H s0 eq_refl).
Qed.

Lemma dec_bound_np um vs : (forall x, np (um x)) -> npv (dec_bound um vs).
Proof.
  intros H. unfold dec_bound. assert (G : forall vs acc, npv acc -> npv (fold_left (bound_step um) vs acc)).
  { induction vs0 as [|x xs IH]; intros acc Ha; cbn [fold_left]; [exact Ha|]. apply IH.
    unfold bound_step. destruct acc as [[v|]|s]; try exact Ha. destruct x; try discriminate; apply lift_np; apply H. }
  apply G. discriminate.
Qed.

Lemma um_obj_np um l : (forall x, np (um x)) -> np (um_obj o um l).
Proof.
  intros H s. unfold um_obj.
  destruct (dec_string _); [|discriminate]. destruct (dec_int _); [|discriminate]. destruct (dec_float _ _); [|discriminate].
  destruct (dec_boundaries_ok _); [|discriminate].
  assert (L : npv (dec_left o um (dec_raw (bindings "left" l)))).
  { unfold dec_left. destruct (dec_raw (bindings "left" l)) as [[]|]; try discriminate; try (apply lift_np; apply H). apply left_list_np. }
  destruct (dec_left o um _) as [[lv|]|sl] eqn:EL; [|discriminate|exfalso; exact (L sl eq_refl)].
  assert (R : npv (dec_right um (dec_raw (bindings "right" l)))).
  { unfold dec_right. destruct (dec_raw (bindings "right" l)) as [r|]; [|discriminate].
    destruct (looks_like_boundary r); [|apply lift_np; apply H].
    destruct r; try discriminate.
    pose proof (dec_bound_np um (bindings "min" l0) H) as B1. pose proof (dec_bound_np um (bindings "max" l0) H) as B2.
    destruct (dec_bound um (bindings "min" l0)) as [[mn|]|s1]; [| |exfalso; exact (B1 s1 eq_refl)];
    destruct (dec_bound um (bindings "max" l0)) as [[mx|]|s2]; try (exfalso; exact (B2 s2 eq_refl));
    try destruct (dec_bool (bindings "inclusive" l0)); discriminate. }
  destruct (dec_right um _) as [[rv|]|sr] eqn:ER; [discriminate|discriminate|exfalso; exact (R sr eq_refl)].
Qed.

Theorem unmarshal_no_panic : forall fuel v, np (unmarshal o fuel v).
Proof.
  induction fuel as [|f IH]; intros v; cbn [unmarshal]; [discriminate|].
  destruct v; try apply unmarshal_literal_np. apply um_obj_np. exact IH.
Qed.
Theorem decode_no_panic v s : decode o v <> DPanic s.
Proof. apply unmarshal_no_panic. Qed.
(* ---------- decoded shape ---------- *)
Lemma dsh_node l op r b f : dshv l = true -> dshr r = true -> dsh (E l op r b f) = true.
Proof. intros Hl Hr. cbn [dsh]. unfold dshv, dshr in *. rewrite Hl, Hr. apply orb_true_r. Qed.
Lemma leaf_dsh e : Shape.is_leaf e = true -> dsh e = true.
Proof. intros H. destruct e. cbn [dsh]. rewrite H. reflexivity. Qed.

Definition sh (r : dres) : Prop := forall e, r = DOk e -> dsh e = true.

Lemma literal_to_expr_leaf s : Shape.is_leaf (literal_to_expr (VStr s)) = true.
Proof. unfold literal_to_expr. destruct (_ && _); [reflexivity|]. destruct (_ || _); reflexivity. Qed.

Lemma unmarshal_literal_leaf v e : unmarshal_literal o v = DOk e -> Shape.is_leaf e = true.
Proof.
  unfold unmarshal_literal. destruct (atoi (jraw v)); [intros H; inversion H; reflexivity|].
  destruct (parse_float o (jraw v)); [intros H; inversion H; reflexivity|].
  destruct v; try discriminate; intros H; inversion H; first [apply literal_to_expr_leaf | reflexivity].
Qed.

Lemma left_list_sh : forall xs acc v, forallb Shape.is_leaf acc = true -> left_list o xs acc = inl (Some v) -> dshv v = true.
Proof.
  induction xs as [|x xs IH]; intros acc v Ha H; cbn [left_list] in H.
  - inversion H; subst. cbn [dshv]. rewrite forallb_forall in *. intros y Hy. apply Ha. apply in_rev. exact Hy.
  - destruct (unmarshal_literal o x) eqn:E; try discriminate. apply (IH (e :: acc) v); [|exact H].
    cbn [forallb]. rewrite (unmarshal_literal_leaf _ _ E). exact Ha.
Qed.

Lemma lift_exp um x v : sh (um x) -> lift um x = inl (Some v) -> exists e, v = VExp e /\ dsh e = true.
Proof. intros H. unfold lift. destruct (um x) eqn:E; try discriminate. intros G; inversion G; subst. exists e. split; [reflexivity|exact (H e eq_refl)]. Qed.
Lemma lift_sh um x v : sh (um x) -> lift um x = inl (Some v) -> dshv v = true /\ dshr v = true.
Proof. intros H G. destruct (lift_exp um x v H G) as [e [-> D]]. cbn. auto. Qed.

Lemma wrap_col_sh v : is_stringlike v = true -> dshv v = true -> dshv (wrap_in_column v) = true.
Proof.
  destruct v; cbn; try discriminate. intros _ H. destruct (e_left e); try exact H; reflexivity.
Qed.

Lemma dec_bound_sh um vs v : (forall x, sh (um x)) -> dec_bound um vs = inl (Some v) ->
  match v with VNil => true | VExp x => dsh x | _ => false end = true.
Proof.
  intros H. unfold dec_bound.
  assert (G : forall vs acc, (forall w, acc = inl (Some w) -> match w with VNil => true | VExp x => dsh x | _ => false end = true) ->
            forall w, fold_left (bound_step um) vs acc = inl (Some w) -> match w with VNil => true | VExp x => dsh x | _ => false end = true).
  { induction vs0 as [|x xs IH]; intros acc Ha w; cbn [fold_left]; [apply Ha|]. apply IH.
    intros w'. unfold bound_step. destruct acc as [[a|]|s]; try discriminate.
    destruct x; try (intros E; inversion E; reflexivity); intros E; destruct (lift_exp um _ _ (H _) E) as [e0 [-> D]]; exact D. }
  apply G. intros w E. inversion E. reflexivity.
Qed.

Lemma um_obj_sh um l : (forall x, sh (um x)) -> sh (um_obj o um l).
Proof.
  intros H e. unfold um_obj.
  destruct (dec_string _); [|discriminate]. destruct (dec_int _); [|discriminate]. destruct (dec_float _ _); [|discriminate].
  destruct (dec_boundaries_ok _); [|discriminate].
  destruct (dec_left o um (dec_raw (bindings "left" l))) as [[lv|]|sl] eqn:EL; try discriminate.
  assert (Lv : dshv lv = true).
  { unfold dec_left in EL. destruct (dec_raw (bindings "left" l)) as [x|]; [|discriminate].
    destruct x; try (exact (proj1 (lift_sh um _ _ (H _) EL))). exact (left_list_sh _ [] _ eq_refl EL). }
  destruct (dec_right um (dec_raw (bindings "right" l))) as [[rv|]|sr] eqn:ER; try discriminate.
  assert (Rv : dshr rv = true).
  { unfold dec_right in ER. destruct (dec_raw (bindings "right" l)) as [r|]; [|inversion ER; reflexivity].
    destruct (looks_like_boundary r); [|exact (proj2 (lift_sh um _ _ (H _) ER))].
    destruct r; try discriminate.
    destruct (dec_bound um (bindings "min" l0)) as [[mn|]|s1] eqn:B1; try discriminate;
    destruct (dec_bound um (bindings "max" l0)) as [[mx|]|s2] eqn:B2; try discriminate;
    destruct (dec_bool (bindings "inclusive" l0)); try discriminate.
    inversion ER; subst. cbn [dshr]. rewrite (dec_bound_sh um _ _ H B1), (dec_bound_sh um _ _ H B2). reflexivity. }
  intros E. inversion E; subst. apply dsh_node; [|exact Rv].
  destruct (is_stringlike lv) eqn:SL; cbn [andb]; [|exact Lv]. destruct (operates_on_column (op_of_string s)); [apply wrap_col_sh; assumption|exact Lv].
Qed.

Theorem unmarshal_dsh : forall fuel v, sh (unmarshal o fuel v).
Proof.
  induction fuel as [|f IH]; intros v e; cbn [unmarshal]; [discriminate|].
  destruct v; try (intros E; apply leaf_dsh; exact (unmarshal_literal_leaf _ _ E)). apply um_obj_sh. exact IH.
Qed.
Theorem decode_dsh v e : decode o v = DOk e -> dsh e = true.
Proof. apply unmarshal_dsh. Qed.
End D.
Print Assumptions decode_no_panic.
Print Assumptions decode_dsh.
