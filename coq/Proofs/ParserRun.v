(* Bridge between the step-indexed statements (steps k c = Accept e) and the fuelled run of parse_toks: the fuel 4n+4 always
   suffices (ParserTotal), so an accepting step sequence determines the result of parse_toks. *)
Require Import Parser ParserShape ParserLay ParserTotal ParserRoundTrip.
From Coq Require Import List String ZArith Bool Lia Arith.
Import ListNotations.

Section R.
Variable o : oracle.

Lemma run_steps : forall k fuel c e, steps o k c = Accept e ->
  match run o fuel ""%string c with POutOfFuel => True | r => r = PTree e end.
Proof.
  induction k as [|k IH]; intros fuel c e H; [discriminate|].
  destruct fuel as [|f]; [exact I|]. cbn [steps] in H. cbn [run].
  destruct (step o ""%string c) as [c'| e' | |] eqn:S; try discriminate.
  - apply IH. exact H.
  - inversion H. reflexivity.
Qed.

Theorem accepted_steps_parse ts e k : steps o k (mk [] [start] ts) = Accept e ->
  parse_toks o ""%string ts = if validate e then PTree e else PErr.
Proof.
  intros H. unfold parse_toks.
  pose proof (run_steps k (4 * List.length ts + 4) _ e H) as R.
  pose proof (run_total o ""%string (4 * List.length ts + 4) (mk [] [start] ts)) as T.
  unfold mk in *.
  destruct (run o (4 * Datatypes.length ts + 4) "" {| rs := []; ns := [start]; toks := ts; pend := None |}) eqn:E.
  - inversion R. reflexivity.
  - discriminate.
  - discriminate.
  - exfalso. apply T; [reflexivity | cbn; lia].
Qed.

End R.
