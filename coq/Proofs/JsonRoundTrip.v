(* C12: decode (syntax tree of the encoder's output) = the tree, for every tree of the parser's output shape whose leaves have
   the kind the decoder infers from their text (kinds_inferable). Spec/Cst.v gives the syntax tree of the encoder's output
   (compared with the implementation's bytes on every case by the driver). *)
Require Import Parser ParserShape Render RenderNum Decode DecodeLeaf DecodeFuel TablesTie Shape Cst.
From Coq Require Import List Ascii String ZArith Bool Lia Arith.
Import ListNotations.
Open Scope string_scope.

Section RT.
Variable o : Parser.oracle.
Variable o2 : oracle2.

(* facts about encoding/json and strconv (oracle): a JSON string's raw text starts with a double quote; ParseFloat rejects such a text *)
Hypothesis str_raw_quote : forall s, exists r, json_str o2 s = String """"%char r.
Hypothesis parse_float_quote : forall r, parse_float o (String """"%char r) = None.
(* the textual heuristic looksLikeRangeBoundary classifies the encoder's own output correctly (checked per case by the correspondence) *)
Hypothesis lb_spec : forall v, looks_like_boundary (cst_v o2 v) = is_bound v.

(* a float the encoder can write and the decoder reads back as the same float (not as an integer) *)
Definition float_ok (f : Z) : Prop :=
  exists t, json_num o2 f = Some t /\ atoi t = None /\ parse_float o t = Some f /\ is_nan_or_inf o f = false.
(* a boost power: decoded with ParseFloat only (never as an integer) *)
Definition power_ok (f : Z) : Prop :=
  exists t, json_num o2 f = Some t /\ parse_float o t = Some f /\ is_nan_or_inf o f = false.
Definition int_ok (z : Z) : Prop := (-9223372036854775808 <= z <= 9223372036854775807)%Z.

(* ---------- leaves ---------- *)
Lemma um_str f s : unmarshal o (S f) (jstr o2 s) = DOk (literal_to_expr (VStr s)).
Proof. unfold jstr. destruct (str_raw_quote s) as [r ->]. cbn [unmarshal]. apply (leaf_string_decodes o parse_float_quote). Qed.
Lemma um_int f z : int_ok z -> unmarshal o (S f) (JNum (z_to_string z)) = DOk (lit (VInt z)).
Proof. intros H. cbn [unmarshal]. apply leaf_int_roundtrip. exact H. Qed.
Lemma um_float f x : float_ok x -> unmarshal o (S f) (jnum o2 x) = DOk (lit (VFloat x)).
Proof.
  intros (t & J & A & P & N). unfold jnum. rewrite J. cbn [unmarshal]. unfold unmarshal_literal. cbn [jraw]. rewrite A, P. reflexivity.
Qed.

(* ---------- the members of an operator node ---------- *)
Definition members (L O : jv) (R D P : list (string * string * jv)) : list (string * string * jv) :=
  ([member "left" L; member "operator" O] ++ R ++ D ++ P)%list.

Definition optR (r : value) : list (string * string * jv) := match r with VNil => [] | _ => [member "right" (cst_v o2 r)] end.
Definition optD (fz : Z) : list (string * string * jv) := if (fz =? 1)%Z then [] else [member "distance" (JNum (z_to_string fz))].
Definition optP (b : Z) : list (string * string * jv) := if (b =? one_bits)%Z then [] else [member "power" (jnum o2 b)].

Lemma cst_node l op r b fz : Render.is_leaf op = false ->
  cst_e o2 (E l op r b fz) = JObj (members (cst_v o2 l) (JStr ("""" ++ op_string op ++ """") (op_string op)) (optR r) (optD fz) (optP b)).
Proof. intros H. cbn [cst_e]. rewrite H. reflexivity. Qed.

Lemma bindings_members L O r fz b :
  bindings "left" (members L O (optR r) (optD fz) (optP b)) = [L] /\
  bindings "operator" (members L O (optR r) (optD fz) (optP b)) = [O] /\
  bindings "right" (members L O (optR r) (optD fz) (optP b)) = match r with VNil => [] | _ => [cst_v o2 r] end /\
  bindings "distance" (members L O (optR r) (optD fz) (optP b)) = (if (fz =? 1)%Z then [] else [JNum (z_to_string fz)]) /\
  bindings "power" (members L O (optR r) (optD fz) (optP b)) = (if (b =? one_bits)%Z then [] else [jnum o2 b]) /\
  bindings "boundaries" (members L O (optR r) (optD fz) (optP b)) = [].
Proof.
  unfold members, optR, optD, optP.
  destruct (fz =? 1)%Z, (b =? one_bits)%Z; destruct r; repeat split; reflexivity.
Qed.

Lemma op_of_string_op op : op <> Undefined -> op_of_string (op_string op) = op.
Proof. intros H. rewrite op_of_string_tie, (from_string_tie op H). reflexivity. Qed.

Definition colfix (op : operator) (lv : value) : value :=
  if is_stringlike lv && operates_on_column op then wrap_in_column lv else lv.

(* what the decoder does with an operator node, once its two operands are decoded *)
Lemma um_node f l op r b fz lv rv :
  Render.is_leaf op = false -> op <> Undefined ->
  (match op with Fuzzy => int_ok fz | _ => fz = 1%Z end) ->
  (match op with Boost => b = one_bits \/ power_ok b | _ => b = one_bits end) ->
  dec_left o (unmarshal o f) (Some (cst_v o2 l)) = inl (Some lv) ->
  dec_right (unmarshal o f) (match r with VNil => None | _ => Some (cst_v o2 r) end) = inl (Some rv) ->
  unmarshal o (S f) (cst_e o2 (E l op r b fz)) = DOk (E (colfix op lv) op rv b fz).
Proof.
  intros Hl Hu Hfz Hb DL DR. rewrite (cst_node l op r b fz Hl). cbn [unmarshal]. unfold um_obj.
  destruct (bindings_members (cst_v o2 l) (JStr ("""" ++ op_string op ++ """") (op_string op)) r fz b) as (B1 & B2 & B3 & B4 & B5 & B6).
  rewrite B1, B2, B3, B4, B5, B6.
  change (dec_string [JStr ("""" ++ op_string op ++ """") (op_string op)]) with (Some (op_string op)).
  change (dec_boundaries_ok []) with true.
  assert (DI : dec_int (if (fz =? 1)%Z then [] else [JNum (z_to_string fz)]) =
               Some (if (fz =? 1)%Z then None else match op with Fuzzy => Some fz | _ => None end) \/ (fz =? 1)%Z = true).
  { destruct (fz =? 1)%Z eqn:E; [right; reflexivity|left]. destruct op; try (apply Z.eqb_neq in E; contradiction).
    unfold dec_int, fold_field. cbn [fold_left]. rewrite (atoi_itoa fz Hfz). reflexivity. }
  assert (DIv : exists dist, dec_int (if (fz =? 1)%Z then [] else [JNum (z_to_string fz)]) = Some dist /\
                (match op with Fuzzy => match dist with Some d => d | None => 1%Z end | _ => 1%Z end) = fz).
  { destruct (fz =? 1)%Z eqn:E.
    - exists None. split; [reflexivity|]. apply Z.eqb_eq in E. destruct op; congruence.
    - destruct op; try (apply Z.eqb_neq in E; contradiction). exists (Some fz). split; [|reflexivity].
      unfold dec_int, fold_field. cbn [fold_left]. rewrite (atoi_itoa fz Hfz). reflexivity. }
  clear DI. destruct DIv as (dist & DI & Efz). rewrite DI.
  assert (DPv : exists pw, dec_float o (if (b =? one_bits)%Z then [] else [jnum o2 b]) = Some pw /\
                (match op with Boost => match pw with Some p => p | None => one_bits end | _ => one_bits end) = b).
  { destruct (b =? one_bits)%Z eqn:E.
    - exists None. split; [reflexivity|]. apply Z.eqb_eq in E. destruct op; congruence.
    - destruct op; try (apply Z.eqb_neq in E; contradiction). destruct Hb as [Hb|(t & J & Pf & N)]; [apply Z.eqb_neq in E; contradiction|].
      exists (Some b). split; [|reflexivity]. unfold dec_float, fold_field, jnum. rewrite J. cbn [fold_left]. rewrite Pf, N. reflexivity. }
  destruct DPv as (pw & DP & Ebp). rewrite DP.
  rewrite (op_of_string_op op Hu).
  change (dec_raw [cst_v o2 l]) with (Some (cst_v o2 l)). rewrite DL.
  assert (ER : dec_raw (match r with VNil => [] | _ => [cst_v o2 r] end) = match r with VNil => None | _ => Some (cst_v o2 r) end) by (destruct r; reflexivity).
  rewrite ER, DR. unfold colfix. rewrite Efz, Ebp. reflexivity.
Qed.

(* ---------- sizes (fuel) ---------- *)
Lemma jsize_in ms k v : In (k, v) ms -> jsize v < jsize (JObj ms).
Proof.
  cbn [jsize]. induction ms as [|[[a b'] x] ms IH]; intros H; [contradiction|]. cbn [fold_right].
  destruct H as [H|H]; [inversion H; subst; lia|]. specialize (IH H). lia.
Qed.
Lemma jsize_in_arr l v : In v l -> jsize v < jsize (JArr l).
Proof.
  cbn [jsize]. induction l as [|x l IH]; intros H; [contradiction|]. cbn [fold_right].
  destruct H as [H|H]; [subst; lia|]. specialize (IH H). lia.
Qed.

(* ---------- leaves whose kind the decoder infers from their text ---------- *)
Definition leaf_rt (e : expr) : Prop :=
  (exists s, e_left e = VStr s /\ literal_to_expr (VStr s) = e) \/
  (exists z, e = lit (VInt z) /\ int_ok z) \/
  (exists x, e = lit (VFloat x) /\ float_ok x).

Lemma leaf_rt_op e : leaf_rt e -> Render.is_leaf (e_op e) = true.
Proof.
  intros [(s & L & E)|[(z & -> & _)|(x & -> & _)]]; try reflexivity.
  rewrite <- E. unfold literal_to_expr.
  destruct ((2 <=? String.length s)%nat && _); [reflexivity|]. destruct (contains_char "*"%char s || contains_char "?"%char s); reflexivity.
Qed.

Lemma um_leaf f e : leaf_rt e -> unmarshal o (S f) (cst_e o2 e) = DOk e.
Proof.
  intros H. pose proof (leaf_rt_op e H) as Hop. destruct e as [l op r b fz]. cbn [e_op] in Hop. cbn [cst_e]. rewrite Hop.
  destruct H as [(s & L & E)|[(z & E & Iz)|(x & E & Fx)]].
  - cbn [e_left] in L. subst l. cbn [cst_v]. rewrite um_str. rewrite E. reflexivity.
  - inversion E; subst. cbn [cst_v]. apply um_int. exact Iz.
  - inversion E; subst. cbn [cst_v]. apply um_float. exact Fx.
Qed.

(* the field of a column operator: a column (decoded as a string, re-typed by the parent), or a number *)
Definition field_rt (e : expr) : Prop :=
  (exists c, e = lit (VCol c)) \/ (exists z, e = lit (VInt z) /\ int_ok z) \/ (exists x, e = lit (VFloat x) /\ float_ok x).

Lemma um_field f op e : field_rt e -> operates_on_column op = true ->
  exists lv, unmarshal o (S f) (cst_e o2 e) = DOk lv /\ colfix op (VExp lv) = VExp e.
Proof.
  intros [(c & ->)|[(z & -> & Iz)|(x & -> & Fx)]] Hc.
  - exists (literal_to_expr (VStr c)). split; [cbn [cst_e cst_v lit empty_e Render.is_leaf]; apply um_str|].
    unfold colfix. rewrite Hc.
    assert (S1 : is_stringlike (VExp (literal_to_expr (VStr c))) = true /\ wrap_in_column (VExp (literal_to_expr (VStr c))) = VExp (lit (VCol c))).
    { unfold literal_to_expr. destruct ((2 <=? String.length c)%nat && _); [split; reflexivity|].
      destruct (contains_char "*"%char c || contains_char "?"%char c); split; reflexivity. }
    destruct S1 as [-> ->]. reflexivity.
  - exists (lit (VInt z)). split; [cbn [cst_e cst_v lit empty_e Render.is_leaf]; apply um_int; exact Iz|reflexivity].
  - exists (lit (VFloat x)). split; [cbn [cst_e cst_v lit empty_e Render.is_leaf]; apply um_float; exact Fx|reflexivity].
Qed.

(* ---------- trees whose leaves have the kind the decoder infers (and that have the parser's output shape) ---------- *)
Fixpoint ki (e : expr) {struct e} : Prop :=
  match e with
  | E l op r b fz =>
    match op with
    | Literal | Wild | Regexp => leaf_rt e
    | And | Or => match l, r with VExp a, VExp c => ki a /\ ki c /\ b = one_bits /\ fz = 1%Z | _, _ => False end
    | Not | Must | MustNot => match l, r with VExp a, VNil => ki a /\ b = one_bits /\ fz = 1%Z | _, _ => False end
    | Boost => match l, r with VExp a, VNil => ki a /\ (b = one_bits \/ power_ok b) /\ fz = 1%Z | _, _ => False end
    | Fuzzy => match l, r with VExp a, VNil => ki a /\ b = one_bits /\ int_ok fz | _, _ => False end
    | Equals | Like | Greater | Less | GreaterEq | LessEq =>
        match l, r with VExp f, VExp v => field_rt f /\ ki v /\ b = one_bits /\ fz = 1%Z | _, _ => False end
    | Tables.In =>
        match l, r with
        | VExp f, VExp (E (VList lits) Tables.List VNil b' fz') =>
            field_rt f /\ Forall leaf_rt lits /\ b = one_bits /\ fz = 1%Z /\ b' = one_bits /\ fz' = 1%Z
        | _, _ => False end
    | Range =>
        match l, r with
        | VExp f, VBound (VExp x) (VExp y) _ => field_rt f /\ leaf_rt x /\ leaf_rt y /\ b = one_bits /\ fz = 1%Z
        | _, _ => False end
    | Undefined | Tables.List => False
    end
  end.

Lemma left_list_rt : forall lits acc, Forall leaf_rt lits ->
  left_list o ((fix each (l : list expr) : list jv := match l with [] => [] | x :: rest => cst_e o2 x :: each rest end) lits) acc = inl (Some (VList (rev acc ++ lits))).
Proof.
  induction lits as [|x xs IH]; intros acc H; cbn [left_list].
  - rewrite app_nil_r. reflexivity.
  - inversion H as [|? ? Hx Hxs]; subst.
    pose proof (um_leaf 0 x Hx) as U. cbn [unmarshal] in U.
    assert (Ul : unmarshal_literal o (cst_e o2 x) = DOk x).
    { pose proof (leaf_rt_op x Hx) as Hop. destruct x as [l op r b fz]. cbn [e_op] in Hop. cbn [cst_e] in *. rewrite Hop in *.
      destruct l; cbn [cst_v] in *; try exact U;
        destruct Hx as [(s0 & L & E)|[(z0 & E & _)|(x0 & E & _)]]; try (cbn in L; discriminate); try discriminate. }
    rewrite Ul. rewrite (IH (x :: acc) Hxs). cbn [rev]. rewrite <- app_assoc. reflexivity.
Qed.

Lemma member_in_right L O r D P : r <> VNil -> In (key "right", cst_v o2 r) (members L O (optR r) D P).
Proof. intros H. unfold members, optR. destruct r; try contradiction; right; right; left; reflexivity. Qed.

Lemma dec_left_lift um x : (forall l, x <> JArr l) -> dec_left o um (Some x) = lift um x.
Proof. intros H. destruct x; try reflexivity. exfalso. apply (H l). reflexivity. Qed.

Lemma leaf_not_arr e : leaf_rt e -> forall l, cst_e o2 e <> JArr l.
Proof.
  intros H l0. pose proof (leaf_rt_op e H) as Hop. destruct e as [l op r b fz]. cbn [e_op] in Hop. cbn [cst_e]. rewrite Hop.
  destruct H as [(s & L & _)|[(z & E & _)|(x & E & _)]].
  - cbn in L. subst l. discriminate.
  - inversion E; subst. discriminate.
  - inversion E; subst. unfold cst_v, jnum. discriminate.
Qed.
Lemma field_not_arr e : field_rt e -> forall l, cst_e o2 e <> JArr l.
Proof. intros [(c & ->)|[(z & -> & _)|(x & -> & _)]] l0; cbn; unfold jstr, jnum; discriminate. Qed.
Lemma ki_not_arr e : ki e -> forall l, cst_e o2 e <> JArr l.
Proof.
  intros K l0. destruct e as [l op r b fz]. destruct op; cbn [ki] in K; try contradiction;
    try (apply (leaf_not_arr _ K)); cbn [cst_e Render.is_leaf]; discriminate.
Qed.

Lemma lift_ok um x e : um x = DOk e -> lift um x = inl (Some (VExp e)).
Proof. intros H. unfold lift. rewrite H. reflexivity. Qed.

(* right operand that is an expression *)
Lemma dec_right_exp um c e : um (cst_e o2 c) = DOk e -> dec_right um (Some (cst_v o2 (VExp c))) = inl (Some (VExp e)).
Proof. intros H. unfold dec_right. rewrite (lb_spec (VExp c)). cbn [is_bound]. change (cst_v o2 (VExp c)) with (cst_e o2 c). apply lift_ok. exact H. Qed.

Theorem unmarshal_roundtrip : forall n e, esize e <= n -> ki e -> forall fuel, jsize (cst_e o2 e) < fuel -> unmarshal o fuel (cst_e o2 e) = DOk e.
Proof.
  induction n as [|n IH]; intros e Hs K fuel Hf; [destruct e; cbn in Hs; lia|].
  destruct fuel as [|f]; [lia|].
  destruct e as [l op r b fz]. cbn in Hs.
  (* the children are decoded with fuel f: enough for every member of the node *)
  assert (Fuel : forall k v, Render.is_leaf op = false -> In (k, v) (members (cst_v o2 l) (JStr ("""" ++ op_string op ++ """") (op_string op)) (optR r) (optD fz) (optP b)) -> jsize v < f).
  { intros k v Hl Hin. rewrite (cst_node l op r b fz Hl) in Hf. pose proof (jsize_in _ k v Hin). lia. }
  assert (FL : Render.is_leaf op = false -> jsize (cst_v o2 l) < f) by (intros Hl; apply (Fuel (key "left") _ Hl); left; reflexivity).
  assert (FR : Render.is_leaf op = false -> r <> VNil -> jsize (cst_v o2 r) < f) by (intros Hl Hr; apply (Fuel (key "right") _ Hl); apply member_in_right; exact Hr).
  (* generic steps *)
  assert (Sub : forall a, esize a < S n -> ki a -> jsize (cst_e o2 a) < f -> unmarshal o f (cst_e o2 a) = DOk a)
    by (intros a Ha Ka Hj; apply (IH a ltac:(lia) Ka f Hj)).
  assert (Fld : forall a op', field_rt a -> operates_on_column op' = true -> jsize (cst_e o2 a) < f ->
            exists lv, dec_left o (unmarshal o f) (Some (cst_v o2 (VExp a))) = inl (Some (VExp lv)) /\ colfix op' (VExp lv) = VExp a).
  { intros a op' Fa Hc Hj. destruct f as [|f']; [lia|]. destruct (um_field f' op' a Fa Hc) as (lv & U & Cf).
    exists lv. split; [|exact Cf]. change (cst_v o2 (VExp a)) with (cst_e o2 a). rewrite (dec_left_lift _ _ (field_not_arr a Fa)). apply lift_ok. exact U. }
  assert (NoCol : forall op' lv, operates_on_column op' = false -> colfix op' lv = lv) by (intros op' lv H; unfold colfix; rewrite H, andb_false_r; reflexivity).
  destruct op; cbn [ki] in K; try contradiction; try (apply um_leaf; exact K).
  - (* And *) destruct l as [| | | | | | a | |]; try contradiction. destruct r as [| | | | | | c | |]; try contradiction. destruct K as (Ka & Kc & -> & ->). cbn in Hs.
    rewrite (um_node f (VExp a) And (VExp c) one_bits 1 (VExp a) (VExp c)); try reflexivity; try discriminate.
    + rewrite NoCol; reflexivity.
    + change (cst_v o2 (VExp a)) with (cst_e o2 a). rewrite (dec_left_lift _ _ (ki_not_arr a Ka)). apply lift_ok. apply Sub; [lia|exact Ka|apply (FL eq_refl)].
    + apply dec_right_exp. apply Sub; [lia|exact Kc|apply (FR eq_refl); discriminate].
  - (* Or *) destruct l as [| | | | | | a | |]; try contradiction. destruct r as [| | | | | | c | |]; try contradiction. destruct K as (Ka & Kc & -> & ->). cbn in Hs.
    rewrite (um_node f (VExp a) Or (VExp c) one_bits 1 (VExp a) (VExp c)); try reflexivity; try discriminate.
    + rewrite NoCol; reflexivity.
    + change (cst_v o2 (VExp a)) with (cst_e o2 a). rewrite (dec_left_lift _ _ (ki_not_arr a Ka)). apply lift_ok. apply Sub; [lia|exact Ka|apply (FL eq_refl)].
    + apply dec_right_exp. apply Sub; [lia|exact Kc|apply (FR eq_refl); discriminate].
  - (* Equals *) destruct l as [| | | | | | a | |]; try contradiction. destruct r as [| | | | | | c | |]; try contradiction. destruct K as (Fa & Kc & -> & ->). cbn in Hs.
    destruct (Fld a Equals Fa eq_refl (FL eq_refl)) as (lv & DL & Cf).
    rewrite (um_node f (VExp a) Equals (VExp c) one_bits 1 (VExp lv) (VExp c)); try reflexivity; try discriminate.
    + rewrite Cf. reflexivity.
    + exact DL.
    + apply dec_right_exp. apply Sub; [lia|exact Kc|apply (FR eq_refl); discriminate].
  - (* Like *) destruct l as [| | | | | | a | |]; try contradiction. destruct r as [| | | | | | c | |]; try contradiction. destruct K as (Fa & Kc & -> & ->). cbn in Hs.
    destruct (Fld a Like Fa eq_refl (FL eq_refl)) as (lv & DL & Cf).
    rewrite (um_node f (VExp a) Like (VExp c) one_bits 1 (VExp lv) (VExp c)); try reflexivity; try discriminate.
    + rewrite Cf. reflexivity.
    + exact DL.
    + apply dec_right_exp. apply Sub; [lia|exact Kc|apply (FR eq_refl); discriminate].
  - (* Not *) destruct l as [| | | | | | a | |]; try contradiction. destruct r; try contradiction. destruct K as (Ka & -> & ->). cbn in Hs.
    rewrite (um_node f (VExp a) Not VNil one_bits 1 (VExp a) VNil); try reflexivity; try discriminate.
    + rewrite NoCol; reflexivity.
    + change (cst_v o2 (VExp a)) with (cst_e o2 a). rewrite (dec_left_lift _ _ (ki_not_arr a Ka)). apply lift_ok. apply Sub; [lia|exact Ka|apply (FL eq_refl)].
  - (* Range *) destruct l as [| | | | | | a | |]; try contradiction. destruct r as [| | | | | | | |mn mx incl]; try contradiction.
    destruct mn as [| | | | | | x | |]; try contradiction. destruct mx as [| | | | | | y | |]; try contradiction.
    destruct K as (Fa & Kx & Ky & -> & ->). cbn in Hs.
    destruct (Fld a Range Fa eq_refl (FL eq_refl)) as (lv & DL & Cf).
    rewrite (um_node f (VExp a) Range (VBound (VExp x) (VExp y) incl) one_bits 1 (VExp lv) (VBound (VExp x) (VExp y) incl)); try reflexivity; try discriminate.
    + rewrite Cf. reflexivity.
    + exact DL.
    + unfold dec_right. rewrite (lb_spec (VBound (VExp x) (VExp y) incl)). cbn [is_bound].
      assert (FB : jsize (cst_v o2 (VBound (VExp x) (VExp y) incl)) < f) by (apply (FR eq_refl); discriminate).
      change (cst_v o2 (VBound (VExp x) (VExp y) incl)) with (JObj [member "min" (cst_e o2 x); member "max" (cst_e o2 y); member "inclusive" (jbool incl)]) in *.
      assert (Fx : jsize (cst_e o2 x) < f).
      { pose proof (jsize_in [member "min" (cst_e o2 x); member "max" (cst_e o2 y); member "inclusive" (jbool incl)] (key "min") (cst_e o2 x) ltac:(left; reflexivity)). lia. }
      assert (Fy : jsize (cst_e o2 y) < f).
      { pose proof (jsize_in [member "min" (cst_e o2 x); member "max" (cst_e o2 y); member "inclusive" (jbool incl)] (key "max") (cst_e o2 y) ltac:(right; left; reflexivity)). lia. }
      destruct f as [|f']; [lia|].
      change (bindings "min" [member "min" (cst_e o2 x); member "max" (cst_e o2 y); member "inclusive" (jbool incl)]) with [cst_e o2 x].
      change (bindings "max" [member "min" (cst_e o2 x); member "max" (cst_e o2 y); member "inclusive" (jbool incl)]) with [cst_e o2 y].
      change (bindings "inclusive" [member "min" (cst_e o2 x); member "max" (cst_e o2 y); member "inclusive" (jbool incl)]) with [jbool incl].
      unfold dec_bound. cbn [fold_left bound_step].
      assert (Nx : forall um, (match cst_e o2 x with JNull => @inl (option value) string (Some VNil) | _ => lift um (cst_e o2 x) end) = lift um (cst_e o2 x)).
      { intros um. pose proof (leaf_rt_op x Kx) as Hop. destruct x as [xl xop xr xb xf]. cbn [e_op] in Hop. cbn [cst_e]. rewrite Hop.
        destruct Kx as [(s & L & _)|[(z & E & _)|(q & E & _)]]; [cbn in L; subst xl; reflexivity|inversion E; subst; reflexivity|inversion E; subst; reflexivity]. }
      assert (Ny : forall um, (match cst_e o2 y with JNull => @inl (option value) string (Some VNil) | _ => lift um (cst_e o2 y) end) = lift um (cst_e o2 y)).
      { intros um. pose proof (leaf_rt_op y Ky) as Hop. destruct y as [xl xop xr xb xf]. cbn [e_op] in Hop. cbn [cst_e]. rewrite Hop.
        destruct Ky as [(s & L & _)|[(z & E & _)|(q & E & _)]]; [cbn in L; subst xl; reflexivity|inversion E; subst; reflexivity|inversion E; subst; reflexivity]. }
      rewrite Nx, Ny. rewrite (lift_ok _ _ x (um_leaf f' x Kx)), (lift_ok _ _ y (um_leaf f' y Ky)).
      destruct incl; reflexivity.
  - (* Must *) destruct l as [| | | | | | a | |]; try contradiction. destruct r; try contradiction. destruct K as (Ka & -> & ->). cbn in Hs.
    rewrite (um_node f (VExp a) Must VNil one_bits 1 (VExp a) VNil); try reflexivity; try discriminate.
    + rewrite NoCol; reflexivity.
    + change (cst_v o2 (VExp a)) with (cst_e o2 a). rewrite (dec_left_lift _ _ (ki_not_arr a Ka)). apply lift_ok. apply Sub; [lia|exact Ka|apply (FL eq_refl)].
  - (* MustNot *) destruct l as [| | | | | | a | |]; try contradiction. destruct r; try contradiction. destruct K as (Ka & -> & ->). cbn in Hs.
    rewrite (um_node f (VExp a) MustNot VNil one_bits 1 (VExp a) VNil); try reflexivity; try discriminate.
    + rewrite NoCol; reflexivity.
    + change (cst_v o2 (VExp a)) with (cst_e o2 a). rewrite (dec_left_lift _ _ (ki_not_arr a Ka)). apply lift_ok. apply Sub; [lia|exact Ka|apply (FL eq_refl)].
  - (* Boost *) destruct l as [| | | | | | a | |]; try contradiction. destruct r; try contradiction. destruct K as (Ka & Hb & ->). cbn in Hs.
    rewrite (um_node f (VExp a) Boost VNil b 1 (VExp a) VNil); try reflexivity; try discriminate; try exact Hb.
    + rewrite NoCol; reflexivity.
    + change (cst_v o2 (VExp a)) with (cst_e o2 a). rewrite (dec_left_lift _ _ (ki_not_arr a Ka)). apply lift_ok. apply Sub; [lia|exact Ka|apply (FL eq_refl)].
  - (* Fuzzy *) destruct l as [| | | | | | a | |]; try contradiction. destruct r; try contradiction. destruct K as (Ka & -> & Hz). cbn in Hs.
    rewrite (um_node f (VExp a) Fuzzy VNil one_bits fz (VExp a) VNil); try reflexivity; try discriminate; try exact Hz.
    + rewrite NoCol; reflexivity.
    + change (cst_v o2 (VExp a)) with (cst_e o2 a). rewrite (dec_left_lift _ _ (ki_not_arr a Ka)). apply lift_ok. apply Sub; [lia|exact Ka|apply (FL eq_refl)].
  - (* Greater *) destruct l as [| | | | | | a | |]; try contradiction. destruct r as [| | | | | | c | |]; try contradiction. destruct K as (Fa & Kc & -> & ->). cbn in Hs.
    destruct (Fld a Greater Fa eq_refl (FL eq_refl)) as (lv & DL & Cf).
    rewrite (um_node f (VExp a) Greater (VExp c) one_bits 1 (VExp lv) (VExp c)); try reflexivity; try discriminate.
    + rewrite Cf. reflexivity.
    + exact DL.
    + apply dec_right_exp. apply Sub; [lia|exact Kc|apply (FR eq_refl); discriminate].
  - (* Less *) destruct l as [| | | | | | a | |]; try contradiction. destruct r as [| | | | | | c | |]; try contradiction. destruct K as (Fa & Kc & -> & ->). cbn in Hs.
    destruct (Fld a Less Fa eq_refl (FL eq_refl)) as (lv & DL & Cf).
    rewrite (um_node f (VExp a) Less (VExp c) one_bits 1 (VExp lv) (VExp c)); try reflexivity; try discriminate.
    + rewrite Cf. reflexivity.
    + exact DL.
    + apply dec_right_exp. apply Sub; [lia|exact Kc|apply (FR eq_refl); discriminate].
  - (* GreaterEq *) destruct l as [| | | | | | a | |]; try contradiction. destruct r as [| | | | | | c | |]; try contradiction. destruct K as (Fa & Kc & -> & ->). cbn in Hs.
    destruct (Fld a GreaterEq Fa eq_refl (FL eq_refl)) as (lv & DL & Cf).
    rewrite (um_node f (VExp a) GreaterEq (VExp c) one_bits 1 (VExp lv) (VExp c)); try reflexivity; try discriminate.
    + rewrite Cf. reflexivity.
    + exact DL.
    + apply dec_right_exp. apply Sub; [lia|exact Kc|apply (FR eq_refl); discriminate].
  - (* LessEq *) destruct l as [| | | | | | a | |]; try contradiction. destruct r as [| | | | | | c | |]; try contradiction. destruct K as (Fa & Kc & -> & ->). cbn in Hs.
    destruct (Fld a LessEq Fa eq_refl (FL eq_refl)) as (lv & DL & Cf).
    rewrite (um_node f (VExp a) LessEq (VExp c) one_bits 1 (VExp lv) (VExp c)); try reflexivity; try discriminate.
    + rewrite Cf. reflexivity.
    + exact DL.
    + apply dec_right_exp. apply Sub; [lia|exact Kc|apply (FR eq_refl); discriminate].
  - (* In *) destruct l as [| | | | | | a | |]; try contradiction. destruct r as [| | | | | | c | |]; try contradiction.
    destruct c as [cl cop cr cb cf]. destruct cl as [| | | | | | |lits|]; try contradiction. destruct cop; try contradiction. destruct cr; try contradiction.
    destruct K as (Fa & Kl & -> & -> & -> & ->). cbn in Hs.
    destruct (Fld a Tables.In Fa eq_refl (FL eq_refl)) as (lv & DL & Cf).
    rewrite (um_node f (VExp a) Tables.In (VExp (E (VList lits) Tables.List VNil one_bits 1)) one_bits 1 (VExp lv) (VExp (E (VList lits) Tables.List VNil one_bits 1))); try reflexivity; try discriminate.
    + rewrite Cf. reflexivity.
    + exact DL.
    + apply dec_right_exp.
      assert (Fl : jsize (cst_e o2 (E (VList lits) Tables.List VNil one_bits 1)) < f) by (apply (FR eq_refl); discriminate).
      destruct f as [|f']; [lia|].
      rewrite (um_node f' (VList lits) Tables.List VNil one_bits 1 (VList lits) VNil); try reflexivity; try discriminate.
      change (cst_v o2 (VList lits)) with (JArr ((fix each (l : list expr) : list jv := match l with [] => [] | x :: rest => cst_e o2 x :: each rest end) lits)).
      cbn [dec_left]. rewrite (left_list_rt lits [] Kl). reflexivity.
Qed.

Theorem decode_encode e : ki e -> decode o (cst_e o2 e) = DOk e.
Proof. intros K. unfold decode. apply (unmarshal_roundtrip (esize e) e (le_n _) K). lia. Qed.

End RT.
