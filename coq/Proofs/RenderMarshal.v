(* Scratch: C01 clause 3 for MarshalJSON — no panic site exists on any tree (errors are values) *)
Require Import Parser ParserShape Render RenderTotal.
From Coq Require Import List Ascii String ZArith Bool Lia Arith.
Import ListNotations.

Section R.
Variable o2 : oracle2.

Fixpoint mar_list (l : list expr) (acc : list string) : out (option string) :=
  match l with
  | [] => Ret (Some ("[" ++ join "," (rev acc) ++ "]")%string)
  | x :: rest => bind (marshal_e o2 x) (fun s => match s with None => Ret None | Some s' => mar_list rest (s' :: acc) end)
  end.
Lemma mar_list_eq l : marshal_v o2 (VList l) = mar_list l [].
Proof. destruct l; reflexivity. Qed.

Lemma marshal_total_sz : forall n,
  (forall e, esize e <= n -> is_ret (marshal_e o2 e)) /\ (forall v, vsize v <= n -> is_ret (marshal_v o2 v)).
Proof.
  induction n as [|n [IHe IHv]].
  { split; [intros e Hs; destruct e; cbn in Hs; lia|].
    intros v Hs; destruct v; cbn in Hs; try lia; try (eexists; reflexivity). destruct e; cbn in Hs; lia. }
  assert (HE : forall e, esize e <= S n -> is_ret (marshal_e o2 e)).
  { intros [l op r bo fu] Hs. cbn in Hs. cbn [marshal_e].
    destruct (Render.is_leaf op); [apply IHv; lia|].
    apply bind_ret; [apply IHv; lia|intros [lraw|]; [|eexists; reflexivity]].
    assert (G0 : is_ret (marshal_v o2 r)) by (apply IHv; lia).
    apply bind_ret; [destruct r; try (eexists; reflexivity); exact G0|intros [rraw|]; [|eexists; reflexivity]].
    destruct (bo =? one_bits)%Z; [eexists; reflexivity|]. destruct (json_num o2 bo); eexists; reflexivity. }
  split; [exact HE|].
  intros v Hs. destruct v as [| | | | | |e|l|v1 v2 b]; try (eexists; reflexivity).
  - cbn in Hs. change (marshal_v o2 (VExp e)) with (marshal_e o2 e). apply HE. lia.
  - rewrite mar_list_eq. cbn in Hs. generalize (@nil string). revert Hs.
    induction l as [|x xs IHx]; intros Hs acc; cbn [mar_list]; [eexists; reflexivity|].
    apply bind_ret; [apply IHe; lia|intros [s'|]; [|eexists; reflexivity]]. apply IHx. lia.
  - cbn in Hs.
    change (marshal_v o2 (VBound v1 v2 b)) with
      (bind (marshal_v o2 v1) (fun a => match a with None => Ret None | Some sa =>
         bind (marshal_v o2 v2) (fun b0 => match b0 with None => Ret None | Some sb =>
           Ret (Some ("{""min"":" ++ sa ++ ",""max"":" ++ sb ++ ",""inclusive"":" ++ bool_str b ++ "}")%string) end) end)).
    apply bind_ret; [apply IHv; lia|intros [sa|]; [|eexists; reflexivity]].
    apply bind_ret; [apply IHv; lia|intros [sb|]; eexists; reflexivity].
Qed.
Theorem marshal_total e : is_ret (marshal_e o2 e).
Proof. exact (proj1 (marshal_total_sz (esize e)) e (le_n _)). Qed.
End R.
Print Assumptions marshal_total.
