(* Scratch: C08 (quote), lexer part — a quoted phrase is one token carrying its bytes verbatim,
   for every byte string without the delimiter and every classification oracle that does not
   call the delimiter a letter or a digit *)
Require Import Lex.
From Coq Require Import List Ascii String NArith Bool Arith Lia ZifyBool ZifyN ZifyNat.
Import ListNotations.

Lemma bval_inj a b : bval a = bval b -> a = b.
Proof. unfold bval. intros H. rewrite <- (ascii_N_embedding a), <- (ascii_N_embedding b), H. reflexivity. Qed.

(* a rune decoded in front of an ASCII byte `stop` never swallows it and is never equal to it *)
Lemma decode_before_stop c0 u stop rest r k :
  (bval stop <? 128)%N = true -> c0 <> stop ->
  decode_rune (c0 :: u ++ stop :: rest) = Some (r, k) ->
  k <= S (List.length u) /\ r <> bval stop.
Proof.
  intros Hs Hne. unfold decode_rune.
  destruct (bval c0 <? 128)%N eqn:E0.
  { intros H; inversion H; subst. split; [lia|]. intros E. apply Hne. apply bval_inj. exact E. }
  unfold rune_error, cont, in_range in *.
  destruct u as [|c1 [|c2 [|c3 u]]]; cbn [app List.length];
  repeat match goal with
  | |- context [if ?b then _ else _] => destruct b eqn:?
  | |- context [match ?l with [] => _ | _ :: _ => _ end] => destruct l
  end; intros H; inversion H; subst; split; try lia.
  all: repeat match goal with H : context [if ?b then _ else _] |- _ => destruct b eqn:? end; lia.
Qed.

Lemma decode_cons c s : decode_rune (c :: s) <> None.
Proof.
  unfold decode_rune.
  repeat match goal with
  | |- context [if ?b then _ else _] => destruct b
  | |- context [match ?l with [] => _ | _ :: _ => _ end] => destruct l
  end; discriminate.
Qed.

Lemma take_onto_app : forall k a b acc, k <= List.length a ->
  take_onto k (a ++ b) acc = (skipn k a ++ b, rev (firstn k a) ++ acc).
Proof.
  induction k as [|k IH]; intros a b acc Hk; cbn; [reflexivity|].
  destruct a as [|c a]; cbn in Hk; [lia|]. cbn. rewrite IH by lia. rewrite <- app_assoc. reflexivity.
Qed.

Section Q.
Variable cl : classes.
Variable q : ascii.
Hypothesis q_ascii : (bval q <? 128)%N = true.
Hypothesis q_plain : is_alnum cl (bval q) || is_wildcard (bval q) || is_escape (bval q) || is_space (bval q) = false.

Definition no_q (u : bytes) : Prop := Forall (fun c => c <> q) u.

Lemma phrase_body : forall n u acc rest fuel,
  List.length u <= n -> no_q u -> List.length u < fuel ->
  lex_phrase cl fuel (bval q) (u ++ q :: rest) acc = Tok {| typ := TQuoted; val := rev acc ++ u ++ [q] |} rest.
Proof.
  induction n as [|n IH]; intros u acc rest fuel Hn Hu Hf.
  - destruct u; [|cbn in Hn; lia]. destruct fuel as [|f]; [cbn in Hf; lia|].
    cbn [app lex_phrase]. unfold decode_rune. rewrite q_ascii. cbn [take_onto].
    apply orb_false_iff in q_plain. destruct q_plain as [H1 Hsp]. apply orb_false_iff in H1. destruct H1 as [H1 Hes].
    apply orb_false_iff in H1. destruct H1 as [Hal Hwi].
    rewrite Hal, Hwi, Hes, Hsp. cbn. rewrite N.eqb_refl. reflexivity.
  - destruct u as [|c0 u]; [apply (IH [] acc rest fuel); [cbn; lia|exact Hu|exact Hf]|].
    destruct fuel as [|f]; [cbn in Hf; lia|].
    inversion Hu as [|? ? Hc Hu']; subst.
    cbn [lex_phrase]. change ((c0 :: u) ++ q :: rest) with (c0 :: u ++ q :: rest).
    destruct (decode_rune (c0 :: u ++ q :: rest)) as [[r k]|] eqn:D; [|exfalso; exact (decode_cons _ _ D)].
    pose proof (decode_before_stop _ _ _ _ _ _ q_ascii Hc D) as [Hk Hr].
    pose proof (decode_width _ _ _ D) as [Hk1 _].
    change (c0 :: u ++ q :: rest) with ((c0 :: u) ++ q :: rest).
    rewrite (take_onto_app k (c0 :: u) (q :: rest) acc) by (cbn; lia).
    assert (Hne : (r =? bval q)%N = false) by (apply N.eqb_neq; exact Hr).
    rewrite Hne.
    assert (Hrec : lex_phrase cl f (bval q) (skipn k (c0 :: u) ++ q :: rest) (rev (firstn k (c0 :: u)) ++ acc) =
                   Tok {| typ := TQuoted; val := rev acc ++ (c0 :: u) ++ [q] |} rest).
    { rewrite IH.
      - rewrite rev_app_distr, rev_involutive, <- app_assoc.
        rewrite (app_assoc (firstn k (c0 :: u))), firstn_skipn. reflexivity.
      - rewrite skipn_length. cbn [List.length] in *. lia.
      - unfold no_q. apply Forall_forall. intros x Hx. unfold no_q in Hu. rewrite Forall_forall in Hu. apply Hu.
        rewrite <- (firstn_skipn k (c0 :: u)). apply in_or_app. right. exact Hx.
      - rewrite skipn_length. cbn [List.length] in *. lia. }
    destruct (is_alnum cl r || is_wildcard r || is_escape r); [exact Hrec|].
    destruct (is_space r); exact Hrec.
Qed.
End Q.

(* the double-quoted phrase through Next(), after any leading whitespace has been skipped *)
Theorem next_token_quoted cl u rest :
  is_letter cl 34 = false -> is_digit cl 34 = false ->
  Forall (fun c => c <> """"%char) u ->
  next_token cl (""""%char :: u ++ """"%char :: rest) =
    ({| typ := TQuoted; val := """"%char :: u ++ [""""%char] |}, rest).
Proof.
  intros HL HD Hu. unfold next_token.
  assert (Hal : is_alnum cl 34 = false) by (unfold is_alnum; rewrite HL, HD; reflexivity).
  cbn [skip_space]. change (is_space (ch """"%char)) with false. cbv iota.
  change (decode_rune (""""%char :: u ++ """"%char :: rest)) with (Some (34%N, 1)).
  cbv iota beta. rewrite Hal. cbn [orb is_wildcard is_escape N.eqb Pos.eqb symbol].
  cbn [take_onto].
  rewrite (phrase_body cl """"%char eq_refl) with (n := List.length u).
  - reflexivity.
  - change (bval """"%char) with 34%N. rewrite Hal. reflexivity.
  - lia.
  - exact Hu.
  - cbn [List.length]. rewrite app_length. cbn. lia.
Qed.
Print Assumptions next_token_quoted.
