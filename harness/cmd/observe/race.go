package main

import (
	"bufio"
	"encoding/json"
	"flag"
	"fmt"
	"math/rand"
	"os"
	"runtime"
	"strings"
	"sync"

	"github.com/grindlemire/go-lucene/pkg/lucene/expr"
)

// race: C14. N goroutines run every entry point on shared and on private expressions; every result is compared
// with the result of a sequential run made before, every shared tree is snapshot before and after.
// Built with -race by the check; a data race makes the process exit with GORACE's exit code.

type rcase struct{ q, df string }

func runAll(c rcase, shared *expr.Expression) []string {
	res := observeQuery(c.q, c.df)[1:10] // parse, validate, String, GoString, Render, RenderParam, Marshal, ToPostgres, ToParameterizedPostgres
	if shared != nil {
		res = append(res, renderAll(shared)...)
		res = append(res, guard(func() string {
			if expr.Validate(shared) != nil {
				return "invalid"
			}
			return "ok"
		}))
	}
	return res
}

func raceMain(args []string) {
	fs := flag.NewFlagSet("race", flag.ExitOnError)
	seed := fs.Int64("seed", 1, "seed")
	n := fs.Int("n", 300, "random queries besides the corpus")
	g := fs.Int("g", 16, "goroutines")
	rounds := fs.Int("rounds", 3, "rounds per goroutine")
	fs.Parse(args)
	rng = rand.New(rand.NewSource(*seed))
	out = bufio.NewWriter(os.Stdout)
	defer out.Flush()
	cases := []rcase{}
	for _, q := range corpusQueries {
		cases = append(cases, rcase{q, ""}, rcase{q, "d"})
	}
	for i := 0; i < *n; i++ {
		t := genTree(1+rng.Intn(3), rng.Intn(3) != 0)
		cases = append(cases, rcase{join(t.words(func() bool { return rng.Intn(3) == 0 }), rng.Intn(3)), pick(dfChoices)})
	}
	// shared expressions and their snapshots
	shared := make([]*expr.Expression, len(cases))
	snap := make([]string, len(cases))
	for i, c := range cases {
		e, err := parseWith(c.q, c.df)
		if err == nil && e != nil {
			shared[i] = e
			snap[i] = showExpr(e)
		}
	}
	// sequential baseline
	base := make([][]string, len(cases))
	for i, c := range cases {
		base[i] = runAll(c, shared[i])
	}
	// a second sequential pass in another order must agree already (state leaking between calls)
	mism := []string{}
	var mu sync.Mutex
	report := func(kind string, i int, k int, got, want string) {
		mu.Lock()
		if len(mism) < 20 {
			mism = append(mism, fmt.Sprintf("%s case=%d query=%q df=%q field=%d got=%.200s want=%.200s", kind, i, cases[i].q, cases[i].df, k, got, want))
		}
		mu.Unlock()
	}
	order := rng.Perm(len(cases))
	for _, i := range order {
		r := runAll(cases[i], shared[i])
		for k := range r {
			if r[k] != base[i][k] {
				report("sequential-rerun-differs", i, k, r[k], base[i][k])
			}
		}
	}
	var wg sync.WaitGroup
	calls := 0
	for w := 0; w < *g; w++ {
		wg.Add(1)
		lr := rand.New(rand.NewSource(*seed*1000 + int64(w)))
		go func() {
			defer wg.Done()
			for r := 0; r < *rounds; r++ {
				for _, i := range lr.Perm(len(cases)) {
					if lr.Intn(4) == 0 {
						runtime.Gosched()
					}
					res := runAll(cases[i], shared[i])
					for k := range res {
						if res[k] != base[i][k] {
							report("concurrent-result-differs", i, k, res[k], base[i][k])
						}
					}
				}
			}
		}()
		calls += *rounds * len(cases)
	}
	wg.Wait()
	mutated := 0
	for i, e := range shared {
		if e != nil && showExpr(e) != snap[i] {
			mutated++
			report("shared-expression-modified", i, -1, showExpr(e), snap[i])
		}
	}
	b, _ := json.Marshal(map[string]any{"cases": len(cases), "goroutines": *g, "calls": calls, "shared": len(shared), "mismatches": mism, "mutated": mutated,
		"samples": []string{cases[0].q, cases[len(cases)-1].q}})
	fmt.Fprintln(out, strings.TrimSpace(string(b)))
}
