(* Scratch: C16(5) — a lexical error makes Parse fail: the error token is never shifted and never accepted *)
Require Import Parser.
From Coq Require Import List String ZArith Bool Lia Arith.
Import ListNotations.
Close Scope string_scope.
Open Scope nat_scope.

Section E.
Variable o : oracle.
Variable df : string.

Definition ends_in_err (ts : list token) : Prop :=
  exists l terr, ts = l ++ [terr] /\ is TErr terr = true /\ forall t, In t l -> is TEOF t = false.

Lemma ends_hd ts : ends_in_err ts -> is TEOF (hd eof ts) = false.
Proof.
  intros (l & terr & -> & He & Hl). destruct l as [|x l]; cbn.
  - destruct terr as [ty v]; destruct ty; cbn in He; try discriminate; reflexivity.
  - apply Hl. left. reflexivity.
Qed.

Lemma ends_tl ts : ends_in_err ts -> is TErr (hd eof ts) = false -> ends_in_err (tl ts).
Proof.
  intros (l & terr & -> & He & Hl) Hh. destruct l as [|x l]; cbn in *.
  - rewrite He in Hh. discriminate.
  - exists l, terr. split; [reflexivity|]. split; [exact He|]. intros t Ht. apply Hl. right. exact Ht.
Qed.

Lemma step_err c : ends_in_err (toks c) ->
  match step o df c with
  | Next c' => ends_in_err (toks c')
  | Accept _ => False
  | _ => True
  end.
Proof.
  intros HE. destruct c as [r n tk p]. cbn [toks] in HE. unfold step. cbn [pend ns rs toks].
  assert (HR : match do_reduce o {| rs := r; ns := n; toks := tk; pend := p |} df with
               | Next c' => ends_in_err (toks c') | Accept _ => False | _ => True end).
  { unfold do_reduce. cbn [rs ns toks pend]. destruct (reduce_loop o r [] n df); auto. }
  destruct p as [l|].
  - destruct (should_shift n impl_and) as [[|]|s]; auto.
  - rewrite (ends_hd tk HE). cbn [andb].
    destruct (should_shift n (hd eof tk)) as [[|]|s] eqn:SS; auto.
    assert (Hne : is TErr (hd eof tk) = false).
    { unfold should_shift in SS. destruct (is TEOF (hd eof tk)); [discriminate|]. destruct (is TErr (hd eof tk)); [discriminate|]. reflexivity. }
    destruct (is_terminal (hd eof tk)); [destruct r as [|[?|?] ?]|]; cbn [toks]; apply ends_tl; auto.
Qed.

Lemma run_err : forall fuel c, ends_in_err (toks c) -> match run o fuel df c with PTree _ => False | _ => True end.
Proof.
  induction fuel as [|f IH]; intros c HE; cbn [run]; auto.
  pose proof (step_err c HE) as HS. destruct (step o df c) as [c'|e| |s]; auto; try contradiction. apply IH; exact HS.
Qed.

Theorem lex_error_rejects : forall ts, ends_in_err ts -> match parse_toks o df ts with PTree _ => False | _ => True end.
Proof.
  intros ts HE. unfold parse_toks.
  pose proof (run_err (4 * List.length ts + 4) {| rs := []; ns := [start]; toks := ts; pend := None |} HE) as H.
  destruct (run o (4 * List.length ts + 4) df _); auto; try contradiction.
Qed.
Print Assumptions lex_error_rejects.
End E.
