(* C05 at the level of query TEXT (any bytes): the printed tokens, written with single blanks between them, lex back to the printed
   tokens; hence Parse of the text returns the expected tree *)
Require Import Parser Api ParserRoundTrip ParserRoundTripV Printer.
Require Lex LexWs LexWsG.
From Coq Require Import List Ascii String NArith Bool Arith Lia.
Import ListNotations.

Definition ltok (t : token) : Lex.token := {| Lex.typ := typ t; Lex.val := list_ascii_of_string (val t) |}.

Lemma tok_of_ltok t : tok_of (ltok t) = t.
Proof. destruct t as [ty v]. unfold tok_of, ltok. cbn. rewrite string_of_list_ascii_of_string. reflexivity. Qed.
Lemma map_tok_of_ltok ts : map tok_of (map ltok ts) = ts.
Proof. induction ts as [|t ts IH]; [reflexivity|]. cbn [map]. rewrite tok_of_ltok, IH. reflexivity. Qed.

(* the text of a token list: texts separated (and followed) by one blank *)
Definition text_of (ts : list token) : string := string_of_list_ascii (LexWs.spaced (map ltok ts)).

Section T.
Variable o : oracle.
Variable cl : Lex.classes.
Hypothesis ws_not_alnum : forall r, Lex.is_space r = true -> Lex.is_alnum cl r = false.

Theorem printed_text_lexes ts : Forall (LexWsG.lexes_clean cl) (map ltok ts) -> Api.lex_tokens cl (text_of ts) = ts ++ [eof].
Proof.
  intros H. unfold Api.lex_tokens, text_of. rewrite list_ascii_of_string_of_list_ascii.
  rewrite (LexWsG.lex_spaced_text_g cl ws_not_alnum _ H). rewrite map_app, map_tok_of_ltok. reflexivity.
Qed.

Theorem printed_text_parses t : wfq o t -> Forall (LexWsG.lexes_clean cl) (map ltok (pr t)) ->
  Api.parse o cl ""%string (text_of (pr t)) = PTree (want o t).
Proof.
  intros W H. unfold Api.parse. rewrite (printed_text_lexes (pr t) H). apply printed_tree_parses. exact W.
Qed.
End T.

(* non-vacuity: a tree whose printed tokens all lex alone under the ASCII classifier, e.g.  a : b AND NOT ( c OR d ) ^ 2 *)
Definition lit_tok (s : string) : token := {| typ := TLiteral; val := s |}.
Example printed_text_example :
  let t := QAnd (QFv (lit_tok "a") (tk TColon) (lit_tok "b")) (QNot (QBoost (QPar (QOr (QTerm (lit_tok "c")) (QTerm (lit_tok "d")))) (Some (lit_tok "2")))) in
  Forall (LexWsG.lexes_clean LexWs.cl_ascii) (map ltok (pr t)) /\ text_of (pr t) = "a : b AND NOT ( c OR d ) ^ 2 "%string.
Proof.
  cbn zeta. split; [|reflexivity].
  repeat (apply Forall_cons; [split; [split; discriminate|vm_compute; reflexivity]|]).
  apply Forall_nil.
Qed.

(* ... and one with leaves that are not ASCII - a field and a word in Latin-1 letters, a phrase holding CJK text and an emoji -
   under a classifier for which every rune from U+0080 on (except U+FFFD) is a letter: the premise of the text-level theorems is met
   by such tokens too *)
Definition quoted_tok (s : string) : token := {| typ := TQuoted; val := s |}.
Example printed_text_example_non_ascii :
  let t := QOr (QFv (lit_tok "café") (tk TColon) (lit_tok "naïve")) (QNot (QFv (lit_tok "名前") (tk TColon) (quoted_tok """東京 😀 x"""))) in
  Forall (LexWsG.lexes_clean LexWsG.cl_wide) (map ltok (pr t)) /\ text_of (pr t) = "café : naïve OR NOT 名前 : ""東京 😀 x"" "%string.
Proof.
  cbn zeta. split; [|reflexivity].
  repeat (apply Forall_cons; [split; [split; discriminate|vm_compute; reflexivity]|]).
  apply Forall_nil.
Qed.

(* C07 at the level of query text (any bytes): two adjacent terms written with a blank between them, or with AND between them *)
Require Import ParserJuxt ParserJuxtParse Build.
Section J.
Variable o : oracle.
Variable cl : Lex.classes.
Hypothesis ws_not_alnum : forall r, Lex.is_space r = true -> Lex.is_alnum cl r = false.

Theorem juxt_same_text df pre t1 t2 post : term_tok t1 = true -> term_tok t2 = true ->
  Forall (LexWsG.lexes_clean cl) (map ltok (pre ++ t1 :: t2 :: post)) -> LexWsG.lexes_clean cl (ltok and_tok) ->
  Api.parse o cl df (text_of (pre ++ t1 :: t2 :: post)) = Api.parse o cl df (text_of (pre ++ t1 :: and_tok :: t2 :: post)).
Proof.
  intros H1 H2 HA Hand. unfold Api.parse.
  rewrite (printed_text_lexes cl ws_not_alnum _ HA).
  assert (HB : Forall (LexWsG.lexes_clean cl) (map ltok (pre ++ t1 :: and_tok :: t2 :: post))).
  { rewrite map_app in *. apply Forall_app in HA. destruct HA as [Hp Hr]. apply Forall_app. split; [exact Hp|].
    cbn [map] in *. inversion Hr; subst. constructor; [assumption|]. constructor; assumption. }
  rewrite (printed_text_lexes cl ws_not_alnum _ HB).
  rewrite <- !app_assoc. cbn [app]. apply (juxt_same_parse o df pre t1 t2 (post ++ [eof]) H1 H2).
Qed.
End J.
