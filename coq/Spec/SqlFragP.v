(* C04 specification, structure side: the parameterized SQL of a tree of the filterable fragment.
   trp e k = Some (ts, a, ps): ts is the token sequence of the parameterized text with its placeholders numbered from k
   ($k, $k+1, ... : PostgreSQL has no ? token; the driver numbers the ? of the implementation's text the same way), a the
   expression PostgreSQL must read from it, ps the parameter list. Same shapes as Spec/SqlFrag.tr with every constant replaced
   by a placeholder; a wildcard pattern travels translated. Outside (None): what is outside tr, a quoted lone star (K6) and
   patterns that read as /regexp/. *)
Require Import Parser Render PgModel QuerySem SqlSem SqlFrag.
From Coq Require Import List Ascii String ZArith QArith Bool.
Close Scope Q_scope.
Import ListNotations.
Open Scope string_scope.

Definition pnum (k : nat) : bytes := nat_digits (Z.of_nat k).

Definition const_param (lf : Parser.expr) : option value :=
  match lf with
  | E (VInt z) Literal VNil _ _ => Some (VInt z)
  | E (VStr s) Literal VNil _ _ => if String.eqb s "*" then None else Some (VStr s)
  | _ => None
  end.

Fixpoint consts_param (l : list Parser.expr) : option (list value) :=
  match l with
  | [] => Some []
  | x :: r => match const_param x, consts_param r with Some v, Some vs => Some (v :: vs) | _, _ => None end
  end.

(* $k , $k+1 , ... for n placeholders *)
Fixpoint param_toks (k n : nat) : list tok :=
  match n with 0 => [] | 1 => [TParam (pnum k)] | S n' => TParam (pnum k) :: TComma :: param_toks (S k) n' end.
Fixpoint param_asts (k n : nat) : list ast :=
  match n with 0 => [] | S n' => AParam (pnum k) :: param_asts (S k) n' end.

Fixpoint trp (e : Parser.expr) (k : nat) : option (list tok * ast * list value) :=
  match e with
  | E l op rt _ _ =>
    match op with
    | And | Or =>
        match l, rt with
        | VExp x, VExp y =>
            match trp x k with
            | Some (tx, ax, px) =>
                match trp y (k + List.length px) with
                | Some (ty, ay, py) =>
                    Some (TLP :: tx ++ TRP :: TKw (match op with And => KAnd | _ => KOr end) :: TLP :: ty ++ [TRP],
                          match op with And => mk_and ax ay | _ => mk_or ax ay end, (px ++ py)%list)
                | None => None
                end
            | None => None
            end
        | _, _ => None
        end
    | Not | MustNot =>
        match l, rt with
        | VExp x, VNil => match trp x k with Some (tx, ax, px) => Some (TKw KNot :: TLP :: tx ++ [TRP], ANot ax, px) | None => None end
        | _, _ => None
        end
    | Must => match l, rt with VExp x, VNil => trp x k | _, _ => None end
    | Equals | Greater | Less | GreaterEq | LessEq =>
        match field_of l, rt, cmp_text op with
        | Some f, VExp lf, Some o =>
            match const_param lf with
            | Some v => Some ([TIdent (str f); TOp (str o); TParam (pnum k)], AOp (str o) (ACol (str f)) (AParam (pnum k)), [v])
            | None => None
            end
        | _, _, _ => None
        end
    | Like =>
        match field_of l, rt with
        | Some f, VExp (E (VStr p) Wild VNil _ _) =>
            if is_regex_text p then None else
            Some ([TIdent (str f); TKw KSimilar; TKw KTo; TParam (pnum k)], ASimilar (ACol (str f)) (AParam (pnum k)), [VStr (translate p)])
        | _, _ => None
        end
    | Tables.In =>
        match field_of l, rt with
        | Some f, VExp (E (VList (x :: lits)) Tables.List VNil _ _) =>
            match consts_param (x :: lits) with
            | Some vs => Some (TIdent (str f) :: TKw KIn :: TLP :: param_toks k (List.length vs) ++ [TRP],
                               AIn (ACol (str f)) (param_asts k (List.length vs)), vs)
            | None => None
            end
        | _, _ => None
        end
    | Range =>
        match field_of l, rt with
        | Some f, VBound lo hi incl =>
            let c := TIdent (str f) in
            let ge := str (if incl then ">=" else ">") in
            let le := str (if incl then "<=" else "<") in
            match int_bound lo, int_bound hi, is_star lo, is_star hi with
            | Some a, Some b, _, _ =>
                Some ([c; TOp ge; TParam (pnum k); TKw KAnd; c; TOp le; TParam (pnum (S k))],
                      ABool true [AOp ge (ACol (str f)) (AParam (pnum k)); AOp le (ACol (str f)) (AParam (pnum (S k)))], [VInt a; VInt b])
            | None, Some b, true, _ => Some ([c; TOp le; TParam (pnum k)], AOp le (ACol (str f)) (AParam (pnum k)), [VInt b])
            | Some a, None, _, true => Some ([c; TOp ge; TParam (pnum k)], AOp ge (ACol (str f)) (AParam (pnum k)), [VInt a])
            | _, _, _, _ => None
            end
        | _, _ => None
        end
    | _ => None
    end
  end.

(* the row value a parameter is bound to *)
Definition prv (v : value) : rval :=
  match v with VInt z => RNum (inject_Z z) | VStr s => RStr s | _ => RStr "" end.

(* PostgreSQL has no ? token: the placeholders of a text - the ? outside quoted identifiers and string constants - are numbered
   $k, $k+1, ... from left to right (this is what a client library does before sending the text) *)
Fixpoint number_q (s : bytes) (k : nat) (inq ins : bool) : bytes :=
  match s with
  | [] => []
  | c :: r =>
      if Ascii.eqb c """"%char && negb ins then c :: number_q r k (negb inq) ins
      else if Ascii.eqb c "'"%char && negb inq then c :: number_q r k inq (negb ins)
      else if Ascii.eqb c "?"%char && negb inq && negb ins then ("$"%char :: pnum k ++ number_q r (S k) inq ins)%list
      else c :: number_q r k inq ins
  end.
Definition number_placeholders (s : bytes) : bytes := number_q s 1 false false.
