(* C09 — Layout does not change meaning.  (keyword case and redundant parentheses; the whitespace clause is decided per case) *)
Require Import Parser Printer.
Require Lex LexProof LexCtx LexCtx2.
Require Import ParserRoundTrip ParserParens.
Require LexCase LexWs LexWsG ParserTokText SqlQueryText LexKw KwText LexField LexProof.
Require Import Api.
From Coq Require Import List String NArith.
Import ListNotations.

(* the token type of a word (AND / OR / NOT / TO / literal) is the same for any two words that agree up to ASCII letter case *)
Theorem C09_keyword_case : forall w w' : Lex.bytes,
  map Lex.upper_ascii w = map Lex.upper_ascii w' -> Lex.word_type w = Lex.word_type w'.
Proof. exact LexCase.word_type_case. Qed.

(* ... and from single words to whole queries: the parser reads only the TYPE of a token that is not a term. Two token lists
   that agree in every token type, and in the text of every term token (Literal, Quoted, Regexp; EOF and Error too), have the
   same outcome - the same tree or the same rejection: whatever case AND, OR, NOT and TO are written in, and whatever else a
   lexer might put into the text of an operator token, the result is the same *)
Theorem C09_keyword_case_same_parse : forall (o : oracle) (df : string) (ts ts' : list token),
  Forall2 ParserTokText.same_for_parser ts ts' -> parse_toks o df ts = parse_toks o df ts'.
Proof. exact ParserTokText.token_text_is_irrelevant_outside_terms. Qed.

Theorem C09_keyword_case_same_parse_of_text : forall (o : oracle) (cl : Lex.classes) (df s s' : string),
  Forall2 ParserTokText.same_for_parser (Api.lex_tokens cl s) (Api.lex_tokens cl s') -> Api.parse o cl df s = Api.parse o cl df s'.
Proof. intros o cl df s s' H. exact (ParserTokText.token_text_is_irrelevant_outside_terms o df _ _ H). Qed.

(* the premise is met by a query and its variant with every keyword in another case; both parse to a tree *)
Example c09_keyword_case_example :
  let s := "a:b and NOT c:d Or e:[1 tO 5]"%string in let s' := "a:b AND not c:d OR e:[1 TO 5]"%string in
  Forall2 ParserTokText.same_for_parser (Api.lex_tokens LexWs.cl_ascii s) (Api.lex_tokens LexWs.cl_ascii s') /\
  exists e, Api.parse SqlQueryText.o_ex LexWs.cl_ascii "" s = PTree e.
Proof.
  split; [vm_compute; repeat (constructor; [split; [reflexivity|intros H; first [reflexivity|discriminate H]]|]); constructor|].
  vm_compute. eexists; reflexivity.
Qed.

(* ... and from the query TEXT: s' is s with operator tokens (AND, OR, NOT, TO; any token that is not a term) respelled, each
   between whitespace or at the end of the input (LexKw.kwvar: a derivation over the tokens of s; everything else - any bytes,
   valid UTF-8 or not - unchanged). Then Parse returns the same result for both texts. Oracle facts: whitespace runes are not
   alphanumeric, U+FFFD is no letter or digit. *)
Theorem C09_keyword_case_same_parse_from_the_text : forall (cl : Lex.classes),
  (forall r, Lex.is_space r = true -> Lex.is_alnum cl r = false) ->
  Lex.is_letter cl 65533%N = false /\ Lex.is_digit cl 65533%N = false ->
  forall (o : oracle) (df : string) (s s' : Lex.bytes), LexKw.kwvar cl s s' ->
  Api.parse o cl df (string_of_list_ascii s) = Api.parse o cl df (string_of_list_ascii s').
Proof. intros cl W F o df s s'. exact (KwText.parse_kw cl W F o df s s'). Qed.

(* what makes it apply to keywords in another letter case: a word of ASCII letters, digits and underscores lexes alone as ONE
   token, whose type (C09_keyword_case) depends on the word only up to letter case *)
Theorem C09_keyword_spelling_lexes_alone : forall (cl : Lex.classes),
  Lex.is_letter cl 34%N = false /\ Lex.is_digit cl 34%N = false ->
  Lex.is_letter cl 58%N = false /\ Lex.is_digit cl 58%N = false ->
  (forall r, Lex.is_space r = true -> Lex.is_alnum cl r = false) ->
  forall (c0 : Ascii.ascii) (f : list Ascii.ascii), forallb (LexField.wordc cl) (c0 :: f) = true ->
  LexWsG.clean_g cl {| Lex.typ := Lex.word_type (c0 :: f); Lex.val := c0 :: f |}.
Proof. exact KwText.kw_clean. Qed.

(* the relation is inhabited by a query and its variant:  a:b and c:d  /  a:b AND c:d *)
Open Scope string_scope.
Example c09_keyword_text_example :
  LexKw.kwvar LexWs.cl_ascii (list_ascii_of_string "a:b and c:d") (list_ascii_of_string "a:b AND c:d").
Proof.
  pose (L := fun s => list_ascii_of_string s).
  assert (P : forall ty v, ty <> TEOF -> ty <> TErr -> LexProof.proper {| Lex.typ := ty; Lex.val := v |}) by (intros; split; assumption).
  apply (LexKw.kv_tok LexWs.cl_ascii [] {| Lex.typ := TLiteral; Lex.val := L "a" |} (L ":b and c:d") (L ":b AND c:d")); [reflexivity|vm_compute; reflexivity|apply P; discriminate|vm_compute; reflexivity|].
  apply (LexKw.kv_tok LexWs.cl_ascii [] {| Lex.typ := TColon; Lex.val := L ":" |} (L "b and c:d") (L "b AND c:d")); [reflexivity|vm_compute; reflexivity|apply P; discriminate|vm_compute; reflexivity|].
  apply (LexKw.kv_tok LexWs.cl_ascii [] {| Lex.typ := TLiteral; Lex.val := L "b" |} (L " and c:d") (L " AND c:d")); [reflexivity|vm_compute; reflexivity|apply P; discriminate|vm_compute; reflexivity|].
  apply (LexKw.kv_kw LexWs.cl_ascii (L " ") {| Lex.typ := TAnd; Lex.val := L "and" |} {| Lex.typ := TAnd; Lex.val := L "AND" |} (L " c:d") (L " c:d"));
    [reflexivity|discriminate|apply P; discriminate|apply P; discriminate|vm_compute; reflexivity|vm_compute; reflexivity|reflexivity|reflexivity|reflexivity|reflexivity|].
  apply LexKw.kv_same.
Qed.
Close Scope string_scope.

(* two printed trees (each with parentheses at least where the table requires them) that differ only in parenthesis nodes
   - around the whole query, around any operand, around a field's value - parse to one and the same tree *)
Theorem C09_redundant_parentheses : forall (o : oracle) (t t' : qt), wfq o t -> wfq o t' -> strip t = strip t' ->
  exists e k k', steps o k (mk [] [start] (pr t ++ [eof])) = Accept e /\ steps o k' (mk [] [start] (pr t' ++ [eof])) = Accept e.
Proof. exact same_modulo_parens. Qed.

Theorem C09_redundant_parentheses_same_parse : forall (o : oracle) (t t' : qt), wfq o t -> wfq o t' -> strip t = strip t' ->
  parse_toks o "" (pr t ++ [eof]) = parse_toks o "" (pr t' ++ [eof]) /\ parse_toks o "" (pr t ++ [eof]) = PTree (want o t).
Proof. exact same_parse_modulo_parens. Qed.

(* whitespace, for ASCII inputs: LexWs.wsvar cl s s' says s' is s with the whitespace (space, tab, CR, LF) between and around
   its tokens changed - a separator may grow, shrink, change its bytes, or appear where there was none; an existing one is
   never removed entirely; a word ending in a dangling escape is excluded (known finding K14); what follows a lexical error is
   unchanged. Then the token streams are equal, hence Parse gives the same tree or fails on both.
   Oracle fact: the four whitespace runes are not letters or digits. (First development; the general statement for all byte strings follows below.) *)
Theorem C09_whitespace_same_tokens : forall cl : Lex.classes, (forall r, Lex.is_space r = true -> Lex.is_alnum cl r = false) ->
  forall s s' : Lex.bytes, LexWs.wsvar cl s s' -> LexWs.asc s -> LexWs.asc s' -> Lex.lex cl s' = Lex.lex cl s.
Proof. exact LexWs.lex_ws. Qed.

Theorem C09_whitespace_same_parse : forall (o : oracle) (cl : Lex.classes), (forall r, Lex.is_space r = true -> Lex.is_alnum cl r = false) ->
  forall (df s s' : string), LexWs.wsvar cl (list_ascii_of_string s) (list_ascii_of_string s') ->
  LexWs.asc (list_ascii_of_string s) -> LexWs.asc (list_ascii_of_string s') -> Api.parse o cl df s' = Api.parse o cl df s.
Proof.
  intros o cl Hws df s s' W A A'. unfold Api.parse, Api.lex_tokens. rewrite (LexWs.lex_ws cl Hws _ _ W A A'). reflexivity.
Qed.


(* whitespace, for EVERY input - any byte string, valid UTF-8 or not: LexWsG.wsvar_g is LexWs.wsvar with the dangling-escape
   exclusion stated without reference to ASCII (the token is returned unchanged when a blank follows it). The decoder may look up
   to three bytes past a token to find a truncated sequence not continued; whitespace bytes and the first byte of any proper token
   are never continuation bytes, so the lookahead sees the same thing (Proofs/LexCtx.v, LexCtx2.v, LexWsG.v).
   Oracle facts: the four whitespace runes are not letters or digits; U+FFFD (the decoder's answer to an invalid byte) is neither. *)
Theorem C09_whitespace_same_tokens_any_bytes : forall cl : Lex.classes,
  (forall r, Lex.is_space r = true -> Lex.is_alnum cl r = false) ->
  Lex.is_letter cl 65533%N = false /\ Lex.is_digit cl 65533%N = false ->
  forall s s' : Lex.bytes, LexWsG.wsvar_g cl s s' -> Lex.lex cl s' = Lex.lex cl s.
Proof. exact LexWsG.lex_ws_g. Qed.

Theorem C09_whitespace_same_parse_any_bytes : forall (o : oracle) (cl : Lex.classes),
  (forall r, Lex.is_space r = true -> Lex.is_alnum cl r = false) ->
  Lex.is_letter cl 65533%N = false /\ Lex.is_digit cl 65533%N = false ->
  forall (df s s' : string), LexWsG.wsvar_g cl (list_ascii_of_string s) (list_ascii_of_string s') -> Api.parse o cl df s' = Api.parse o cl df s.
Proof.
  intros o cl Hws Hf df s s' W. unfold Api.parse, Api.lex_tokens. rewrite (LexWsG.lex_ws_g cl Hws Hf _ _ W). reflexivity.
Qed.

(* one call of Next() does not depend on what follows the token (any bytes): the context may be replaced by any other whose first
   byte is not a continuation byte and whose first rune stops a word / is a digit exactly when the old one did *)
Theorem C09_token_independent_of_what_follows : forall cl : Lex.classes,
  (forall r, Lex.is_space r = true -> Lex.is_alnum cl r = false) ->
  forall (t : Lex.token) (r r' : Lex.bytes), r <> [] ->
  Lex.next_token cl (Lex.val t ++ r) = (t, r) -> LexProof.proper t -> LexCtx.hd_ok r' -> LexCtx2.look_ok cl r r' ->
  Lex.next_token cl (Lex.val t ++ r') = (t, r').
Proof. exact LexCtx2.next_token_ctx_g. Qed.

Print Assumptions C09_keyword_case.
Print Assumptions C09_whitespace_same_tokens.
Print Assumptions C09_whitespace_same_parse.
Print Assumptions C09_redundant_parentheses_same_parse.
Print Assumptions C09_redundant_parentheses.
Print Assumptions C09_whitespace_same_tokens_any_bytes.
Print Assumptions C09_whitespace_same_parse_any_bytes.
Print Assumptions C09_token_independent_of_what_follows.
Print Assumptions C09_keyword_case_same_parse.
Print Assumptions C09_keyword_case_same_parse_of_text.
Print Assumptions C09_keyword_case_same_parse_from_the_text.
Print Assumptions C09_keyword_spelling_lexes_alone.
