(* C09 (keyword case): the token type of a word depends only on its ASCII-upper-cased text *)
Require Import Lex.
From Coq Require Import List Ascii String.

Lemma word_type_case : forall w w' : bytes, map upper_ascii w = map upper_ascii w' -> word_type w = word_type w'.
Proof. intros w w' H. unfold word_type. rewrite H. reflexivity. Qed.
