(* C03 (patterns): the fixed translation * -> %, ? -> _ preserves the meaning of a wildcard pattern: SIMILAR TO on the
   translated text matches exactly the strings the Lucene pattern matches, for every pattern without % and _ (those are
   SIMILAR TO wildcards themselves: known finding K11) and every string. *)
Require Import Parser Render QuerySem SqlSem SqlFrag.
From Coq Require Import List Ascii String ZArith Bool Lia Arith.
Import ListNotations.
Open Scope string_scope.



Lemma translate_cons c p : translate (String c p) =
  String (if Ascii.eqb c "*"%char then "%"%char else if Ascii.eqb c "?"%char then "_"%char else c) (translate p).
Proof.
  unfold translate. cbn [replace_char].
  destruct (Ascii.eqb c "*"%char) eqn:E1.
  - apply Ascii.eqb_eq in E1. subst. reflexivity.
  - cbn [replace_char]. destruct (Ascii.eqb c "?"%char) eqn:E2; reflexivity.
Qed.

(* one step of each matcher on a character that is no wildcard for it *)
Lemma wild_step_lit f c p s : Ascii.eqb c "*"%char = false -> Ascii.eqb c "?"%char = false ->
  wild_match_fuel (S f) (String c p) s = match s with String d s' => Ascii.eqb c d && wild_match_fuel f p s' | EmptyString => false end.
Proof.
  intros H1 H2. destruct c as [[] [] [] [] [] [] [] []]; try discriminate; reflexivity.
Qed.
Lemma sim_step_lit f c p s : Ascii.eqb c "%"%char = false -> Ascii.eqb c "_"%char = false ->
  sim_match_fuel (S f) (String c p) s = match s with String d s' => Ascii.eqb c d && sim_match_fuel f p s' | EmptyString => false end.
Proof.
  intros H1 H2. destruct c as [[] [] [] [] [] [] [] []]; try discriminate; reflexivity.
Qed.

Lemma translate_sem_fuel : forall fuel p s, no_sql_wild p = true ->
  sim_match_fuel fuel (translate p) s = wild_match_fuel fuel p s.
Proof.
  induction fuel as [|f IH]; intros p s H; [reflexivity|].
  destruct p as [|c p'].
  - reflexivity.
  - cbn [no_sql_wild] in H. apply andb_true_iff in H. destruct H as [Hc Hp].
    unfold plain_char in Hc. apply andb_true_iff in Hc. destruct Hc as [Hc1 Hc2].
    apply negb_true_iff in Hc1. apply negb_true_iff in Hc2.
    rewrite translate_cons.
    destruct (Ascii.eqb c "*"%char) eqn:E1.
    + apply Ascii.eqb_eq in E1. subst c.
      change (sim_match_fuel (S f) (String "%"%char (translate p')) s) with
        (sim_match_fuel f (translate p') s || match s with EmptyString => false | String _ s' => sim_match_fuel f (String "%"%char (translate p')) s' end).
      change (wild_match_fuel (S f) (String "*"%char p') s) with
        (wild_match_fuel f p' s || match s with EmptyString => false | String _ s' => wild_match_fuel f (String "*"%char p') s' end).
      rewrite (IH p' s Hp). destruct s as [|d s']; [reflexivity|].
      f_equal. rewrite <- (IH (String "*"%char p') s'); [|cbn; rewrite Hp; reflexivity].
      rewrite translate_cons. reflexivity.
    + destruct (Ascii.eqb c "?"%char) eqn:E2.
      * apply Ascii.eqb_eq in E2. subst c.
        change (sim_match_fuel (S f) (String "_"%char (translate p')) s) with
          (match s with EmptyString => false | String _ s' => sim_match_fuel f (translate p') s' end).
        change (wild_match_fuel (S f) (String "?"%char p') s) with
          (match s with EmptyString => false | String _ s' => wild_match_fuel f p' s' end).
        destruct s as [|d s']; [reflexivity|]. apply IH. exact Hp.
      * rewrite (sim_step_lit f c (translate p') s Hc1 Hc2), (wild_step_lit f c p' s E1 E2).
        destruct s as [|d s']; [reflexivity|]. rewrite (IH p' s' Hp). reflexivity.
Qed.

Lemma translate_length : forall p, String.length (translate p) = String.length p.
Proof. induction p as [|c p IH]; [reflexivity|]. rewrite translate_cons. cbn [String.length]. rewrite IH. reflexivity. Qed.

Theorem translate_preserves_meaning : forall p s, no_sql_wild p = true -> sim_match (translate p) s = wild_match p s.
Proof. intros p s H. unfold sim_match, wild_match. rewrite translate_length. apply translate_sem_fuel. exact H. Qed.
