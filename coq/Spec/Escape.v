(* The escaped spelling of a text as a bare word (C08, escaping clause): a backslash before every RUNE - as the decoder of the
   model (Lex.decode_rune: Go's utf8.DecodeRuneInString) cuts the text, an invalid byte being a rune of its own - that is not a
   letter, digit or underscore. Specification function: the theorems of Proofs/LexEscapeU.v and QuoteTextU.v are about it, and it
   is extracted so that the driver can compare the generator's spelling with it on every C08e case. *)
Require Import Lex.
From Coq Require Import List Ascii String NArith Bool.
Import ListNotations.

Section E.
Variable cl : classes.
(* n bounds the number of runes (esc uses the length of the text) *)
Fixpoint esc_u (n : nat) (s : bytes) : bytes :=
  match n with
  | 0 => []
  | S n' =>
    match decode_rune s with
    | None => []
    | Some (r, w) => (if is_alnum cl r then firstn w s else "\"%char :: firstn w s) ++ esc_u n' (skipn w s)
    end
  end.
Definition esc (s : bytes) : bytes := esc_u (List.length s) s.
End E.
