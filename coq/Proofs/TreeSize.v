(* C01, cost clause: the tree Parse returns is linear in the input. Every accepted tree lays over its tokens as a derivation
   (ParserLay.C06_sound); a derivation over n tokens builds at most 6n-5 nodes (the juxtaposition rule builds a node without a
   token, and the default field wraps a bare operand in two more nodes: that is where the factor comes from). With at most
   |s|+1 tokens (Cost.tokens_linear) the returned tree has at most 6|s|+3 nodes, so everything that walks the tree once -
   Validate, the printers, both renderers, the encoder - does work linear in the input length, in the units of the model. *)
Require Import Parser ParserShape ParserLay.
Require Lex Api Cost.
From Coq Require Import List String ZArith Bool Lia Arith.
Import ListNotations.
Close Scope string_scope.
Open Scope nat_scope.

Fixpoint lsize (l : list expr) : nat := match l with [] => 0 | x :: r => esize x + lsize r end.
Lemma lsize_app a b : lsize (a ++ b) = lsize a + lsize b.
Proof. induction a as [|x a IH]; cbn [app lsize]; [reflexivity|rewrite IH; lia]. Qed.
Lemma vsize_list l : vsize (VList l) = 1 + lsize l.
Proof. reflexivity. Qed.
Lemma esize_pos e : 1 <= esize e. Proof. destruct e; cbn [esize]; lia. Qed.

Section T.
Variable o : oracle.
Variable df : string.

Lemma chained_size : forall n e lits ok, esize e <= n -> chained_or_literals df e = (lits, ok) -> lsize lits <= esize e.
Proof.
  induction n as [|n IH]; intros e lits ok Hs H.
  - pose proof (esize_pos e). lia.
  - rewrite (col_unfold df) in H. pose proof (unwrap_size df e) as Hu.
    destruct (unwrap_df df e) as [l' op' r' b' f'] eqn:EU.
    destruct op';
      try (destruct l'; try (inversion H; subst; cbn [lsize]; lia); destruct r'; inversion H; subst; cbn [lsize]; lia).
    (* Or: the only case left *)
    destruct l' as [| | | | | | x | |]; try (inversion H; subst; cbn [lsize]; lia).
    destruct r' as [| | | | | | y | |]; try (inversion H; subst; cbn [lsize]; lia).
    destruct (chained_or_literals df x) as [ll okl] eqn:Ex. destruct (chained_or_literals df y) as [rl okr] eqn:Ey.
    inversion H; subst. cbn [esize vsize] in Hu. rewrite lsize_app.
    pose proof (IH x ll okl ltac:(lia) Ex). pose proof (IH y rl okr ltac:(lia) Ey). lia.
Qed.

Lemma literal_size t : esize (parse_literal o t) = 1.
Proof.
  unfold parse_literal, lit, wild, regexp, empty_e.
  repeat match goal with |- context [match ?x with _ => _ end] => destruct x end; reflexivity.
Qed.

Lemma colwrap_size f : esize (Shape.colwrap f) <= esize f.
Proof. unfold Shape.colwrap. destruct f as [l op r b fz]. cbn [e_left]. destruct l; unfold lit, empty_e; cbn [esize vsize]; lia. Qed.

Lemma scw_size x : esize (Build.scw df x) <= esize x + 2.
Proof.
  unfold Build.scw. destruct (String.eqb df ""); [lia|]. destruct (is_leaf_op (e_op x)); [|lia].
  unfold lit, empty_e. cbn [esize vsize]. lia.
Qed.

Lemma inx_size f lits : esize (Build.inx f lits) = 3 + esize (Shape.colwrap f) + lsize lits.
Proof. transitivity (1 + esize (Shape.colwrap f) + (1 + (1 + lsize lits) + 0)); [reflexivity|lia]. Qed.

Theorem lay_size : forall e s, Lay o df e s -> 1 <= List.length s /\ esize e + 5 <= 6 * List.length s.
Proof.
  induction 1;
    repeat match goal with H : _ /\ _ |- _ => destruct H end;
    cbn [List.length]; repeat (rewrite app_length; cbn [List.length]).
  - rewrite literal_size. lia.
  - lia.
  - unfold Build.eqx, empty_e. cbn [esize vsize]. pose proof (colwrap_size f). lia.
  - rewrite inx_size.
    pose proof (colwrap_size f). pose proof (chained_size (esize v) v lits true (le_n _) ltac:(eassumption)). lia.
  - unfold Build.cmpx, empty_e. cbn [esize vsize]. pose proof (colwrap_size f). lia.
  - unfold Build.cmpx, empty_e. cbn [esize vsize]. pose proof (colwrap_size f). lia.
  - unfold Build.rangex, empty_e. cbn [esize vsize]. pose proof (colwrap_size f). lia.
  - unfold Build.mk2, empty_e. cbn [esize vsize]. pose proof (scw_size l). pose proof (scw_size r). lia.
  - unfold Build.mk2, empty_e. cbn [esize vsize]. pose proof (scw_size l). pose proof (scw_size r). lia.
  - unfold Build.mk1, empty_e. cbn [esize vsize]. pose proof (scw_size x). lia.
  - unfold Build.mk_fuzzy. cbn [esize vsize]. pose proof (scw_size x). lia.
  - unfold Build.mk_fuzzy. cbn [esize vsize]. pose proof (scw_size x). lia.
  - unfold Build.mk_boost. cbn [esize vsize]. pose proof (scw_size x). lia.
  - unfold Build.mk_boost. cbn [esize vsize]. pose proof (scw_size x). lia.
Qed.
End T.

Theorem parse_tree_linear (o : oracle) (cl : Lex.classes) (df s : string) (e : expr) :
  Api.parse o cl df s = PTree e -> esize e <= 6 * String.length s + 3.
Proof.
  intros P. destruct (C06_sound o df (Api.lex_tokens cl s) e P) as [e0 [consumed [rest [L [Eq ->]]]]].
  destruct (lay_size o df e0 consumed L) as [_ B].
  pose proof (Cost.tokens_linear cl s) as T. rewrite <- Eq, app_length in T.
  pose proof (scw_size df e0). destruct (is_leaf_op (e_op e0) && negb (String.eqb df "")); lia.
Qed.
Print Assumptions parse_tree_linear.
