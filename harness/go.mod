module github.com/grindlemire/go-lucene/verifharness

go 1.22

require github.com/grindlemire/go-lucene v0.0.0

replace github.com/grindlemire/go-lucene => /repo
