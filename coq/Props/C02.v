(* C02 — Rendered SQL is one confined boolean expression; user text only in literals.  (scanner-level lemmas; see DESIGN 6/C02) *)
Require Import Parser PgModel.
Require PgQuote PgIdent.
From Coq Require Import List String Ascii.
Import ListNotations.

(* a string value can never leave its literal: the PostgreSQL scanner model reads ' + doubled(v) + ' as ONE string constant
   equal to v, for every byte string v (quotes, backslashes, semicolons, comment openers, NUL, invalid UTF-8) *)
Theorem C02_string_value_stays_in_its_literal : forall (v : bytes) (rest : list ascii),
  match rest with [] => True | c :: _ => Ascii.eqb c "'"%char = false end -> has_newline rest = false ->
  next ("'"%char :: PgQuote.double v ++ "'"%char :: rest) = Some (TStr v, rest).
Proof. exact PgQuote.sq_roundtrip. Qed.

(* a field name without a double quote is ONE quoted identifier (truncated to 63 bytes by PostgreSQL: known finding K9) *)
Theorem C02_field_name_is_one_identifier : forall (c0 : ascii) (v rest : list ascii),
  forallb (fun c => negb (Ascii.eqb c """"%char)) (c0 :: v) = true ->
  match rest with [] => True | c :: _ => Ascii.eqb c """"%char = false end ->
  next (""""%char :: (c0 :: v) ++ """"%char :: rest) = Some (TIdent (truncate_ident (c0 :: v)), rest).
Proof. exact PgIdent.ident_roundtrip. Qed.

Print Assumptions C02_string_value_stays_in_its_literal.
Print Assumptions C02_field_name_is_one_identifier.
