(* C15: the postgres Render of the model IS the generic fold (Model/Driver.v) instantiated with the postgres function
   table; hence a Fuzzy or Boost node anywhere makes Render fail, and so do ToPostgres on every query containing one. *)
Require Import Parser ParserShape Render RenderTotal RenderInline Driver Custom TablesTie.
From Coq Require Import List Ascii String ZArith Bool Lia Arith.
Import ListNotations.

Section F.
Variable o2 : oracle2.
Notation fns := (pg_fn o2).

(* the two mutual fixpoints have convertible bodies once fns is instantiated: the kernel checks it by conversion *)
Theorem render_is_fold e : render o2 e = render_with o2 fns e.
Proof. reflexivity. Qed.
Theorem serialize_is_fold v : serialize o2 v = serialize_with o2 fns v.
Proof. reflexivity. Qed.

(* a Fuzzy or Boost node anywhere: some node has no function in the postgres table *)
Lemma has_fb_missing_sz : forall n,
  (forall e, esize e <= n -> has_fb e = true -> missing fns e = true) /\
  (forall v, vsize v <= n -> vhas_fb v = true -> vmissing fns v = true).
Proof.
  induction n as [|n [IHe IHv]].
  { split; [intros e H; destruct e; cbn in H; lia|].
    intros v H Hf. destruct v; cbn in Hf; try discriminate; cbn in H; try lia. destruct e; cbn in H; lia. }
  assert (HE : forall e, esize e <= S n -> has_fb e = true -> missing fns e = true).
  { intros [l op r b f] H Hf. cbn in H.
    change (has_fb (E l op r b f)) with ((match op with Fuzzy | Boost => true | _ => false end) || vhas_fb l || vhas_fb r) in Hf.
    change (missing fns (E l op r b f)) with ((match fns op with None => true | Some _ => false end) || vmissing fns l || vmissing fns r).
    apply orb_true_iff in Hf. destruct Hf as [Hf|Hf]; [apply orb_true_iff in Hf; destruct Hf as [Hf|Hf]|].
    - destruct op; try discriminate; reflexivity.
    - rewrite (IHv l) by (lia || exact Hf). rewrite orb_true_r. reflexivity.
    - rewrite (IHv r) by (lia || exact Hf). rewrite !orb_true_r. reflexivity. }
  split; [exact HE|].
  intros v H Hf. destruct v; try discriminate.
  - cbn in H. apply HE; assumption.
  - assert (L1 : forall x xs, vmissing fns (VList (x :: xs)) = missing fns x || vmissing fns (VList xs)) by reflexivity.
    assert (L2 : forall x xs, vhas_fb (VList (x :: xs)) = has_fb x || vhas_fb (VList xs)) by reflexivity.
    assert (L3 : forall x xs, vsize (VList (x :: xs)) = esize x + vsize (VList xs)) by (intros; cbn; lia).
    induction l as [|x xs IHl]; [discriminate|].
    rewrite L1. rewrite L2 in Hf. rewrite L3 in H. apply orb_true_iff in Hf. destruct Hf as [Hf|Hf].
    + rewrite (HE x) by (lia || exact Hf). reflexivity.
    + rewrite IHl by (lia || exact Hf). apply orb_true_r.
  - assert (L1 : vmissing fns (VBound v1 v2 incl) = vmissing fns v1 || vmissing fns v2) by reflexivity.
    assert (L2 : vhas_fb (VBound v1 v2 incl) = vhas_fb v1 || vhas_fb v2) by reflexivity.
    cbn in H. rewrite L1. rewrite L2 in Hf. apply orb_true_iff in Hf. destruct Hf as [Hf|Hf].
    + rewrite (IHv v1) by (lia || exact Hf). reflexivity.
    + rewrite (IHv v2) by (lia || exact Hf). apply orb_true_r.
Qed.

Theorem fuzzy_boost_unsupported e : has_fb e = true -> forall s, render o2 e <> Ret (s, None).
Proof.
  intros H s. rewrite render_is_fold. apply missing_fails.
  exact (proj1 (has_fb_missing_sz (esize e)) e (le_n _) H).
Qed.

End F.
