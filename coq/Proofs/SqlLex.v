(* C02 / C03: PostgreSQL's scanner (PgModel.next / lex_all / pg_lex) on the TEXT the renderer writes for a tree of the
   filterable fragment: it produces exactly the token sequence Spec/SqlFrag.tr assigns to the tree. First half: one lemma per
   kind of token, each saying what `next` reads from the front of a text and what it leaves. *)
Require Import Parser ParserShape Render PgModel QuerySem SqlFrag.
Require PgQuote PgIdent.
Require Import Decimal.
From Coq Require Import List Ascii String NArith ZArith Bool Arith Lia.
Import ListNotations.
Open Scope string_scope.
Open Scope nat_scope.

(* what may follow a token in rendered SQL: the end, a closing parenthesis, a comma, or one blank followed by a non-blank *)
Definition bnd (rest : bytes) : Prop :=
  rest = [] \/ (exists r, rest = ")"%char :: r) \/ (exists r, rest = ","%char :: r) \/
  (exists c r, rest = " "%char :: c :: r /\ is_space c = false).

Lemma bnd_not c rest : bnd (c :: rest) -> c = ")"%char \/ c = ","%char \/ c = " "%char.
Proof. intros [H|[[r H]|[[r H]|[c2 [r [H _]]]]]]; inversion H; auto. Qed.

Lemma bnd_no_newline rest : bnd rest -> has_newline rest = false.
Proof.
  intros [->|[[r ->]|[[r ->]|[c [r [-> Hc]]]]]]; try reflexivity.
  cbn [has_newline]. change (is_space " "%char) with true. cbv iota. change (is_c " "%char 10 || is_c " "%char 13) with false. cbn [orb].
  cbn [has_newline]. rewrite Hc. reflexivity.
Qed.

Lemma next_blank s : next (" "%char :: s) = next s.
Proof. reflexivity. Qed.

(* punctuation *)
Lemma next_lp s : next ("("%char :: s) = Some (TLP, s). Proof. reflexivity. Qed.
Lemma next_rp s : next (")"%char :: s) = Some (TRP, s). Proof. reflexivity. Qed.
Lemma next_comma s : next (","%char :: s) = Some (TComma, s). Proof. reflexivity. Qed.

(* a quoted identifier of at most 63 bytes *)
Lemma next_ident c0 v rest : forallb (fun c => negb (Ascii.eqb c """"%char)) (c0 :: v) = true -> List.length (c0 :: v) <= 63 ->
  bnd rest -> next (""""%char :: (c0 :: v) ++ """"%char :: rest)%list = Some (TIdent (c0 :: v), rest).
Proof.
  intros Hv Hl Hb. rewrite PgIdent.ident_roundtrip; [|exact Hv|].
  - unfold truncate_ident. apply Nat.leb_le in Hl. rewrite Hl. reflexivity.
  - destruct rest as [|c r]; [exact I|]. destruct (bnd_not c r Hb) as [->|[->| ->]]; reflexivity.
Qed.

(* a string constant *)
Lemma next_str v rest : bnd rest -> next ("'"%char :: PgQuote.double v ++ "'"%char :: rest)%list = Some (TStr v, rest).
Proof.
  intros Hb. apply PgQuote.sq_roundtrip; [|apply bnd_no_newline; exact Hb].
  destruct rest as [|c r]; [exact I|]. destruct (bnd_not c r Hb) as [->|[->| ->]]; reflexivity.
Qed.

(* ---- numbers ---- *)
Lemma is_c_digit c k : is_digit c = true -> k < 48 \/ 57 < k -> is_c c k = false.
Proof.
  unfold is_digit, is_c. intros H K. apply andb_true_iff in H. destruct H as [H1 H2].
  apply Nat.leb_le in H1, H2. apply Nat.eqb_neq. lia.
Qed.
Lemma digit_not_space c : is_digit c = true -> is_space c = false.
Proof. intros H. unfold is_space. rewrite !(is_c_digit c _ H) by lia. reflexivity. Qed.

Lemma span_all p : forall d rest acc, forallb p d = true -> (match rest with c :: _ => p c = false | [] => True end) ->
  span p (d ++ rest)%list acc = ((rev acc ++ d)%list, rest).
Proof.
  induction d as [|c d IH]; intros rest acc Hd Hr.
  - cbn [app]. destruct rest as [|c r]; cbn [span]; [rewrite app_nil_r; reflexivity|]. rewrite Hr, app_nil_r. reflexivity.
  - cbn [forallb] in Hd. apply andb_true_iff in Hd. destruct Hd as [Hc Hd]. cbn [app span]. rewrite Hc.
    rewrite (IH rest (c :: acc) Hd Hr). cbn [rev]. rewrite <- app_assoc. reflexivity.
Qed.

Lemma bnd_first_not p rest : bnd rest -> p ")"%char = false -> p ","%char = false -> p " "%char = false ->
  match rest with c :: _ => p c = false | [] => True end.
Proof. intros Hb H1 H2 H3. destruct rest as [|c r]; [exact I|]. destruct (bnd_not c r Hb) as [->|[->| ->]]; assumption. Qed.

Lemma next_num c d rest : forallb is_digit (c :: d) = true -> bnd rest -> next ((c :: d) ++ rest)%list = Some (TNum (c :: d), rest).
Proof.
  intros Hd Hb. pose proof Hd as Hd0. cbn [forallb] in Hd0. apply andb_true_iff in Hd0. destruct Hd0 as [Hc _].
  unfold next. cbn [app skip_ws]. rewrite (digit_not_space c Hc).
  rewrite !(is_c_digit c _ Hc) by lia. rewrite Hc. cbn [orb].
  change (c :: d ++ rest)%list with ((c :: d) ++ rest)%list.
  rewrite (span_all is_digit (c :: d) rest [] Hd (bnd_first_not is_digit rest Hb eq_refl eq_refl eq_refl)). cbn [rev app].
  destruct rest as [|c2 r2]; [lazy -[app]; rewrite ?app_nil_r; reflexivity|].
  destruct (bnd_not c2 r2 Hb) as [->|[->| ->]]; lazy -[app]; rewrite ?app_nil_r; reflexivity.
Qed.

(* ---- operators and keywords, as the renderer spells them ---- *)
Lemma next_op_eq r : next (str " = " ++ r)%list = Some (TOp (str "="), " "%char :: r). Proof. reflexivity. Qed.
Lemma next_op_gt r : next (str " > " ++ r)%list = Some (TOp (str ">"), " "%char :: r). Proof. reflexivity. Qed.
Lemma next_op_lt r : next (str " < " ++ r)%list = Some (TOp (str "<"), " "%char :: r). Proof. reflexivity. Qed.
Lemma next_op_ge r : next (str " >= " ++ r)%list = Some (TOp (str ">="), " "%char :: r). Proof. reflexivity. Qed.
Lemma next_op_le r : next (str " <= " ++ r)%list = Some (TOp (str "<="), " "%char :: r). Proof. reflexivity. Qed.

Lemma next_and r : next (str " AND " ++ r)%list = Some (TKw KAnd, " "%char :: r).
Proof. destruct r; reflexivity. Qed.
Lemma next_or r : next (str " OR " ++ r)%list = Some (TKw KOr, " "%char :: r).
Proof. destruct r; reflexivity. Qed.
Lemma next_not r : next (str "NOT(" ++ r)%list = Some (TKw KNot, "("%char :: r).
Proof. destruct r; reflexivity. Qed.
Lemma next_similar r : next (str " SIMILAR TO " ++ r)%list = Some (TKw KSimilar, (str " TO " ++ r)%list).
Proof. reflexivity. Qed.
Lemma next_to r : next (str " TO " ++ r)%list = Some (TKw KTo, " "%char :: r).
Proof. destruct r; reflexivity. Qed.
Lemma next_in r : next (str " IN (" ++ r)%list = Some (TKw KIn, (str " (" ++ r)%list).
Proof. reflexivity. Qed.

Lemma op_char_digit c : is_digit c = true -> is_op_char c = false.
Proof. intros H. unfold is_op_char. cbn [existsb]. rewrite !(is_c_digit c _ H) by lia. reflexivity. Qed.

Lemma next_minus c t : is_digit c = true -> next ("-"%char :: c :: t) = Some (TOp (str "-"), c :: t).
Proof.
  intros H.
  assert (E : span is_op_char ("-"%char :: c :: t) [] = (["-"%char], c :: t)).
  { cbn [span]. change (is_op_char "-"%char) with true. cbv iota. rewrite (op_char_digit c H). reflexivity. }
  unfold next. lazy -[span is_op_char]. rewrite E. reflexivity.
Qed.

(* ================= second half: the text of a fragment tree, as bytes, and its tokens ================= *)
Notation dq := """"%char.
Notation sqc := "'"%char.

Definition bdq (f : string) : bytes := (dq :: str f ++ [dq])%list.
Definition bsq (v : string) : bytes := (sqc :: PgQuote.double (str v) ++ [sqc])%list.
Definition bint (z : Z) : bytes := if (z <? 0)%Z then "-"%char :: nat_digits (- z) else nat_digits z.
Definition const_b (lf : Parser.expr) : bytes :=
  match lf with
  | E (VInt z) _ _ _ _ => bint z
  | E (VStr s) _ _ _ _ => bsq s
  | _ => []
  end.
Fixpoint comma_b (l : list bytes) : bytes :=
  match l with [] => [] | [x] => x | x :: r => (x ++ str ", " ++ comma_b r)%list end.

Fixpoint btxt (e : Parser.expr) : bytes :=
  match e with
  | E l op rt _ _ =>
    match op with
    | And => ("("%char :: btxt_v l ++ str ") AND (" ++ btxt_v rt ++ [")"%char])%list
    | Or => ("("%char :: btxt_v l ++ str ") OR (" ++ btxt_v rt ++ [")"%char])%list
    | Not | MustNot => (str "NOT(" ++ btxt_v l ++ [")"%char])%list
    | Must => btxt_v l
    | Equals => (bdq (fname l) ++ str " = " ++ match rt with VExp lf => const_b lf | _ => [] end)%list
    | Greater => (bdq (fname l) ++ str " > " ++ match rt with VExp lf => const_b lf | _ => [] end)%list
    | Less => (bdq (fname l) ++ str " < " ++ match rt with VExp lf => const_b lf | _ => [] end)%list
    | GreaterEq => (bdq (fname l) ++ str " >= " ++ match rt with VExp lf => const_b lf | _ => [] end)%list
    | LessEq => (bdq (fname l) ++ str " <= " ++ match rt with VExp lf => const_b lf | _ => [] end)%list
    | Like => (bdq (fname l) ++ str " SIMILAR TO " ++ match rt with VExp (E (VStr p) _ _ _ _) => bsq (translate p) | _ => [] end)%list
    | Tables.In => (bdq (fname l) ++ str " IN (" ++ match rt with VExp (E (VList lits) _ _ _ _) => comma_b (map const_b lits) | _ => [] end ++ [")"%char])%list
    | Range =>
        match rt with
        | VBound lo hi incl =>
            match int_bound lo, int_bound hi with
            | Some a, Some b => (bdq (fname l) ++ str (if incl then " >= " else " > ") ++ bint a ++ str " AND " ++ bdq (fname l) ++ str (if incl then " <= " else " < ") ++ bint b)%list
            | None, Some b => (bdq (fname l) ++ str (if incl then " <= " else " < ") ++ bint b)%list
            | Some a, None => (bdq (fname l) ++ str (if incl then " >= " else " > ") ++ bint a)%list
            | None, None => []
            end
        | _ => []
        end
    | _ => []
    end
  end
with btxt_v (v : value) : bytes := match v with VExp e => btxt e | _ => [] end.

(* ---- stepping lex_all ---- *)
Lemma lex_step f s t r : next s = Some (t, r) -> lex_all (S f) s = t :: lex_all f r.
Proof. intros H. cbn [lex_all]. rewrite H. reflexivity. Qed.

Lemma bnd_blank c r : is_space c = false -> bnd (" "%char :: c :: r).
Proof. intros H. right. right. right. exists c, r. split; [reflexivity|exact H]. Qed.
Lemma bnd_rp r : bnd (")"%char :: r). Proof. right. left. exists r. reflexivity. Qed.
Lemma bnd_comma r : bnd (","%char :: r). Proof. right. right. left. exists r. reflexivity. Qed.

(* digits *)
Lemma digit_char (d : Z) : (0 <= d < 10)%Z -> is_digit (ascii_of_nat (48 + Z.to_nat d)) = true.
Proof.
  intros H. unfold is_digit, n. rewrite (digit_code d H). apply andb_true_iff. split; apply Nat.leb_le; lia.
Qed.
Lemma z_digits_digits : forall fuel (k : Z) acc, forallb is_digit (los acc) = true -> forallb is_digit (los (z_digits fuel k acc)) = true.
Proof.
  induction fuel as [|f IH]; intros k acc H; [exact H|]. cbn [z_digits].
  assert (D : forallb is_digit (los (String (ascii_of_nat (48 + Z.to_nat (k mod 10))) acc)) = true).
  { change (los (String (ascii_of_nat (48 + Z.to_nat (k mod 10))) acc)) with (ascii_of_nat (48 + Z.to_nat (k mod 10)) :: los acc).
    cbn [forallb]. rewrite H, andb_true_r. apply digit_char. apply Z.mod_pos_bound. lia. }
  destruct (k / 10 =? 0)%Z; [exact D|apply IH; exact D].
Qed.
Lemma z_digits_nonempty : forall fuel (k : Z) acc, 0 < fuel -> los (z_digits fuel k acc) <> [].
Proof.
  induction fuel as [|f IH]; intros k acc Hf; [lia|]. cbn [z_digits].
  destruct (k / 10 =? 0)%Z; [discriminate|].
  destruct f as [|f']; [cbn [z_digits]; discriminate|]. apply IH. lia.
Qed.
Lemma nat_digits_shape k : exists c d, nat_digits k = c :: d /\ forallb is_digit (c :: d) = true.
Proof.
  unfold nat_digits. change (str (z_digits 30 k "")) with (los (z_digits 30 k "")).
  pose proof (z_digits_digits 30 k "" eq_refl) as H. pose proof (z_digits_nonempty 30 k "" ltac:(lia)) as N.
  destruct (los (z_digits 30 k "")) as [|c d]; [contradiction|]. exists c, d. split; [reflexivity|exact H].
Qed.

(* an integer constant *)
Lemma lex_int z rest f : bnd rest ->
  lex_all (List.length (int_toks z) + f) (bint z ++ rest)%list = (int_toks z ++ lex_all f rest)%list.
Proof.
  intros Hb. unfold bint, int_toks. destruct (z <? 0)%Z.
  - destruct (nat_digits_shape (- z)) as [c [d [E D]]]. rewrite E. cbn [List.length Nat.add app].
    pose proof D as D0. cbn [forallb] in D0. apply andb_true_iff in D0. destruct D0 as [Hc _].
    rewrite (lex_step _ _ _ _ (next_minus c (d ++ rest) Hc)).
    change (c :: d ++ rest)%list with ((c :: d) ++ rest)%list. rewrite (lex_step _ _ _ _ (next_num c d rest D Hb)). reflexivity.
  - destruct (nat_digits_shape z) as [c [d [E D]]]. rewrite E. cbn [List.length Nat.add app].
    change (c :: d ++ rest)%list with ((c :: d) ++ rest)%list. rewrite (lex_step _ _ _ _ (next_num c d rest D Hb)). reflexivity.
Qed.

(* any constant of the fragment *)
Lemma lex_const lf tc ac rest f : const_sql lf = Some (tc, ac) -> bnd rest ->
  lex_all (List.length tc + f) (const_b lf ++ rest)%list = (tc ++ lex_all f rest)%list.
Proof.
  intros C Hb. destruct lf as [l op rt b fz]. destruct l; try discriminate; destruct op; try discriminate; destruct rt; try discriminate; cbn [const_sql] in C; inversion C; subst; cbn [const_b].
  - apply lex_int. exact Hb.
  - unfold bsq. cbn [List.length Nat.add app]. rewrite <- app_assoc. cbn [app].
    rewrite (lex_step _ _ _ _ (next_str (str s) rest Hb)). reflexivity.
Qed.

(* a quoted field name *)
Lemma lex_name fl rest f : name_ok fl = true -> bnd rest ->
  lex_all (S f) (bdq fl ++ rest)%list = TIdent (str fl) :: lex_all f rest.
Proof.
  unfold name_ok. intros H Hb. apply andb_true_iff in H. destruct H as [H H3]. apply andb_true_iff in H. destruct H as [H1 H2].
  destruct (str fl) as [|c0 v] eqn:E; [discriminate|]. unfold bdq. rewrite E. cbn [app]. rewrite <- app_assoc. cbn [app].
  apply lex_step. apply next_ident; [exact H2|apply Nat.leb_le; exact H3|exact Hb].
Qed.

(* ---- an algebra of texts and their tokens ----
   LX t ts: t lexes to ts whenever what follows is a boundary (bnd);  G t ts: t lexes to ts whatever follows (t ends in
   punctuation or in a blank that the next token skips);  gb g: g begins like a boundary *)
Definition LX (t : bytes) (ts : list tok) : Prop :=
  (forall rest f, bnd rest -> lex_all (List.length ts + f) (t ++ rest)%list = (ts ++ lex_all f rest)%list) /\ List.length ts <= List.length t.
Definition G (t : bytes) (ts : list tok) : Prop :=
  (forall rest f, lex_all (List.length ts + f) (t ++ rest)%list = (ts ++ lex_all f rest)%list) /\ List.length ts <= List.length t.
Definition gb (g : bytes) : Prop := forall r, bnd (g ++ r)%list.

Lemma lex_blank f s : lex_all f (" "%char :: s) = lex_all f s.
Proof. destruct f; [reflexivity|]. cbn [lex_all]. rewrite next_blank. reflexivity. Qed.

Lemma G_LX t ts : G t ts -> LX t ts. Proof. intros [H L]. split; [intros rest f _; apply H|exact L]. Qed.
Lemma G_app g1 t1 g2 t2 : G g1 t1 -> G g2 t2 -> G (g1 ++ g2)%list (t1 ++ t2)%list.
Proof.
  intros [H1 L1] [H2 L2]. split; [|rewrite !app_length; lia].
  intros rest f. rewrite app_length, <- Nat.add_assoc, <- !app_assoc. rewrite H1, H2. reflexivity.
Qed.
Lemma G_then_LX g tg t ts : G g tg -> LX t ts -> LX (g ++ t)%list (tg ++ ts)%list.
Proof.
  intros [H1 L1] [H2 L2]. split; [|rewrite !app_length; lia].
  intros rest f Hb. rewrite app_length, <- Nat.add_assoc, <- !app_assoc. rewrite H1, (H2 rest f Hb). reflexivity.
Qed.
Lemma LX_then_G t ts g tg : LX t ts -> gb g -> G g tg -> G (t ++ g)%list (ts ++ tg)%list.
Proof.
  intros [H1 L1] Hg [H2 L2]. split; [|rewrite !app_length; lia].
  intros rest f. rewrite app_length, <- Nat.add_assoc, <- !app_assoc. rewrite (H1 (g ++ rest)%list _ (Hg rest)), H2. reflexivity.
Qed.

(* glue *)
Lemma G1 s t r0 : (forall r, next (s ++ r)%list = Some (t, (r0 ++ r)%list)) -> (forall f r, lex_all f (r0 ++ r)%list = lex_all f r) -> 1 <= List.length s -> G s [t].
Proof. intros H B L. split; [|exact L]. intros rest f. cbn [List.length Nat.add app]. rewrite (lex_step _ _ _ _ (H rest)), B. reflexivity. Qed.
Lemma blank_skip f r : lex_all f ([" "%char] ++ r)%list = lex_all f r. Proof. apply lex_blank. Qed.
Lemma nil_skip f (r : bytes) : lex_all f ([] ++ r)%list = lex_all f r. Proof. reflexivity. Qed.

Lemma G_eq : G (str " = ") [TOp (str "=")]. Proof. apply (G1 _ _ [" "%char]); [apply next_op_eq|apply blank_skip|cbn; lia]. Qed.
Lemma G_gt : G (str " > ") [TOp (str ">")]. Proof. apply (G1 _ _ [" "%char]); [apply next_op_gt|apply blank_skip|cbn; lia]. Qed.
Lemma G_lt : G (str " < ") [TOp (str "<")]. Proof. apply (G1 _ _ [" "%char]); [apply next_op_lt|apply blank_skip|cbn; lia]. Qed.
Lemma G_ge : G (str " >= ") [TOp (str ">=")]. Proof. apply (G1 _ _ [" "%char]); [apply next_op_ge|apply blank_skip|cbn; lia]. Qed.
Lemma G_le : G (str " <= ") [TOp (str "<=")]. Proof. apply (G1 _ _ [" "%char]); [apply next_op_le|apply blank_skip|cbn; lia]. Qed.
Lemma G_and : G (str " AND ") [TKw KAnd]. Proof. apply (G1 _ _ [" "%char]); [apply next_and|apply blank_skip|cbn; lia]. Qed.
Lemma G_or : G (str " OR ") [TKw KOr]. Proof. apply (G1 _ _ [" "%char]); [apply next_or|apply blank_skip|cbn; lia]. Qed.
Lemma G_lp : G ["("%char] [TLP]. Proof. apply (G1 _ _ []); [apply next_lp|apply nil_skip|cbn; lia]. Qed.
Lemma G_rp : G [")"%char] [TRP]. Proof. apply (G1 _ _ []); [apply next_rp|apply nil_skip|cbn; lia]. Qed.
Lemma G_comma : G (str ", ") [TComma]. Proof. apply (G1 _ _ [" "%char]); [intros r; apply next_comma|apply blank_skip|cbn; lia]. Qed.
Lemma G_not : G (str "NOT(") [TKw KNot; TLP].
Proof. split; [|cbn; lia]. intros rest f. cbn [List.length Nat.add app]. rewrite (lex_step _ _ _ _ (next_not rest)), (lex_step _ _ _ _ (next_lp rest)). reflexivity. Qed.
Lemma G_similar : G (str " SIMILAR TO ") [TKw KSimilar; TKw KTo].
Proof. split; [|cbn; lia]. intros rest f. cbn [List.length Nat.add]. rewrite (lex_step _ _ _ _ (next_similar rest)), (lex_step _ _ _ _ (next_to rest)), lex_blank. reflexivity. Qed.
Lemma G_in : G (str " IN (") [TKw KIn; TLP].
Proof. split; [|cbn; lia]. intros rest f. cbn [List.length Nat.add]. rewrite (lex_step _ _ _ _ (next_in rest)). change (str " (" ++ rest)%list with (" "%char :: "("%char :: rest). rewrite lex_blank, (lex_step _ _ _ _ (next_lp rest)). reflexivity. Qed.
Lemma G_rp_and_lp : G (str ") AND (") [TRP; TKw KAnd; TLP].
Proof. change (str ") AND (") with ([")"%char] ++ str " AND " ++ ["("%char])%list. apply (G_app _ [TRP] _ [TKw KAnd; TLP] G_rp). apply (G_app _ [TKw KAnd] _ [TLP] G_and G_lp). Qed.
Lemma G_rp_or_lp : G (str ") OR (") [TRP; TKw KOr; TLP].
Proof. change (str ") OR (") with ([")"%char] ++ str " OR " ++ ["("%char])%list. apply (G_app _ [TRP] _ [TKw KOr; TLP] G_rp). apply (G_app _ [TKw KOr] _ [TLP] G_or G_lp). Qed.

(* boundaries *)
Lemma gb_blank c g : is_space c = false -> gb (" "%char :: c :: g). Proof. intros H r. apply bnd_blank. exact H. Qed.
Lemma gb_rp g : gb (")"%char :: g). Proof. intros r. apply bnd_rp. Qed.
Lemma gb_comma g : gb (","%char :: g). Proof. intros r. apply bnd_comma. Qed.

(* atoms *)
Lemma LX_name fl : name_ok fl = true -> LX (bdq fl) [TIdent (str fl)].
Proof. intros H. split; [intros rest f Hb; apply (lex_name fl rest f H Hb)|unfold bdq; cbn [List.length]; lia]. Qed.
Lemma bint_length z : List.length (int_toks z) <= List.length (bint z).
Proof.
  unfold int_toks, bint. destruct (z <? 0)%Z.
  - destruct (nat_digits_shape (- z)) as [c [d [E _]]]. rewrite E. cbn. lia.
  - destruct (nat_digits_shape z) as [c [d [E _]]]. rewrite E. cbn. lia.
Qed.
Lemma LX_int z : LX (bint z) (int_toks z). Proof. split; [intros rest f Hb; apply lex_int; exact Hb|apply bint_length]. Qed.
Lemma LX_const lf tc ac : const_sql lf = Some (tc, ac) -> LX (const_b lf) tc.
Proof.
  intros C. split; [intros rest f Hb; apply (lex_const lf tc ac rest f C Hb)|].
  destruct lf as [l op rt b fz]. destruct l; try discriminate; destruct op; try discriminate; destruct rt; try discriminate; cbn [const_sql] in C; inversion C; subst; cbn [const_b].
  - apply bint_length.
  - unfold bsq. cbn. lia.
Qed.
Lemma LX_str v : LX (bsq v) [TStr (str v)].
Proof. split; [|unfold bsq; cbn; lia]. intros rest f Hb. unfold bsq. cbn [List.length Nat.add app]. rewrite <- app_assoc. cbn [app]. rewrite (lex_step _ _ _ _ (next_str (str v) rest Hb)). reflexivity. Qed.

Lemma LX_commas : forall l ts as_, consts_sql l = Some (ts, as_) -> l <> [] -> LX (comma_b (map const_b l)) (comma_join ts).
Proof.
  induction l as [|x l IH]; intros ts as_ C Ne; [contradiction|].
  cbn [consts_sql] in C. destruct (const_sql x) as [[t a]|] eqn:Cx; [|discriminate].
  destruct (consts_sql l) as [[ts' as']|] eqn:Cl; [|discriminate]. inversion C; subst; clear C.
  destruct l as [|y l'].
  - cbn in Cl. inversion Cl; subst. cbn [map comma_b comma_join]. apply (LX_const x t a Cx).
  - assert (exists t2 ts2, ts' = t2 :: ts2) as [t2 [ts2 ->]].
    { cbn in Cl. destruct (const_sql y) as [[ty ay]|]; [|discriminate]. destruct (consts_sql l') as [[a1 a2]|]; [|discriminate]. inversion Cl; eauto. }
    change (comma_join (t :: t2 :: ts2)) with (t ++ TComma :: comma_join (t2 :: ts2))%list.
    change (comma_b (map const_b (x :: y :: l'))) with (const_b x ++ str ", " ++ comma_b (map const_b (y :: l')))%list.
    replace (t ++ TComma :: comma_join (t2 :: ts2))%list with ((t ++ [TComma]) ++ comma_join (t2 :: ts2))%list by (rewrite <- app_assoc; reflexivity).
    rewrite app_assoc. apply G_then_LX.
    + apply LX_then_G; [apply (LX_const x t a Cx)|apply gb_comma|apply G_comma].
    + apply (IH (t2 :: ts2) as' eq_refl). discriminate.
Qed.

Definition optext (op : operator) : string :=
  match op with Equals => " = " | Greater => " > " | Less => " < " | GreaterEq => " >= " | LessEq => " <= " | _ => "" end.
Lemma G_optext op o : cmp_text op = Some o -> G (str (optext op)) [TOp (str o)] /\ gb (str (optext op)).
Proof.
  destruct op; cbn [cmp_text]; intros H; inversion H; subst; cbn [optext]; split; try (apply gb_blank; reflexivity).
  - apply G_eq.
  - apply G_gt.
  - apply G_lt.
  - apply G_ge.
  - apply G_le.
Qed.

Lemma LX_cmp fl op o lf tc ac : name_ok fl = true -> cmp_text op = Some o -> const_sql lf = Some (tc, ac) ->
  LX (bdq fl ++ str (optext op) ++ const_b lf)%list (TIdent (str fl) :: TOp (str o) :: tc).
Proof.
  intros Hn Ho C. destruct (G_optext op o Ho) as [Gop Bop].
  change (TIdent (str fl) :: TOp (str o) :: tc) with (([TIdent (str fl)] ++ [TOp (str o)]) ++ tc)%list. rewrite app_assoc.
  apply G_then_LX; [apply LX_then_G; [apply LX_name; exact Hn|exact Bop|exact Gop]|apply (LX_const lf tc ac C)].
Qed.

Lemma G_name_op fl (b : bool) s1 s2 o1 o2 : name_ok fl = true -> G (str s1) [TOp (str o1)] -> G (str s2) [TOp (str o2)] -> gb (str s1) -> gb (str s2) ->
  G (bdq fl ++ str (if b then s1 else s2))%list [TIdent (str fl); TOp (str (if b then o1 else o2))].
Proof.
  intros Hn G1' G2' B1 B2. change [TIdent (str fl); TOp (str (if b then o1 else o2))] with ([TIdent (str fl)] ++ [TOp (str (if b then o1 else o2))])%list.
  destruct b; (apply LX_then_G; [apply LX_name; exact Hn|assumption|assumption]).
Qed.

Theorem btxt_lexes_sz : forall n e, esize e <= n -> forall ts a, tr e = Some (ts, a) -> names_ok e = true -> LX (btxt e) ts.
Proof.
  induction n as [|n IH]; intros e Hn ts a T Nm; [destruct e; cbn in Hn; lia|].
  destruct e as [l op rt b fz]. cbn [esize] in Hn. cbn [tr] in T.
  destruct op; try discriminate.
  - (* And *)
    destruct l as [ |?|?|?|?|?|x|?|? ? ?]; try discriminate. destruct rt as [ |?|?|?|?|?|y|?|? ? ?]; try discriminate.
    destruct (tr x) as [[tx ax]|] eqn:Tx; [|discriminate]. destruct (tr y) as [[ty ay]|] eqn:Ty; [|discriminate].
    inversion T; subst; clear T. cbn [names_ok names_ok_v] in Nm. apply andb_true_iff in Nm. destruct Nm as [Nx Ny]. cbn [vsize] in Hn.
    cbn [btxt btxt_v]. apply G_LX.
    replace ("("%char :: btxt x ++ str ") AND (" ++ btxt y ++ [")"%char])%list with (["("%char] ++ (btxt x ++ str ") AND (") ++ (btxt y ++ [")"%char]))%list
      by (cbn [app]; rewrite <- !app_assoc; reflexivity).
    replace (TLP :: tx ++ TRP :: TKw KAnd :: TLP :: ty ++ [TRP])%list with ([TLP] ++ (tx ++ [TRP; TKw KAnd; TLP]) ++ (ty ++ [TRP]))%list
      by (cbn [app]; rewrite <- !app_assoc; reflexivity).
    apply (G_app _ _ _ _ G_lp). apply G_app.
    + apply LX_then_G; [apply (IH x ltac:(lia) tx ax Tx Nx)|apply gb_rp|apply G_rp_and_lp].
    + apply LX_then_G; [apply (IH y ltac:(lia) ty ay Ty Ny)|apply gb_rp|apply G_rp].
  - (* Or *)
    destruct l as [ |?|?|?|?|?|x|?|? ? ?]; try discriminate. destruct rt as [ |?|?|?|?|?|y|?|? ? ?]; try discriminate.
    destruct (tr x) as [[tx ax]|] eqn:Tx; [|discriminate]. destruct (tr y) as [[ty ay]|] eqn:Ty; [|discriminate].
    inversion T; subst; clear T. cbn [names_ok names_ok_v] in Nm. apply andb_true_iff in Nm. destruct Nm as [Nx Ny]. cbn [vsize] in Hn.
    cbn [btxt btxt_v]. apply G_LX.
    replace ("("%char :: btxt x ++ str ") OR (" ++ btxt y ++ [")"%char])%list with (["("%char] ++ (btxt x ++ str ") OR (") ++ (btxt y ++ [")"%char]))%list
      by (cbn [app]; rewrite <- !app_assoc; reflexivity).
    replace (TLP :: tx ++ TRP :: TKw KOr :: TLP :: ty ++ [TRP])%list with ([TLP] ++ (tx ++ [TRP; TKw KOr; TLP]) ++ (ty ++ [TRP]))%list
      by (cbn [app]; rewrite <- !app_assoc; reflexivity).
    apply (G_app _ _ _ _ G_lp). apply G_app.
    + apply LX_then_G; [apply (IH x ltac:(lia) tx ax Tx Nx)|apply gb_rp|apply G_rp_or_lp].
    + apply LX_then_G; [apply (IH y ltac:(lia) ty ay Ty Ny)|apply gb_rp|apply G_rp].
  - (* Equals *)
    destruct (field_of l) as [fl|] eqn:Fl; [|discriminate]. destruct rt as [ |?|?|?|?|?|lf|?|? ? ?]; try discriminate. cbn [cmp_text] in T.
    destruct (const_sql lf) as [[tc ac]|] eqn:C; [|discriminate]. inversion T; subst; clear T.
    cbn [names_ok] in Nm. unfold fname in Nm. rewrite Fl in Nm. cbn [btxt]. unfold fname. rewrite Fl.
    apply (LX_cmp fl Equals "=" lf tc ac Nm eq_refl C).
  - (* Like *)
    destruct (field_of l) as [fl|] eqn:Fl; [|discriminate]. destruct rt as [ |?|?|?|?|?|p|?|? ? ?]; try discriminate. destruct p as [l2 op2 r2 b2 f2].
    destruct l2; try discriminate; destruct op2; try discriminate; destruct r2; try discriminate.
    inversion T; subst; clear T. cbn [names_ok] in Nm. unfold fname in Nm. rewrite Fl in Nm. cbn [btxt]. unfold fname. rewrite Fl.
    change [TIdent (str fl); TKw KSimilar; TKw KTo; TStr (str (translate s))] with (([TIdent (str fl)] ++ [TKw KSimilar; TKw KTo]) ++ [TStr (str (translate s))])%list.
    rewrite app_assoc. apply G_then_LX; [apply LX_then_G; [apply LX_name; exact Nm|apply gb_blank; reflexivity|apply G_similar]|apply LX_str].
  - (* Not *)
    destruct l as [ |?|?|?|?|?|x|?|? ? ?]; try discriminate. destruct rt; try discriminate.
    destruct (tr x) as [[tx ax]|] eqn:Tx; [|discriminate]. inversion T; subst; clear T. cbn [names_ok names_ok_v] in Nm. cbn [vsize] in Hn.
    cbn [btxt btxt_v]. apply G_LX.
    change (TKw KNot :: TLP :: tx ++ [TRP])%list with ([TKw KNot; TLP] ++ (tx ++ [TRP]))%list.
    apply (G_app _ _ _ _ G_not). apply LX_then_G; [apply (IH x ltac:(lia) tx ax Tx Nm)|apply gb_rp|apply G_rp].
  - (* Range *)
    destruct (field_of l) as [fl|] eqn:Fl; [|discriminate]. destruct rt as [ |?|?|?|?|?|?|?|lo hi incl]; try discriminate. cbv zeta in T.
    cbn [names_ok] in Nm. unfold fname in Nm. rewrite Fl in Nm. cbn [btxt]. unfold fname. rewrite Fl.
    destruct (int_bound lo) as [a0|] eqn:Ba; destruct (int_bound hi) as [b0|] eqn:Bb.
    + assert (T' : ts = ((([TIdent (str fl); TOp (str (if incl then ">=" else ">"))] ++ (int_toks a0 ++ [TKw KAnd])) ++ [TIdent (str fl); TOp (str (if incl then "<=" else "<"))]) ++ int_toks b0)%list)
        by (destruct (is_star lo), (is_star hi); inversion T; cbn [app]; rewrite <- !app_assoc; reflexivity).
      subst ts.
      replace (bdq fl ++ str (if incl then " >= " else " > ") ++ bint a0 ++ str " AND " ++ bdq fl ++ str (if incl then " <= " else " < ") ++ bint b0)%list
        with ((((bdq fl ++ str (if incl then " >= " else " > ")) ++ (bint a0 ++ str " AND ")) ++ (bdq fl ++ str (if incl then " <= " else " < "))) ++ bint b0)%list
        by (rewrite <- !app_assoc; reflexivity).
      apply G_then_LX; [|apply LX_int]. apply G_app; [apply G_app|].
      * apply (G_name_op fl incl " >= " " > " ">=" ">" Nm G_ge G_gt); apply gb_blank; reflexivity.
      * apply LX_then_G; [apply LX_int|apply gb_blank; reflexivity|apply G_and].
      * apply (G_name_op fl incl " <= " " < " "<=" "<" Nm G_le G_lt); apply gb_blank; reflexivity.
    + assert (T' : ts = ([TIdent (str fl); TOp (str (if incl then ">=" else ">"))] ++ int_toks a0)%list)
        by (destruct (is_star lo), (is_star hi); inversion T; reflexivity).
      subst ts. rewrite app_assoc. apply G_then_LX; [|apply LX_int].
      apply (G_name_op fl incl " >= " " > " ">=" ">" Nm G_ge G_gt); apply gb_blank; reflexivity.
    + assert (T' : ts = ([TIdent (str fl); TOp (str (if incl then "<=" else "<"))] ++ int_toks b0)%list)
        by (destruct (is_star lo), (is_star hi); inversion T; reflexivity).
      subst ts. rewrite app_assoc. apply G_then_LX; [|apply LX_int].
      apply (G_name_op fl incl " <= " " < " "<=" "<" Nm G_le G_lt); apply gb_blank; reflexivity.
    + destruct (is_star lo), (is_star hi); discriminate.
  - (* Must *)
    destruct l as [ |?|?|?|?|?|x|?|? ? ?]; try discriminate. destruct rt; try discriminate.
    cbn [names_ok names_ok_v] in Nm. cbn [vsize] in Hn. cbn [btxt btxt_v]. apply (IH x ltac:(lia) ts a T Nm).
  - (* MustNot *)
    destruct l as [ |?|?|?|?|?|x|?|? ? ?]; try discriminate. destruct rt; try discriminate.
    destruct (tr x) as [[tx ax]|] eqn:Tx; [|discriminate]. inversion T; subst; clear T. cbn [names_ok names_ok_v] in Nm. cbn [vsize] in Hn.
    cbn [btxt btxt_v]. apply G_LX.
    change (TKw KNot :: TLP :: tx ++ [TRP])%list with ([TKw KNot; TLP] ++ (tx ++ [TRP]))%list.
    apply (G_app _ _ _ _ G_not). apply LX_then_G; [apply (IH x ltac:(lia) tx ax Tx Nm)|apply gb_rp|apply G_rp].
  - (* Greater *)
    destruct (field_of l) as [fl|] eqn:Fl; [|discriminate]. destruct rt as [ |?|?|?|?|?|lf|?|? ? ?]; try discriminate. cbn [cmp_text] in T.
    destruct (const_sql lf) as [[tc ac]|] eqn:C; [|discriminate]. inversion T; subst; clear T.
    cbn [names_ok] in Nm. unfold fname in Nm. rewrite Fl in Nm. cbn [btxt]. unfold fname. rewrite Fl.
    apply (LX_cmp fl Greater ">" lf tc ac Nm eq_refl C).
  - (* Less *)
    destruct (field_of l) as [fl|] eqn:Fl; [|discriminate]. destruct rt as [ |?|?|?|?|?|lf|?|? ? ?]; try discriminate. cbn [cmp_text] in T.
    destruct (const_sql lf) as [[tc ac]|] eqn:C; [|discriminate]. inversion T; subst; clear T.
    cbn [names_ok] in Nm. unfold fname in Nm. rewrite Fl in Nm. cbn [btxt]. unfold fname. rewrite Fl.
    apply (LX_cmp fl Less "<" lf tc ac Nm eq_refl C).
  - (* GreaterEq *)
    destruct (field_of l) as [fl|] eqn:Fl; [|discriminate]. destruct rt as [ |?|?|?|?|?|lf|?|? ? ?]; try discriminate. cbn [cmp_text] in T.
    destruct (const_sql lf) as [[tc ac]|] eqn:C; [|discriminate]. inversion T; subst; clear T.
    cbn [names_ok] in Nm. unfold fname in Nm. rewrite Fl in Nm. cbn [btxt]. unfold fname. rewrite Fl.
    apply (LX_cmp fl GreaterEq ">=" lf tc ac Nm eq_refl C).
  - (* LessEq *)
    destruct (field_of l) as [fl|] eqn:Fl; [|discriminate]. destruct rt as [ |?|?|?|?|?|lf|?|? ? ?]; try discriminate. cbn [cmp_text] in T.
    destruct (const_sql lf) as [[tc ac]|] eqn:C; [|discriminate]. inversion T; subst; clear T.
    cbn [names_ok] in Nm. unfold fname in Nm. rewrite Fl in Nm. cbn [btxt]. unfold fname. rewrite Fl.
    apply (LX_cmp fl LessEq "<=" lf tc ac Nm eq_refl C).
  - (* In *)
    destruct (field_of l) as [fl|] eqn:Fl; [|discriminate]. destruct rt as [ |?|?|?|?|?|p|?|? ? ?]; try discriminate. destruct p as [l2 op2 r2 b2 f2].
    destruct l2 as [ |?|?|?|?|?|?|lits|? ? ?]; try discriminate. destruct lits as [|x lits]; try discriminate.
    destruct op2; try discriminate; destruct r2; try discriminate.
    destruct (consts_sql (x :: lits)) as [[cts cas]|] eqn:C; [|discriminate]. inversion T; subst; clear T.
    cbn [names_ok] in Nm. unfold fname in Nm. rewrite Fl in Nm. cbn [btxt]. unfold fname. rewrite Fl.
    apply G_LX.
    replace (TIdent (str fl) :: TKw KIn :: TLP :: comma_join cts ++ [TRP])%list with (([TIdent (str fl)] ++ [TKw KIn; TLP]) ++ (comma_join cts ++ [TRP]))%list
      by (cbn [app]; reflexivity).
    rewrite app_assoc. apply G_app.
    + apply LX_then_G; [apply LX_name; exact Nm|apply gb_blank; reflexivity|apply G_in].
    + apply LX_then_G; [apply (LX_commas (x :: lits) cts cas C); discriminate|apply gb_rp|apply G_rp].
Qed.

Lemma lex_all_nil f : lex_all (S f) [] = []. Proof. reflexivity. Qed.

(* the scanner on the whole text *)
Theorem btxt_pg_lex e ts a : tr e = Some (ts, a) -> names_ok e = true -> pg_lex (btxt e) = ts.
Proof.
  intros T Nm. destruct (btxt_lexes_sz (esize e) e (le_n _) ts a T Nm) as [H L]. unfold pg_lex.
  replace (S (List.length (btxt e))) with (List.length ts + S (List.length (btxt e) - List.length ts)) by lia.
  rewrite <- (app_nil_r (btxt e)) at 2. rewrite (H [] _ (or_introl eq_refl)). rewrite lex_all_nil, app_nil_r. reflexivity.
Qed.
