(* C12 — JSON encoding of expressions round-trips.  (leaf level and totality; see DESIGN 6/C12) *)
Require Import Parser Render Decode Shape.
Require Import RenderTotal RenderMarshal RenderNum DecodeLeaf TablesTie Cst Inferable JsonRoundTripB.
Require Api Lex ParserShape2.
From Coq Require Import List String Ascii ZArith.

(* MarshalJSON returns (bytes or an error) on every tree whatsoever *)
Theorem C12_encode_returns : forall (o2 : oracle2) (e : expr), is_ret (marshal_e o2 e).
Proof. exact marshal_total. Qed.

(* integers survive: Atoi (Itoa z) = z on all of int64, hence an integer leaf decodes to the same leaf *)
Theorem C12_atoi_itoa : forall z : Z, (-9223372036854775808 <= z <= 9223372036854775807)%Z -> atoi (z_to_string z) = Some z.
Proof. exact atoi_itoa. Qed.
Theorem C12_int_leaf_roundtrip : forall (o : oracle) (z : Z), (-9223372036854775808 <= z <= 9223372036854775807)%Z ->
  unmarshal_literal o (JNum (z_to_string z)) = DOk (lit (VInt z)).
Proof. exact leaf_int_roundtrip. Qed.

(* a JSON string is never taken for a number whatever it contains (5, 1e6, NaN written between quotes); it comes back as the same
   plain literal unless it reads as a pattern or /regexp/ (the listed exception). Oracle fact: ParseFloat rejects a text that
   starts with a double quote *)
Theorem C12_string_leaf_roundtrip : forall o : oracle,
  (forall r : string, parse_float o (String """"%char r) = None) ->
  forall raw s : string, plain_text s = true -> unmarshal_literal o (JStr (String """"%char raw) s) = DOk (lit (VStr s)).
Proof. exact leaf_string_roundtrip. Qed.

(* the whole tree: Spec/Cst.v cst_e e is the JSON syntax tree of what MarshalJSON writes for e (compared with the implementation's
   bytes on every case by the driver); Spec/Inferable.v ki_b is the executable form of "each leaf has the kind the decoder infers
   from its text" for trees of the parser's output shape. For every such tree, decoding the encoder's output gives back the
   tree itself. Hypotheses (facts about encoding/json, strconv and the library's textual boundary heuristic on the encoder's OWN
   output; the third is checked per case by the correspondence): a JSON string's raw text starts with a double quote; ParseFloat
   rejects a text that starts with one; looksLikeRangeBoundary says yes exactly on the encoder's boundary objects *)
Theorem C12_decode_encode_roundtrip : forall (o : oracle) (o2 : oracle2),
  (forall s, exists r, json_str o2 s = String """"%char r) -> (forall r, parse_float o (String """"%char r) = None) ->
  (forall v, looks_like_boundary (cst_v o2 v) = is_bound v) ->
  forall e, ki_b o o2 e = true -> decode o (cst_e o2 e) = DOk e.
Proof. exact inferable_roundtrip. Qed.

(* operator names: toString and fromString (generated from operator.go) are mutually inverse on the 19 operators, and the
   decoder's lookup is fromString *)
Theorem C12_operator_names_roundtrip : forall op s, assoc_op op to_string = Some s -> assoc_str s from_string = Some op.
Proof. exact from_to_string_inverse. Qed.
Theorem C12_operator_names_total : forall op, op <> Undefined -> assoc_op op to_string = Some (op_string op).
Proof. exact to_string_tie. Qed.
Theorem C12_decoder_uses_from_string : forall s, op_of_string s = match assoc_str s from_string with Some op => op | None => Undefined end.
Proof. exact op_of_string_tie. Qed.


(* the property in its own words, for every expression Parse returns whose leaves have the kind the decoder infers: decoding the
   encoder's output succeeds and gives an expression that validates, re-encodes to the same bytes, prints identically (String and
   %#v), renders identical inline and parameterized SQL - because it IS the original expression (deep equality). Composition of the
   round-trip theorem with C10 (a Parse result validates). Same three hypotheses on encoding/json, strconv and the boundary
   heuristic as above. *)
Theorem C12_parse_result_round_trips_with_all_observables : forall (o : oracle) (o2 : oracle2) (cl : Lex.classes),
  (forall s, exists r, json_str o2 s = String """"%char r) -> (forall r, parse_float o (String """"%char r) = None) ->
  (forall v, looks_like_boundary (cst_v o2 v) = is_bound v) ->
  forall (df s : string) (e : expr), Api.parse o cl df s = PTree e -> ki_b o o2 e = true ->
  exists d : expr, decode o (cst_e o2 e) = DOk d /\ d = e /\ validate d = true /\
    marshal_e o2 d = marshal_e o2 e /\ str_e o2 false d = str_e o2 false e /\ str_e o2 true d = str_e o2 true e /\
    render o2 d = render o2 e /\ render_param o2 d = render_param o2 e.
Proof.
  intros o o2 cl H1 H2 H3 df s e P K. exists e.
  split; [exact (inferable_roundtrip o o2 H1 H2 H3 e K)|]. split; [reflexivity|].
  split; [exact (proj2 (ParserShape2.parse_wf o df (Api.lex_tokens cl s) e P))|]. repeat split; reflexivity.
Qed.

Print Assumptions C12_encode_returns.
Print Assumptions C12_decode_encode_roundtrip.
Print Assumptions C12_operator_names_roundtrip.
Print Assumptions C12_operator_names_total.
Print Assumptions C12_decoder_uses_from_string.
Print Assumptions C12_atoi_itoa.
Print Assumptions C12_int_leaf_roundtrip.
Print Assumptions C12_string_leaf_roundtrip.
Print Assumptions C12_parse_result_round_trips_with_all_observables.
