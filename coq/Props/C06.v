(* C06 — Every accepted query's tree is a derivation of the text that was typed. *)
Require Import Parser Api Shape Build.
Require Lex.
Require Import ParserLay.
From Coq Require Import List String Bool.

(* `Lay o df e toks` (Proofs/ParserLay.v) is the derivation relation of the documented grammar: one constructor per production
   (term, field:E, field=E, field:>E ..., field:[a TO b], (E), +E, -E, NOT E, E~, E~n, E^, E^n, E AND E, E OR E, juxtaposition,
   value list); each term token is exactly one leaf with its typed value (parse_literal), each operator token is consumed by
   exactly one node. Whenever Parse succeeds the returned tree lays over the consumed tokens, the rest being the end-of-input
   token; with a default field the root leaf is scoped. *)
Theorem C06_accepted_tree_is_a_derivation : forall (o : oracle) (cl : Lex.classes) (df s : string) (e' : expr),
  Api.parse o cl df s = PTree e' ->
  exists (e : expr) (consumed rest : list token),
    Lay o df e consumed /\ (consumed ++ rest)%list = Api.lex_tokens cl s /\
    e' = (if is_leaf_op (e_op e) && negb (String.eqb df "") then scw df e else e).
Proof. intros o cl df s e'. exact (C06_sound o df (Api.lex_tokens cl s) e'). Qed.

Print Assumptions C06_accepted_tree_is_a_derivation.
