(* C08, quoting clause, end to end on the model: the chain tokens -> tree -> SQL text -> PostgreSQL scanner + grammar -> rows is closed
   here with ONE quoting function on both sides: the text the inline renderer writes for field : "w" is read back by the PostgreSQL
   model as the comparison of the column with the string constant w, whatever w contains (quotes, backslashes, SQL wildcards,
   comment openers, semicolons ...), and that comparison is true on exactly the rows whose field holds w; the parameterized renderer
   sends w as its only parameter and PostgreSQL reads the comparison of the column with parameter 1. *)
Require Import Parser ParserShape Render PgModel QuerySem SqlSem SqlFrag SqlFragP Shape Build Printer QuotePipeline EscapePipeline.
Require Import SqlParse SqlSemProof SqlSemProofP SqlEndToEnd SqlSucceeds SqlEndToEndP RenderParamTotal.
From Coq Require Import List Ascii String ZArith Bool Lia.
Import ListNotations.
Open Scope string_scope.

Section Q.
Variable o : oracle.
Variable o2 : oracle2.

Definition qtree (fs w : string) : Parser.expr := E (VExp (lit (VCol fs))) Equals (VExp (lit (VStr w))) one_bits 1%Z.
Definition qast (fs w : string) : ast := AOp (str "=") (ACol (str fs)) (AStr (str w)).

Lemma qtree_tr fs w : tr (qtree fs w) = Some ([TIdent (str fs); TOp (str "="); TStr (str w)], qast fs w).
Proof. reflexivity. Qed.

Theorem verbatim_value_reaches_postgres fs w :
  name_ok fs = true -> col_ok o2 fs = true -> lit_ok o2 (sqs w) = true ->
  exists s : string, render o2 (qtree fs w) = Ret (s, None) /\ pg_read (str s) = Some (qast fs w) /\
    forall r : row, ssem r [] (qast fs w) = qsem r (qtree fs w).
Proof.
  intros Nm Co Lo.
  assert (Lv : leaves_ok o2 (qtree fs w) = true).
  { cbn [leaves_ok qtree]. change (fname (VExp (lit (VCol fs)))) with fs. rewrite Co. cbn [bound_ok const_ok lit empty_e andb]. exact Lo. }
  assert (Nk : names_ok (qtree fs w) = true) by exact Nm.
  destruct (render_succeeds o2 (qtree fs w) _ _ (qtree_tr fs w) eq_refl Lv) as [s R]. exists s. split; [exact R|]. split.
  - exact (render_reads o2 (qtree fs w) _ _ s (qtree_tr fs w) eq_refl Nk R).
  - intros r. exact (tr_sem r [] (qtree fs w) _ _ (qtree_tr fs w) eq_refl).
Qed.

(* quoting: f : "w" *)
Theorem quoted_value_reaches_postgres ftok fs w :
  is_term_tok ftok = true -> parse_literal o ftok = lit (VStr fs) -> contains_char """"%char w = false ->
  name_ok fs = true -> col_ok o2 fs = true -> lit_ok o2 (sqs w) = true ->
  parse_toks o "" [ftok; colon_tok; quoted w; eof] = PTree (qtree fs w) /\
  exists s : string, render o2 (qtree fs w) = Ret (s, None) /\ pg_read (str s) = Some (qast fs w) /\
    forall r : row, ssem r [] (qast fs w) = qsem r (qtree fs w).
Proof.
  intros Hf Pf Hw Nm Co Lo. split; [exact (quoted_value_tree o ftok fs w Hf Pf Hw)|exact (verbatim_value_reaches_postgres fs w Nm Co Lo)].
Qed.

(* escaping: f : es, es an escaped spelling of w *)
Theorem escaped_value_reaches_postgres ftok fs es w :
  is_term_tok ftok = true -> parse_literal o ftok = lit (VStr fs) ->
  atoi es = None -> match parse_float o es with Some f => is_nan_or_inf o f = true | None => True end ->
  contains_char "*"%char es = false -> contains_char "?"%char es = false -> remove_char "\"%char es = w ->
  name_ok fs = true -> col_ok o2 fs = true -> lit_ok o2 (sqs w) = true ->
  parse_toks o "" [ftok; colon_tok; word_tok es; eof] = PTree (qtree fs w) /\
  exists s : string, render o2 (qtree fs w) = Ret (s, None) /\ pg_read (str s) = Some (qast fs w) /\
    forall r : row, ssem r [] (qast fs w) = qsem r (qtree fs w).
Proof.
  intros Hf Pf Ha Hfl Hs Hq Hr Nm Co Lo.
  split; [exact (escaped_value_tree o ftok fs es w Hf Pf Ha Hfl Hs Hq Hr)|exact (verbatim_value_reaches_postgres fs w Nm Co Lo)].
Qed.

(* the parameterized side: the text  "f" = ?  with w, verbatim, as its only parameter; PostgreSQL reads the comparison of the column
   with parameter 1, true - with w bound - on exactly the same rows *)
Definition past (fs : string) : ast := AOp (str "=") (ACol (str fs)) (AParam (str "1")).
Lemma qtree_trp fs w : String.eqb w "*" = false ->
  trp (qtree fs w) 1 = Some ([TIdent (str fs); TOp (str "="); TParam (str "1")], past fs, [VStr w]).
Proof. intros H. cbn [trp qtree field_of lit empty_e cmp_text const_param]. rewrite H. reflexivity. Qed.

Theorem quoted_value_travels_as_parameter fs w :
  String.eqb w "*" = false -> name_ok fs = true -> col_ok o2 fs = true -> valid_utf8 o2 "?" = true ->
  exists s : string, render_param o2 (qtree fs w) = Ret (s, [VStr w], None) /\
    pg_read (number_placeholders (str s)) = Some (past fs) /\
    forall r : row, ssem r [RStr w] (past fs) = qsem r (qtree fs w).
Proof.
  intros Hs Nm Co Vq. unfold col_ok, lit_ok in Co. apply andb_true_iff in Co. destruct Co as [Co Lo]. apply andb_true_iff in Co. destruct Co as [Ne Nq].
  apply andb_true_iff in Lo. destruct Lo as [Vc Nc]. apply negb_true_iff in Ne, Nq, Nc.
  pose proof (quoted_value_parameter o2 fs w Ne Nq Hs Vc Nc Vq) as R. eexists. split; [exact R|]. split.
  - exact (proj2 (render_param_reads o2 (qtree fs w) _ _ _ _ _ (qtree_trp fs w Hs) Nm eq_refl R)).
  - intros r. exact (trp_sem r (qtree fs w) _ _ _ (qtree_trp fs w Hs) eq_refl eq_refl).
Qed.
End Q.
