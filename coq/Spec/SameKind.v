(* C04 (d) specification: two trees that differ only in their leaf VALUES, each replaced by a value of the same kind - an
   integer by an integer, a float by a float, a string by a string that is a lone star / a /regexp/ exactly when the original
   is; columns (field names) are not values and stay. *)
Require Import Parser Render.
From Coq Require Import List Ascii String ZArith Bool.
Import ListNotations.

Fixpoint sk_e (e e' : expr) {struct e} : bool :=
  match e, e' with
  | E l op r _ _, E l' op' r' _ _ => op_eqb op op' && sk_v l l' && sk_v r r'
  end
with sk_v (v v' : value) {struct v} : bool :=
  match v, v' with
  | VNil, VNil => true
  | VInt _, VInt _ | VFloat _, VFloat _ | VBool _, VBool _ => true
  | VStr s, VStr s' => Bool.eqb (String.eqb s "*") (String.eqb s' "*") && Bool.eqb (is_regex_text s) (is_regex_text s')
  | VCol c, VCol c' => String.eqb c c'
  | VExp a, VExp a' => sk_e a a'
  | VList l, VList l' =>
      (fix each (l : list expr) (l' : list expr) : bool :=
         match l, l' with [], [] => true | x :: r, x' :: r' => sk_e x x' && each r r' | _, _ => false end) l l'
  | VBound a b i, VBound a' b' i' => sk_v a a' && sk_v b b' && Bool.eqb i i'
  | _, _ => false
  end.
