(* C09, whitespace clause, ALL byte strings: changing the whitespace between and around the tokens of any input - valid UTF-8 or
   not - without removing an existing separator leaves the token stream unchanged. Generalises LexWs.v (ASCII) with the
   context theorem of LexCtx2.v. Oracle facts: the whitespace runes are not alphanumeric; U+FFFD (what the decoder returns for a
   byte that starts no valid sequence) is neither a letter nor a digit. *)
Require Import Lex LexProof LexFuel LexWs LexCtx LexCtx2.
From Coq Require Import List Ascii String NArith Bool Arith Lia.
Import ListNotations.

Section G.
Variable cl : classes.
Hypothesis ws_not_alnum : forall r, is_space r = true -> is_alnum cl r = false.

(* the token is what the lexer makes of its text when a blank follows (false only for a word ending in a dangling escape: K14) *)
Definition clean_g (t : token) : Prop := next_token cl (val t ++ [sp]) = (t, [sp]).

Lemma ws_decode c s : ws_byte c = true -> decode_rune (c :: s) = Some (bval c, 1).
Proof. intros H. apply decode_ascii. apply (ws_ascii c H). Qed.
Lemma ws_hd c s : ws_byte c = true -> hd_ok (c :: s).
Proof. intros H. pose proof (ws_ascii c H) as A. apply N.ltb_lt in A. unfold hd_ok, cont, in_range. apply andb_false_iff. left. apply N.leb_gt. exact A. Qed.
Lemma ws_wstop c s : ws_byte c = true -> wstop cl (c :: s).
Proof.
  intros H. unfold wstop. rewrite (ws_decode c s H). destruct (ws_stopper cl ws_not_alnum c s H) as [S1 S2].
  unfold stopper, wordb, escb in *. unfold wordlike. split; assumption.
Qed.
Lemma ws_nodigit c s : ws_byte c = true -> nodigit cl (c :: s).
Proof. intros H. unfold nodigit. rewrite (ws_decode c s H). apply (ws_not_digit cl ws_not_alnum c H). Qed.

(* behind a token: the end of the input or a whitespace byte *)
Lemma ctx_to_ws t r' : clean_g t -> proper t -> match r' with [] => True | c :: _ => ws_byte c = true end ->
  next_token cl (val t ++ r') = (t, r').
Proof.
  intros C P Hr'. apply (next_token_ctx_g cl ws_not_alnum t [sp] r' ltac:(discriminate) C P).
  - destruct r' as [|c r'']; [exact I|apply ws_hd; exact Hr'].
  - destruct r' as [|c r'']; [split; intros _; [unfold wstop|unfold nodigit]; exact I|].
    split; intros _; [apply ws_wstop|apply ws_nodigit]; exact Hr'.
Qed.

(* tokens written one blank apart lex to themselves - whatever bytes they hold *)
Definition lexes_clean (t : token) : Prop := proper t /\ clean_g t.

Theorem lex_spaced_g : forall ts, Forall lexes_clean ts -> forall f, List.length (spaced ts) < f -> lex_all cl f (spaced ts) = ts ++ [eof_tok].
Proof.
  induction 1 as [|t ts [P C] Hts IH]; intros f Hf.
  - destruct f as [|f]; [cbn in Hf; lia|]. reflexivity.
  - destruct f as [|f]; [cbn in Hf; lia|]. cbn [spaced app] in *.
    pose proof (ctx_to_ws t (sp :: spaced ts) C P eq_refl) as N'.
    rewrite (lex_all_proper cl f t (sp :: spaced ts) _ N' P).
    destruct f as [|f]; [rewrite app_length in Hf; cbn in Hf; lia|].
    f_equal.
    assert (E : lex_all cl (S f) (sp :: spaced ts) = lex_all cl (S f) (spaced ts)).
    { cbn [lex_all]. change (sp :: spaced ts) with ([sp] ++ spaced ts). rewrite (next_token_ws cl [sp] (spaced ts) eq_refl). reflexivity. }
    rewrite E. apply IH. rewrite app_length in Hf. cbn in Hf. lia.
Qed.
Corollary lex_spaced_text_g ts : Forall lexes_clean ts -> lex cl (spaced ts) = ts ++ [eof_tok].
Proof. intros H. unfold lex. apply lex_spaced_g; [exact H|lia]. Qed.

(* the first rune of a proper token lies inside it, and its first byte is not a continuation byte *)
Lemma first_rune_inside t r rn w : next_token cl (val t ++ r) = (t, r) -> proper t ->
  decode_rune (val t ++ r) = Some (rn, w) -> w <= List.length (val t).
Proof.
  intros H P D.
  destruct (nt_skip cl ws_not_alnum _ _ _ H P) as [E Ln].
  unfold next_token in H. cbv zeta in H. rewrite <- E in H. clear E Ln. rewrite D in H. fold fin in H.
  pose proof (decode_width _ _ _ D) as Hw. rewrite app_length in Hw.
  set (v := val t) in *.
  assert (Hword : lex_word cl (S (List.length (v ++ r))) (v ++ r) [] = Tok t r ->
                  (is_alnum cl rn || is_wildcard rn || (rn =? 46)%N || (rn =? 45)%N || is_escape rn) = true -> w <= List.length v).
  { intros Hwd C. pose proof (lex_word_progress_w cl ws_not_alnum _ _ _ _ _ rn w D C Hwd) as L. rewrite app_length in L. lia. }
  destruct (is_alnum cl rn || is_wildcard rn || is_escape rn) eqn:C0.
  { apply fin_tok in H; [|exact P]. apply (Hword H).
    apply orb_true_iff in C0; destruct C0 as [C0|C0]; [apply orb_true_iff in C0; destruct C0 as [C0|C0]|]; rewrite C0; rewrite ?orb_true_r; reflexivity. }
  destruct (take_onto w (v ++ r) []) as [s' acc] eqn:T.
  pose proof (take_onto_spec _ _ _ _ _ T) as [_ L]. rewrite app_length in L.
  destruct (symbol rn). { inversion H. subst s'. lia. }
  destruct (rn =? 45)%N eqn:C45.
  { destruct (decode_rune s') as [[r2 w2]|].
    - destruct (is_digit cl r2); [apply fin_tok in H; [|exact P]; apply (Hword H); rewrite ?C45, ?orb_true_r; reflexivity|inversion H; subst s'; lia].
    - inversion H; subst s'; lia. }
  destruct ((rn =? 34)%N || (rn =? 39)%N).
  { apply fin_tok in H; [|exact P]. pose proof (lex_phrase_spec cl _ _ _ _ _ _ H) as [_ L2]. lia. }
  destruct (rn =? 47)%N.
  { apply fin_tok in H; [|exact P]. pose proof (lex_regexp_spec cl _ _ _ _ _ _ H) as [_ L2]. lia. }
  exfalso. inversion H. subst t. destruct P as [_ P2]. apply P2. reflexivity.
Qed.

Hypothesis fffd_not_alnum : is_letter cl 65533 = false /\ is_digit cl 65533 = false.

Lemma proper_first_not_cont t r r2 : next_token cl (val t ++ r) = (t, r) -> proper t -> hd_ok (val t ++ r2).
Proof.
  intros H P. pose proof (proper_nonempty cl ws_not_alnum t r H P) as Ne.
  destruct (nt_skip cl ws_not_alnum _ _ _ H P) as [E Ln].
  destruct (val t) as [|c v'] eqn:V; [contradiction|]. cbn [app hd_ok].
  destruct (cont (bval c)) eqn:Cc; [|reflexivity]. exfalso.
  unfold next_token in H. cbv zeta in H. rewrite <- E in H. cbn [app] in H. rewrite decode_shape in H. cbv zeta in H.
  unfold cont, in_range in Cc. apply andb_true_iff in Cc. destruct Cc as [C1 C2]. apply N.leb_le in C1, C2.
  replace (bval c <? 128)%N with false in H by (symmetry; apply N.ltb_ge; lia).
  replace (in_range 194 223 (bval c)) with false in H by (symmetry; unfold in_range; apply andb_false_iff; left; apply N.leb_gt; lia).
  replace (in_range 224 239 (bval c)) with false in H by (symmetry; unfold in_range; apply andb_false_iff; left; apply N.leb_gt; lia).
  replace (in_range 240 244 (bval c)) with false in H by (symmetry; unfold in_range; apply andb_false_iff; left; apply N.leb_gt; lia).
  destruct fffd_not_alnum as [F1 F2].
  assert (A : is_alnum cl rune_error = false) by (unfold is_alnum, rune_error; rewrite F1, F2; reflexivity).
  rewrite A in H. change (is_wildcard rune_error) with false in H. change (is_escape rune_error) with false in H. cbn [orb] in H.
  change (symbol rune_error) with (@None toktype) in H. change (rune_error =? 45)%N with false in H.
  change ((rune_error =? 34)%N || (rune_error =? 39)%N) with false in H. change (rune_error =? 47)%N with false in H.
  inversion H. subst t. destruct P as [_ P2]. apply P2. reflexivity.
Qed.

(* s' is s with the whitespace between and around its tokens changed (LexWs.wsvar, with the general cleanliness) *)
Inductive wsvar_g : bytes -> bytes -> Prop :=
| wg_same : forall r, wsvar_g r r
| wg_end : forall w w', all_ws w -> all_ws w' -> wsvar_g w w'
| wg_tok : forall w w' t r r', all_ws w -> all_ws w' -> (w <> [] -> w' <> []) ->
    next_token cl (val t ++ r) = (t, r) -> proper t -> clean_g t -> wsvar_g r r' ->
    wsvar_g (w ++ val t ++ r) (w' ++ val t ++ r').

Lemma all_ws_hd w : all_ws w -> match w with [] => True | c :: _ => ws_byte c = true end.
Proof. destruct w as [|c w]; [auto|]. unfold all_ws. cbn [forallb]. intros H. apply andb_true_iff in H. tauto. Qed.

Lemma wsvar_hd r r' : wsvar_g r r' -> r' = r \/ hd_ok r'.
Proof.
  intros W. destruct W as [r | w w' Hw Hw' | w w' t r r' Hw Hw' Hn H P C W]; [left; reflexivity|right|right].
  - pose proof (all_ws_hd w' Hw') as Hd. destruct w' as [|c w'']; [exact I|apply ws_hd; exact Hd].
  - pose proof (all_ws_hd w' Hw') as Hd. destruct w' as [|c w'']; [|apply ws_hd; exact Hd].
    cbn [app]. apply (proper_first_not_cont t r r' H P).
Qed.

Lemma token_ctx_ws t r r' : next_token cl (val t ++ r) = (t, r) -> proper t -> clean_g t -> wsvar_g r r' ->
  next_token cl (val t ++ r') = (t, r').
Proof.
  intros H P C W. destruct W as [r | w w' Hw Hw' | w w' t2 r0 r0' Hw Hw' Hn H2 P2 C2 W].
  - exact H.
  - apply (ctx_to_ws t w' C P). apply all_ws_hd. exact Hw'.
  - destruct w' as [|c' w''].
    + (* the next token follows directly, in both texts *)
      assert (w = []) by (destruct w; [reflexivity|exfalso; apply Hn; [discriminate|reflexivity]]). subst w. cbn [app] in *.
      destruct (wsvar_hd r0 r0' W) as [->|Hh0]; [exact H|].
      pose proof (proper_nonempty cl ws_not_alnum t2 r0 H2 P2) as Ne.
      assert (Dsame : decode_rune (val t2 ++ r0') = decode_rune (val t2 ++ r0)).
      { destruct (decode_rune (val t2 ++ r0)) as [[rn w]|] eqn:D; [|apply decode_none in D; destruct (val t2); [contradiction|discriminate]].
        apply (decode_ctx (val t2) r0 r0' rn w D (first_rune_inside t2 r0 rn w H2 P2 D) Hh0). }
      apply (next_token_ctx_g cl ws_not_alnum t (val t2 ++ r0) (val t2 ++ r0')); try assumption.
      * destruct (val t2); [contradiction|discriminate].
      * apply (proper_first_not_cont t2 r0 r0' H2 P2).
      * unfold look_ok, wstop, nodigit. rewrite Dsame. split; auto.
    + apply (ctx_to_ws t ((c' :: w'') ++ val t2 ++ r0') C P). cbn [app]. apply (all_ws_hd (c' :: w'') Hw').
Qed.

Theorem lex_all_ws_g : forall s s', wsvar_g s s' ->
  forall f f', List.length s < f -> List.length s' < f' -> lex_all cl f' s' = lex_all cl f s.
Proof.
  intros s s' W. induction W as [r | w w' Hw Hw' | w w' t r r' Hw Hw' Hn H P C W IH]; intros f f' Hf Hf'.
  - apply lex_all_fuel; assumption.
  - destruct f as [|f]; [lia|]. destruct f' as [|f']; [lia|]. cbn [lex_all].
    rewrite (next_token_all_ws cl w Hw), (next_token_all_ws cl w' Hw'). reflexivity.
  - destruct f as [|f]; [lia|]. destruct f' as [|f']; [lia|].
    pose proof (token_ctx_ws t r r' H P C W) as H'.
    rewrite (lex_all_proper cl f t r (w ++ val t ++ r)) by (try exact P; rewrite (next_token_ws cl w _ Hw); exact H).
    rewrite (lex_all_proper cl f' t r' (w' ++ val t ++ r')) by (try exact P; rewrite (next_token_ws cl w' _ Hw'); exact H').
    assert (Lv : 1 <= List.length (val t)) by (pose proof (proper_nonempty cl ws_not_alnum t r H P); destruct (val t); [contradiction|cbn; lia]).
    f_equal. apply IH; rewrite !app_length in *; lia.
Qed.

(* C09, whitespace clause, every input *)
Theorem lex_ws_g s s' : wsvar_g s s' -> lex cl s' = lex cl s.
Proof. intros W. unfold lex. apply (lex_all_ws_g s s' W); lia. Qed.


(* the ASCII notion of LexWs.v is a special case *)
Lemma alone_clean t : lexes_alone cl t -> lexes_clean t.
Proof.
  intros (Nx & P & C & A). split; [exact P|]. unfold clean_g.
  apply (next_token_ctx cl ws_not_alnum t [] [sp]); try assumption; try (rewrite app_nil_r; assumption); [reflexivity|left; reflexivity].
Qed.
End G.

(* ---------- non-vacuity: a variant pair with non-ASCII words and an invalid byte inside a phrase ----------
   classifier: ASCII letters and digits, and every rune from U+0080 on except U+FFFD is a letter *)
Definition cl_wide : classes :=
  {| is_letter := fun r => ((65 <=? r) && (r <=? 90) || (97 <=? r) && (r <=? 122) || (128 <=? r) && negb (r =? 65533))%N;
     is_digit := fun r => ((48 <=? r) && (r <=? 57))%N |}.
Lemma cl_wide_ws : forall r, is_space r = true -> is_alnum cl_wide r = false.
Proof.
  intros r H. unfold is_space in H.
  repeat match type of H with (_ || _ = true) => apply orb_true_iff in H; destruct H as [H|H] end; apply N.eqb_eq in H; subst; reflexivity.
Qed.
Lemma cl_wide_fffd : is_letter cl_wide 65533 = false /\ is_digit cl_wide 65533 = false.
Proof. split; reflexivity. Qed.

Definition caf : bytes := b "caf" ++ [ascii_of_nat 195; ascii_of_nat 169].                      (* café *)
Definition phr : bytes := b """na" ++ [ascii_of_nat 195; ascii_of_nat 175; ascii_of_nat 255] ++ b " x""".   (* "naï<FF> x" : an invalid byte in a phrase *)
Example ws_variant_example_g :
  wsvar_g cl_wide (caf ++ b ":" ++ phr ++ b "  AND " ++ caf) (b " " ++ caf ++ b " : " ++ phr ++ [ascii_of_nat 9] ++ b "AND" ++ [ascii_of_nat 10] ++ caf ++ b " ").
Proof.
  assert (P : forall ty v, ty <> TEOF -> ty <> TErr -> proper {| typ := ty; val := v |}) by (intros; split; assumption).
  apply (wg_tok cl_wide [] (b " ") {| typ := TLiteral; val := caf |} (b ":" ++ phr ++ b "  AND " ++ caf)); [reflexivity|reflexivity|congruence|vm_compute; reflexivity|apply P; discriminate|vm_compute; reflexivity|].
  apply (wg_tok cl_wide [] (b " ") {| typ := TColon; val := b ":" |} (phr ++ b "  AND " ++ caf)); [reflexivity|reflexivity|congruence|vm_compute; reflexivity|apply P; discriminate|vm_compute; reflexivity|].
  apply (wg_tok cl_wide [] (b " ") {| typ := TQuoted; val := phr |} (b "  AND " ++ caf)); [reflexivity|reflexivity|congruence|vm_compute; reflexivity|apply P; discriminate|vm_compute; reflexivity|].
  apply (wg_tok cl_wide (b "  ") [ascii_of_nat 9] {| typ := TAnd; val := b "AND" |} (b " " ++ caf)); [reflexivity|reflexivity|discriminate|vm_compute; reflexivity|apply P; discriminate|vm_compute; reflexivity|].
  apply (wg_tok cl_wide (b " ") [ascii_of_nat 10] {| typ := TLiteral; val := caf |} []); [reflexivity|reflexivity|discriminate|vm_compute; reflexivity|apply P; discriminate|vm_compute; reflexivity|].
  apply (wg_end cl_wide [] (b " ")); reflexivity.
Qed.
Example ws_variant_same_tokens_g :
  lex cl_wide (b " " ++ caf ++ b " : " ++ phr ++ [ascii_of_nat 9] ++ b "AND" ++ [ascii_of_nat 10] ++ caf ++ b " ") = lex cl_wide (caf ++ b ":" ++ phr ++ b "  AND " ++ caf).
Proof. apply (lex_ws_g cl_wide cl_wide_ws cl_wide_fffd _ _ ws_variant_example_g). Qed.
