(* C04(a) specification: number of ? placeholders outside double-quoted identifiers (two-state scan) *)
Require Import Parser Render.
From Coq Require Import List Ascii String ZArith Bool Lia Arith.
Import ListNotations.
Open Scope string_scope.

Definition dq : ascii := """"%char.
Definition qm : ascii := "?"%char.

Fixpoint qst (inq : bool) (s : string) : bool :=
  match s with EmptyString => inq | String c r => qst (if Ascii.eqb c dq then negb inq else inq) r end.
Fixpoint qcnt (inq : bool) (s : string) : nat :=
  match s with
  | EmptyString => 0
  | String c r => (if Ascii.eqb c qm && negb inq then 1 else 0) + qcnt (if Ascii.eqb c dq then negb inq else inq) r
  end.

