(* Scratch: C07 on the faithful model: a terminal following a terminal == AND between them *)
Require Import Parser.
From Coq Require Import List String ZArith Bool Lia Arith.
Import ListNotations.
Close Scope string_scope.
Open Scope nat_scope.

Arguments expr_new : simpl never.
Arguments parse_literal : simpl never.
Arguments to_positive_float : simpl never.

Section J.
Variable o : oracle.
Variable df : string.

Notation step := (step o df).
Fixpoint steps (k : nat) (c : cfg) : res :=
  match k with 0 => Next c | S k' => match step c with Next c' => steps k' c' | r => r end end.

(* result of running to the end with enough fuel *)
Definition final (c : cfg) (r : res) : Prop := exists k, steps k c = r /\ match r with Next _ => False | _ => True end.

Lemma steps_add k1 : forall k2 a b, steps k1 a = Next b -> steps (k1 + k2) a = steps k2 b.
Proof. induction k1; simpl; intros k2 a b H. - now inversion H. - destruct (step a); try discriminate. eauto. Qed.

Lemma final_step a b r : step a = Next b -> final b r -> final a r.
Proof. intros H (k & Hk & Hr). exists (S k). simpl. rewrite H. auto. Qed.
Lemma final_now a r : step a = r -> match r with Next _ => False | _ => True end -> final a r.
Proof. intros H Hr. exists 1. simpl. rewrite H. destruct r; try contradiction; auto. Qed.

Lemma steps_stop k : forall a r, match r with Next _ => False | _ => True end -> step a = r -> steps (S k) a = r.
Proof. intros a r Hr H. simpl. rewrite H. destruct r; try contradiction; reflexivity. Qed.

(* determinism of final *)
Lemma steps_final_mono k1 : forall k2 a r, steps k1 a = r -> match r with Next _ => False | _ => True end -> k1 <= k2 -> steps k2 a = r.
Proof.
  induction k1; intros k2 a r H Hr Hle.
  - simpl in H. subst r. contradiction.
  - destruct k2; [lia|]. simpl in *. destruct (step a) eqn:E; try (subst r; reflexivity).
    apply (IHk1 k2 c r H Hr). lia.
Qed.
Lemma final_det a r1 r2 : final a r1 -> final a r2 -> r1 = r2.
Proof.
  intros (k1 & H1 & F1) (k2 & H2 & F2).
  destruct (Nat.le_ge_cases k1 k2).
  - rewrite <- H2. symmetry. eapply steps_final_mono; eauto.
  - rewrite <- H1. eapply steps_final_mono; eauto.
Qed.

Definition and_tok := {| typ := TAnd; val := "AND"%string |}.
Lemma and_tok_impl : and_tok = impl_and. Proof. reflexivity. Qed.

Definition term_tok (t : token) : bool := match typ t with TLiteral | TQuoted | TRegexp => true | _ => false end.


(* every successful reduce shrinks the stack *)
Lemma rev_append_length {A} (a b : list A) : List.length (rev_append a b) = List.length a + List.length b.
Proof. revert b; induction a; simpl; intros; auto. rewrite IHa. simpl. lia. Qed.

Lemma split_last2_length {A} (l : list A) : forall p a b, split_last2 l = Some (p, a, b) -> List.length l = List.length p + 2.
Proof.
  induction l as [|x l IH]; intros p a b H; [discriminate|].
  destruct l as [|y l]; [discriminate|].
  destruct l as [|z l].
  - inversion H; subst. reflexivity.
  - change (split_last2 (x :: y :: z :: l)) with
      (match split_last2 (y :: z :: l) with Some (p0, a0, b0) => Some (x :: p0, a0, b0) | None => None end) in H.
    destruct (split_last2 (y :: z :: l)) as [[[p' a'] b']|] eqn:E; try discriminate.
    inversion H; subst. specialize (IH p' a b eq_refl). cbn [List.length] in *. lia.
Qed.

Ltac inv_ret H := match type of H with
  | bind ?x _ = Ret _ => destruct x eqn:?; simpl in H; try discriminate
  end.

Lemma reducer_shrinks : forall rd, In rd (reducers o) -> forall top ns top' ns',
  rd top ns df = Some (Ret (top', ns')) -> List.length top' < List.length top.
Proof.
  intros rd Hin top ns top' ns' H.
  unfold reducers in Hin. simpl in Hin.
  repeat (destruct Hin as [<-|Hin]); try contradiction.
  all: try (unfold r_and_or, r_equal, r_compare, r_compare_eq, r_sub, r_prefix, r_fuzzy, r_boost, r_range in H;
    repeat match type of H with
    | match ?x with _ => _ end = _ => destruct x eqn:?; try discriminate
    | (if ?x then _ else _) = _ => destruct x eqn:?; try discriminate
    | (let '(_, _) := ?x in _) = _ => destruct x eqn:?
    end;
    try (inversion H as [H']; clear H;
      repeat match type of H' with
      | bind ?x _ = Ret _ => destruct x eqn:?; simpl in H'; try discriminate
      | (if ?x then _ else _) = _ => destruct x eqn:?
      end; inversion H'; subst; simpl; lia)).
  (* r_not *)
  unfold r_not in H.
  destruct (split_last2 top) as [[[p a] b]|] eqn:E; try discriminate.
  destruct a; try discriminate. destruct b; try discriminate.
  destruct (is TNot t); try discriminate.
  inversion H as [H']; clear H.
  repeat match type of H' with
      | bind ?x _ = Ret _ => destruct x eqn:?; simpl in H'; try discriminate
      end.
  inversion H'; subst. rewrite app_length. simpl. rewrite (split_last2_length _ _ _ _ E). lia.
Qed.

Lemma try_reducers_shrinks : forall rds, (forall rd, In rd rds -> In rd (reducers o)) -> forall top ns top' ns',
  try_reducers rds top ns df = Some (Ret (top', ns')) -> List.length top' < List.length top.
Proof.
  induction rds as [|rd rds IH]; intros Hsub top ns top' ns' H; simpl in H; try discriminate.
  destruct (rd top ns df) eqn:E.
  - inversion H; subst. eapply reducer_shrinks; eauto. apply Hsub; left; reflexivity.
  - apply (IH (fun x Hx => Hsub x (or_intror Hx)) _ _ _ _ H).
Qed.

Lemma reduce_shrinks : forall r top ns r' ns',
  reduce_loop o r top ns df = ROk r' ns' -> List.length r' + 1 <= List.length r + List.length top.
Proof.
  induction r as [|s r IH]; intros top ns r' ns' H; cbn [reduce_loop] in H; try discriminate.
  destruct (try_reducers (reducers o) (s :: top) ns df) as [[[t n]|]|] eqn:E; try discriminate.
  - inversion H; subst. rewrite rev_append_length.
    pose proof (try_reducers_shrinks (reducers o) (fun _ h => h) _ _ _ _ E). simpl in *. lia.
  - specialize (IH _ _ _ _ H). simpl in *. lia.
Qed.

(* should_shift only looks at the type of the lookahead *)
Lemma should_shift_and ns : should_shift ns and_tok = should_shift ns impl_and.
Proof. reflexivity. Qed.

(* Main simulation: from the same stack, "pending literal for t2" and "lookahead AND, then terminal t2"
   end in the same result. *)
Lemma juxt_sim : forall n r nn t2 post,
  List.length r <= n ->
  term_tok t2 = true ->
  forall res1,
  final {| rs := r; ns := nn; toks := post; pend := Some (parse_literal o t2) |} res1 ->
  final {| rs := r; ns := nn; toks := and_tok :: t2 :: post; pend := None |} res1.
Proof.
  induction n as [n IH] using lt_wf_ind. intros r nn t2 post Hlen Ht res1 F.
  destruct F as (k & Hk & Hr).
  destruct k; [simpl in Hk; subst; contradiction|].
  simpl in Hk. unfold step in Hk at 1. cbn [pend ns rs toks] in Hk.
  destruct (should_shift nn impl_and) as [[|]|s] eqn:SS.
  - (* AND can be shifted now *)
    eapply final_step.
    { unfold step. cbn [pend toks hd ns rs]. cbn [is typ and_tok tt_eqb andb]. rewrite should_shift_and, SS.
      cbn. reflexivity. }
    eapply final_step.
    { unfold step. cbn [pend toks hd ns rs tl].
      destruct t2 as [ty v]; destruct ty; cbn in Ht; try discriminate; cbn; reflexivity. }
    exists k. split; auto.
  - (* reduce first *)
    unfold do_reduce in Hk. cbn [rs ns toks pend] in Hk.
    destruct (reduce_loop o r [] nn df) as [| s | r' ns'] eqn:RL.
    + subst res1. apply final_now; auto.
      unfold step. cbn [pend toks hd ns rs]. cbn [is typ and_tok tt_eqb andb]. rewrite should_shift_and, SS.
      unfold do_reduce. cbn [rs ns toks pend]. rewrite RL. reflexivity.
    + subst res1. apply final_now; auto.
      unfold step. cbn [pend toks hd ns rs]. cbn [is typ and_tok tt_eqb andb]. rewrite should_shift_and, SS.
      unfold do_reduce. cbn [rs ns toks pend]. rewrite RL. reflexivity.
    + pose proof (reduce_shrinks _ _ _ _ _ RL) as Hs. simpl in Hs.
      eapply final_step.
      { unfold step. cbn [pend toks hd ns rs]. cbn [is typ and_tok tt_eqb andb]. rewrite should_shift_and, SS.
        unfold do_reduce. cbn [rs ns toks pend]. rewrite RL. reflexivity. }
      eapply (IH (List.length r')); try lia; eauto. exists k. split; eauto.
  - (* should_shift panics: same in both *)
    subst res1. apply final_now; auto.
    unfold step. cbn [pend toks hd ns rs]. cbn [is typ and_tok tt_eqb andb]. rewrite should_shift_and, SS. reflexivity.
Qed.

(* the terminal t2 arriving on an expression: enter pending mode *)
Theorem C07_local : forall x r nn t2 post res1,
  term_tok t2 = true ->
  final {| rs := IExp x :: r; ns := nn; toks := t2 :: post; pend := None |} res1 ->
  final {| rs := IExp x :: r; ns := nn; toks := and_tok :: t2 :: post; pend := None |} res1.
Proof.
  intros x r nn t2 post res1 Ht F.
  destruct F as (k & Hk & Hr).
  destruct k; [simpl in Hk; subst; contradiction|].
  simpl in Hk. unfold step in Hk at 1. cbn [pend ns rs toks hd] in Hk.
  assert (E1 : is TEOF t2 = false) by (destruct t2 as [ty v]; destruct ty; cbn in Ht; try discriminate; reflexivity).
  assert (E2 : is TErr t2 = false) by (destruct t2 as [ty v]; destruct ty; cbn in Ht; try discriminate; reflexivity).
  assert (E3 : is_terminal t2 = true) by (destruct t2 as [ty v]; destruct ty; cbn in Ht; try discriminate; reflexivity).
  rewrite E1 in Hk. cbn [andb] in Hk.
  unfold should_shift in Hk. rewrite E1, E2 in Hk.
  destruct nn as [|c nn'].
  - (* panics identically *)
    subst res1. apply final_now; auto.
  - rewrite E3 in Hk. cbn [tl] in Hk.
    eapply (juxt_sim (List.length (IExp x :: r))); eauto. exists k. split; eauto.
Qed.


(* ---------- the step function looks at the input only through its head ---------- *)
Definition with_toks (c : cfg) (t : list token) : cfg := {| rs := rs c; ns := ns c; toks := t; pend := pend c |}.

(* what one step does to the input: keeps it or drops its head *)
Lemma step_head : forall r n p x T1 T2,
  match step {| rs := r; ns := n; toks := x :: T1; pend := p |} with
  | Next c1 =>
      (toks c1 = x :: T1 /\ step {| rs := r; ns := n; toks := x :: T2; pend := p |} = Next (with_toks c1 (x :: T2))) \/
      (toks c1 = T1 /\ step {| rs := r; ns := n; toks := x :: T2; pend := p |} = Next (with_toks c1 T2))
  | res => step {| rs := r; ns := n; toks := x :: T2; pend := p |} = res
  end.
Proof.
  intros r n p x T1 T2. unfold step. cbn [pend ns rs toks hd tl].
  assert (HR : forall T, do_reduce o {| rs := r; ns := n; toks := T; pend := p |} df =
     match reduce_loop o r [] n df with RFail => Reject | RPanic s => Crash s | ROk r' n' => Next {| rs := r'; ns := n'; toks := T; pend := p |} end).
  { intros T. unfold do_reduce. cbn [rs ns toks pend]. reflexivity. }
  destruct p as [l|].
  - destruct (should_shift n impl_and) as [[|]|s]; cbn [toks]; auto.
    rewrite !HR. destruct (reduce_loop o r [] n df); cbn [toks]; auto.
  - destruct (is TEOF x && Nat.eqb (List.length r) 1).
    + destruct r as [|[?|e] [|? ?]]; auto. destruct (is_leaf_op (e_op e) && negb (String.eqb df "")); auto.
      destruct (eq_ (VCol df) (VExp e)); auto.
    + destruct (should_shift n x) as [[|]|s]; auto.
      * destruct (is_terminal x); [destruct r as [|[?|?] ?]|]; cbn [toks]; auto.
      * rewrite !HR. destruct (reduce_loop o r [] n df); cbn [toks]; auto.
Qed.

(* pending phase: t1's literal waits while reductions happen; the input is not looked at *)
Lemma pend_phase : forall k r n l t2 post res1, term_tok t2 = true ->
  steps k {| rs := r; ns := n; toks := t2 :: post; pend := Some l |} = res1 ->
  match res1 with Next _ => False | _ => True end ->
  final {| rs := r; ns := n; toks := and_tok :: t2 :: post; pend := Some l |} res1.
Proof.
  induction k as [|k IH]; intros r n l t2 post res1 Ht Hk Hr; [cbn in Hk; subst; contradiction|].
  cbn [steps] in Hk. unfold step in Hk at 1. cbn [pend ns rs toks] in Hk.
  destruct (should_shift n impl_and) as [[|]|s] eqn:SS.
  - (* resolve: push AND and the literal; now the local lemma applies *)
    eapply final_step. { unfold step. cbn [pend ns rs toks]. rewrite SS. reflexivity. }
    apply C07_local; auto. exists k. split; auto.
  - unfold do_reduce in Hk. cbn [rs ns toks pend] in Hk.
    destruct (reduce_loop o r [] n df) as [| s | r' n'] eqn:RL.
    + subst res1. apply final_now; auto. unfold step. cbn [pend ns rs toks]. rewrite SS. unfold do_reduce. cbn [rs ns toks pend]. rewrite RL. reflexivity.
    + subst res1. apply final_now; auto. unfold step. cbn [pend ns rs toks]. rewrite SS. unfold do_reduce. cbn [rs ns toks pend]. rewrite RL. reflexivity.
    + eapply final_step. { unfold step. cbn [pend ns rs toks]. rewrite SS. unfold do_reduce. cbn [rs ns toks pend]. rewrite RL. reflexivity. }
      eapply IH; eauto.
  - subst res1. apply final_now; auto. unfold step. cbn [pend ns rs toks]. rewrite SS. reflexivity.
Qed.

(* prefix phase: both runs do the same thing until t1 has been consumed *)
Lemma prefix_phase : forall k l r n p t1 t2 post res1, term_tok t1 = true -> term_tok t2 = true ->
  steps k {| rs := r; ns := n; toks := l ++ t1 :: t2 :: post; pend := p |} = res1 ->
  match res1 with Next _ => False | _ => True end ->
  final {| rs := r; ns := n; toks := l ++ t1 :: and_tok :: t2 :: post; pend := p |} res1.
Proof.
  induction k as [|k IH]; intros l r n p t1 t2 post res1 Ht1 Ht2 Hk Hr; [cbn in Hk; subst; contradiction|].
  destruct l as [|x l]; cbn [app] in *.
  - (* the lookahead is t1 *)
    destruct p as [lp|].
    + (* an earlier literal is still pending: the step does not consume anything *)
      pose proof (step_head r n (Some lp) t1 (t2 :: post) (and_tok :: t2 :: post)) as SH.
      cbn [steps] in Hk. destruct (step {| rs := r; ns := n; toks := t1 :: t2 :: post; pend := Some lp |}) as [c1| | |] eqn:S1.
      * destruct SH as [[Ht SH]|[Ht SH]].
        -- eapply final_step; [exact SH|]. destruct c1 as [r1 n1 tk1 p1]. cbn [toks] in Ht. subst tk1. unfold with_toks. cbn [rs ns pend].
           exact (IH [] r1 n1 p1 t1 t2 post res1 Ht1 Ht2 Hk Hr).
        -- exfalso. clear - S1 Ht. unfold step in S1. cbn [pend ns rs toks] in S1.
           destruct (should_shift n impl_and) as [[|]|?]; try discriminate.
           ++ inversion S1; subst. cbn in Ht. apply (f_equal (@List.length token)) in Ht. cbn in Ht. lia.
           ++ unfold do_reduce in S1. cbn [rs ns toks pend] in S1. destruct (reduce_loop o r [] n df); try discriminate.
              inversion S1; subst. cbn in Ht. apply (f_equal (@List.length token)) in Ht. cbn in Ht. lia.
      * subst res1. apply final_now; auto.
      * subst res1. apply final_now; auto.
      * subst res1. apply final_now; auto.
    + (* t1 is shifted (or waits for a reduction first) *)
      cbn [steps] in Hk.
      assert (E1 : is TEOF t1 = false) by (destruct t1 as [ty v]; destruct ty; cbn in Ht1; try discriminate; reflexivity).
      assert (E2 : is TErr t1 = false) by (destruct t1 as [ty v]; destruct ty; cbn in Ht1; try discriminate; reflexivity).
      assert (E3 : is_terminal t1 = true) by (destruct t1 as [ty v]; destruct ty; cbn in Ht1; try discriminate; reflexivity).
      unfold step in Hk at 1. cbn [pend ns rs toks hd tl] in Hk. rewrite E1 in Hk. cbn [andb] in Hk.
      unfold should_shift in Hk. rewrite E1, E2 in Hk.
      destruct n as [|c n'].
      * subst res1. apply final_now; [unfold step; cbn [pend ns rs toks hd tl]; rewrite E1; cbn [andb]; unfold should_shift; rewrite E1, E2; reflexivity | exact I].
      * rewrite E3 in Hk.
        destruct r as [|[tk0|e0] r'].
        -- eapply final_step.
           { unfold step. cbn [pend ns rs toks hd tl]. rewrite E1. cbn [andb]. unfold should_shift. rewrite E1, E2, E3. reflexivity. }
           apply C07_local; auto. exists k. split; auto.
        -- eapply final_step.
           { unfold step. cbn [pend ns rs toks hd tl]. rewrite E1. cbn [andb]. unfold should_shift. rewrite E1, E2, E3. reflexivity. }
           apply C07_local; auto. exists k. split; auto.
        -- eapply final_step.
           { unfold step. cbn [pend ns rs toks hd tl]. rewrite E1. cbn [andb]. unfold should_shift. rewrite E1, E2, E3. reflexivity. }
           eapply pend_phase; eauto.
  - (* the lookahead is still inside the common prefix *)
    pose proof (step_head r n p x (l ++ t1 :: t2 :: post) (l ++ t1 :: and_tok :: t2 :: post)) as SH.
    cbn [steps] in Hk. destruct (step {| rs := r; ns := n; toks := x :: l ++ t1 :: t2 :: post; pend := p |}) as [c1| | |] eqn:S1.
    + destruct c1 as [r1 n1 tk1 p1]. cbn [toks] in SH. unfold with_toks in SH. cbn [rs ns pend] in SH.
      destruct SH as [[Ht SH]|[Ht SH]]; subst tk1; (eapply final_step; [exact SH|]).
      * exact (IH (x :: l) r1 n1 p1 t1 t2 post res1 Ht1 Ht2 Hk Hr).
      * exact (IH l r1 n1 p1 t1 t2 post res1 Ht1 Ht2 Hk Hr).
    + subst res1. apply final_now; auto.
    + subst res1. apply final_now; auto.
    + subst res1. apply final_now; auto.
Qed.

(* C07: a terminal directly following a terminal parses exactly as if AND had been written between them *)
Theorem C07_juxt : forall pre t1 t2 post res1, term_tok t1 = true -> term_tok t2 = true ->
  final {| rs := []; ns := [start]; toks := pre ++ t1 :: t2 :: post; pend := None |} res1 ->
  final {| rs := []; ns := [start]; toks := pre ++ t1 :: and_tok :: t2 :: post; pend := None |} res1.
Proof.
  intros pre t1 t2 post res1 H1 H2 (k & Hk & Hr). eapply prefix_phase; eauto.
Qed.
Print Assumptions C07_juxt.
End J.
