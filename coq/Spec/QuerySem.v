(* C03 specification, query side: what a query of the filterable fragment MEANS on a row.
   A row assigns a number (a rational) or a string to each field. Fragment: field-scoped equality, < <= > >=, inclusive /
   exclusive / open-ended ranges, value lists, wildcard patterns, combined with AND, OR, NOT, +, -.
   +x means x, -x means NOT x; numbers compare numerically, strings compare as byte strings; * matches any run of
   characters, ? any one character. qsem returns None outside the fragment (regexps, fuzzy, boost, bare terms, a field
   compared with a value of the other type). *)
Require Import Parser Shape.
From Coq Require Import List Ascii String ZArith QArith Bool.
Import ListNotations.
Close Scope Q_scope.
Open Scope string_scope.

Inductive rval := RNum (q : Q) | RStr (s : string).
Definition row := string -> option rval.

(* ---------- float64 bits -> the rational it denotes (finite values) ---------- *)
Definition pow2 (n : Z) : Z := Z.pow 2 n.
Definition q_of_float_bits (b : Z) : option Q :=
  let u := if (b <? 0)%Z then (b + 18446744073709551616)%Z else b in      (* two's complement int64 -> uint64 *)
  let sign := (u / 9223372036854775808)%Z in
  let ex := ((u / 4503599627370496) mod 2048)%Z in
  let frac := (u mod 4503599627370496)%Z in
  if (ex =? 2047)%Z then None
  else
    let m := if (ex =? 0)%Z then frac else (frac + 4503599627370496)%Z in
    let e := if (ex =? 0)%Z then (-1074)%Z else (ex - 1075)%Z in
    let m := if (sign =? 1)%Z then (- m)%Z else m in
    Some (if (0 <=? e)%Z then inject_Z (m * pow2 e) else Qmake m (Z.to_pos (pow2 (- e)))).

(* ---------- comparisons ---------- *)
Fixpoint str_cmp (a b : string) : comparison :=
  match a, b with
  | EmptyString, EmptyString => Eq
  | EmptyString, _ => Lt
  | _, EmptyString => Gt
  | String x r, String y s =>
      match Nat.compare (nat_of_ascii x) (nat_of_ascii y) with Eq => str_cmp r s | c => c end
  end.

Inductive cmpop := CEq | CLt | CLe | CGt | CGe.
Definition holds_cmp (op : cmpop) (c : comparison) : bool :=
  match op, c with
  | CEq, Eq => true | CLt, Lt => true | CLe, (Lt | Eq) => true | CGt, Gt => true | CGe, (Gt | Eq) => true
  | _, _ => false
  end.

(* the constant a leaf denotes *)
Definition leaf_const (e : expr) : option rval :=
  match e with
  | E (VInt z) Literal VNil _ _ => Some (RNum (inject_Z z))
  | E (VFloat f) Literal VNil _ _ => match q_of_float_bits f with Some q => Some (RNum q) | None => None end
  | E (VStr s) Literal VNil _ _ => Some (RStr s)
  | _ => None
  end.

Definition cmp_vals (op : cmpop) (a b : rval) : option bool :=
  match a, b with
  | RNum x, RNum y => Some (holds_cmp op (Qcompare x y))
  | RStr x, RStr y => Some (holds_cmp op (str_cmp x y))
  | _, _ => None
  end.

(* Lucene wildcards: * any run, ? any one character, everything else literal *)
Fixpoint wild_match_fuel (fuel : nat) (p s : string) : bool :=
  match fuel with
  | O => false
  | S f =>
    match p with
    | EmptyString => match s with EmptyString => true | _ => false end
    | String "*"%char p' =>
        wild_match_fuel f p' s || match s with EmptyString => false | String _ s' => wild_match_fuel f p s' end
    | String "?"%char p' => match s with EmptyString => false | String _ s' => wild_match_fuel f p' s' end
    | String c p' => match s with String d s' => Ascii.eqb c d && wild_match_fuel f p' s' | EmptyString => false end
    end
  end.
Definition wild_match (p s : string) : bool := wild_match_fuel (S (String.length p + String.length s)) p s.

Definition field_of (v : value) : option string :=
  match v with VExp (E (VCol f) Literal VNil _ _) => Some f | _ => None end.

Definition is_star (v : value) : bool :=
  match v with VExp (E (VStr s) Wild VNil _ _) => String.eqb s "*" | _ => false end.

Definition opt_and (a b : option bool) : option bool :=
  match a, b with Some x, Some y => Some (x && y) | _, _ => None end.
Definition opt_or (a b : option bool) : option bool :=
  match a, b with Some x, Some y => Some (x || y) | _, _ => None end.

Section Sem.
Variable r : row.

Definition cmp_leaf (op : cmpop) (f : string) (v : value) : option bool :=
  match v with
  | VExp lf => match r f, leaf_const lf with Some a, Some b => cmp_vals op a b | _, _ => None end
  | _ => None
  end.

Fixpoint in_list (f : string) (l : list expr) : option bool :=
  match l with
  | [] => Some false
  | x :: rest => opt_or (cmp_leaf CEq f (VExp x)) (in_list f rest)
  end.

Fixpoint qsem (e : expr) : option bool :=
  match e with
  | E l op rt _ _ =>
    match op with
    | And => match l, rt with VExp a, VExp b => opt_and (qsem a) (qsem b) | _, _ => None end
    | Or => match l, rt with VExp a, VExp b => opt_or (qsem a) (qsem b) | _, _ => None end
    | Not | MustNot => match l with VExp a => option_map negb (qsem a) | _ => None end
    | Must => match l with VExp a => qsem a | _ => None end
    | Equals => match field_of l with Some f => cmp_leaf CEq f rt | None => None end
    | Greater => match field_of l with Some f => cmp_leaf CGt f rt | None => None end
    | Less => match field_of l with Some f => cmp_leaf CLt f rt | None => None end
    | GreaterEq => match field_of l with Some f => cmp_leaf CGe f rt | None => None end
    | LessEq => match field_of l with Some f => cmp_leaf CLe f rt | None => None end
    | Like =>
        match field_of l, rt with
        | Some f, VExp (E (VStr p) Wild VNil _ _) => match r f with Some (RStr s) => Some (wild_match p s) | _ => None end
        | _, _ => None
        end
    | Tables.In =>
        match field_of l, rt with
        | Some f, VExp (E (VList lits) Tables.List VNil _ _) => in_list f lits
        | _, _ => None
        end
    | Range =>
        match field_of l, rt with
        | Some f, VBound lo hi incl =>
            let lower := if is_star lo then Some true else cmp_leaf (if incl then CGe else CGt) f lo in
            let upper := if is_star hi then Some true else cmp_leaf (if incl then CLe else CLt) f hi in
            opt_and lower upper
        | _, _ => None
        end
    | _ => None
    end
  end.

End Sem.
