// gwrites: which package-level variables of the library are written after initialisation?
// Type-checks the library's packages from source (go/types) and reports every assignment, increment, decrement, delete() or
// address-taking (&v, a way to write later) whose target resolves to a package-level variable of the library itself, outside
// that variable's own declaration and outside func init. Identifiers are resolved by the type checker, so a local variable or a
// struct field that happens to have the name of a package-level variable is not reported.
package main

import (
	"encoding/json"
	"fmt"
	"go/ast"
	"go/importer"
	"go/parser"
	"go/token"
	"go/types"
	"os"
	"path/filepath"
	"sort"
	"strings"
)

type finding struct {
	Pos  string `json:"pos"`
	Var  string `json:"var"`
	Kind string `json:"kind"`
}

func main() {
	root := os.Args[1]
	mod := "github.com/grindlemire/go-lucene"
	dirs := map[string]string{ // import path -> directory
		mod:                         root,
		mod + "/internal/lex":       filepath.Join(root, "internal/lex"),
		mod + "/pkg/driver":         filepath.Join(root, "pkg/driver"),
		mod + "/pkg/lucene/expr":    filepath.Join(root, "pkg/lucene/expr"),
		mod + "/pkg/lucene/reduce":  filepath.Join(root, "pkg/lucene/reduce"),
	}
	fset := token.NewFileSet()
	std := importer.ForCompiler(fset, "source", nil)
	checked := map[string]*types.Package{}
	infos := map[string]*types.Info{}
	files := map[string][]*ast.File{}
	var imp types.ImporterFrom
	var load func(path string) (*types.Package, error)
	load = func(path string) (*types.Package, error) {
		if p, ok := checked[path]; ok {
			return p, nil
		}
		dir, ok := dirs[path]
		if !ok {
			return std.Import(path)
		}
		pkgs, err := parser.ParseDir(fset, dir, func(fi os.FileInfo) bool { return !strings.HasSuffix(fi.Name(), "_test.go") }, 0)
		if err != nil {
			return nil, err
		}
		var fs []*ast.File
		for name, p := range pkgs {
			if strings.HasSuffix(name, "_test") || name == "main" {
				continue
			}
			for _, f := range p.Files {
				fs = append(fs, f)
			}
		}
		info := &types.Info{Uses: map[*ast.Ident]types.Object{}, Defs: map[*ast.Ident]types.Object{}}
		conf := types.Config{Importer: imp, Error: func(error) {}}
		p, err := conf.Check(path, fset, fs, info)
		if p != nil {
			checked[path], infos[path], files[path] = p, info, fs
		}
		return p, err
	}
	imp = importerFunc(load)
	names := []string{}
	out := []finding{}
	paths := []string{}
	for p := range dirs {
		paths = append(paths, p)
	}
	sort.Strings(paths)
	for _, path := range paths {
		pkg, err := load(path)
		if pkg == nil {
			fmt.Fprintf(os.Stderr, "gwrites: cannot type-check %s: %v\n", path, err)
			os.Exit(2)
		}
		info := infos[path]
		isGlobal := func(e ast.Expr) (string, bool) {
			for {
				switch x := e.(type) {
				case *ast.ParenExpr:
					e = x.X
				case *ast.IndexExpr:
					e = x.X
				case *ast.StarExpr:
					e = x.X
				case *ast.SelectorExpr:
					// pkg.Var or value.field: a field write through a package-level struct value counts too
					if id, ok := x.X.(*ast.Ident); ok {
						if _, isPkg := info.Uses[id].(*types.PkgName); isPkg {
							e = x.Sel
							continue
						}
					}
					e = x.X
				case *ast.Ident:
					obj := info.Uses[x]
					if obj == nil {
						obj = info.Defs[x]
					}
					v, ok := obj.(*types.Var)
					if !ok || v.Pkg() == nil || v.IsField() {
						return "", false
					}
					if _, ours := dirs[v.Pkg().Path()]; ours && v.Parent() == v.Pkg().Scope() {
						return v.Pkg().Name() + "." + v.Name(), true
					}
					return "", false
				default:
					return "", false
				}
			}
		}
		for _, n := range pkg.Scope().Names() {
			if _, ok := pkg.Scope().Lookup(n).(*types.Var); ok {
				names = append(names, pkg.Name()+"."+n)
			}
		}
		for _, f := range files[path] {
			for _, d := range f.Decls {
				fd, ok := d.(*ast.FuncDecl)
				if !ok || fd.Body == nil {
					continue // package-level var declarations are the initialisation itself
				}
				if fd.Recv == nil && fd.Name.Name == "init" {
					continue
				}
				ast.Inspect(fd.Body, func(n ast.Node) bool {
					report := func(e ast.Expr, kind string) {
						if name, ok := isGlobal(e); ok {
							out = append(out, finding{fset.Position(e.Pos()).String(), name, kind})
						}
					}
					switch x := n.(type) {
					case *ast.AssignStmt:
						if x.Tok != token.DEFINE {
							for _, l := range x.Lhs {
								report(l, "assignment")
							}
						}
					case *ast.IncDecStmt:
						report(x.X, "increment/decrement")
					case *ast.CallExpr:
						if id, ok := x.Fun.(*ast.Ident); ok && (id.Name == "delete" || id.Name == "clear") && len(x.Args) >= 1 {
							if _, isBuiltin := info.Uses[id].(*types.Builtin); isBuiltin {
								report(x.Args[0], id.Name)
							}
						}
					case *ast.UnaryExpr:
						if x.Op == token.AND {
							report(x.X, "address taken")
						}
					case *ast.RangeStmt:
						if x.Tok == token.ASSIGN {
							if x.Key != nil {
								report(x.Key, "range assignment")
							}
							if x.Value != nil {
								report(x.Value, "range assignment")
							}
						}
					}
					return true
				})
			}
		}
	}
	sort.Strings(names)
	b, _ := json.Marshal(map[string]any{"variables": names, "writes": out})
	fmt.Println(string(b))
}

type importerFunc func(path string) (*types.Package, error)

func (f importerFunc) Import(path string) (*types.Package, error) { return f(path) }
func (f importerFunc) ImportFrom(path, dir string, mode types.ImportMode) (*types.Package, error) {
	return f(path)
}
