(* Scratch prototype: UnmarshalJSON on a JSON concrete syntax tree *)
Require Import Parser Render.
From Coq Require Import List Ascii String ZArith Bool Lia.
Import ListNotations.
Open Scope string_scope.

(* concrete syntax tree; strings keep their raw (still escaped, with quotes) and decoded text, numbers their raw text *)
Inductive jv :=
| JNull | JTrue | JFalse
| JNum (raw : string)
| JStr (raw : string) (dec : string)
| JArr (l : list jv)
| JObj (l : list (string * string * jv)).   (* raw key (with quotes), decoded key, value *)

Fixpoint jraw (v : jv) : string :=
  match v with
  | JNull => "null" | JTrue => "true" | JFalse => "false"
  | JNum r => r
  | JStr r _ => r
  | JArr l => "[" ++ join "," (map jraw l) ++ "]"
  | JObj l => "{" ++ join "," (map (fun '(rk, _, x) => rk ++ ":" ++ jraw x) l) ++ "}"
  end.

Record oracle4 := { is_space_rune_byte : ascii -> bool (* approximation hook: ASCII whitespace only in the prototype *) }.

Section J.
Variable o : Parser.oracle.

Definition lower_ascii (c : ascii) : ascii :=
  let n := nat_of_ascii c in if (65 <=? n)%nat && (n <=? 90)%nat then ascii_of_nat (n + 32) else c.
Fixpoint lower (s : string) : string := match s with EmptyString => "" | String c r => String (lower_ascii c) (lower r) end.

(* last binding of a key, compared case-insensitively (ASCII) *)
Fixpoint lookup (k : string) (l : list (string * string * jv)) (acc : option jv) : option jv :=
  match l with
  | [] => acc
  | (_, dk, v) :: r => lookup k r (if String.eqb (lower dk) k then Some v else acc)
  end.

Fixpoint substr_at (p s : string) : bool := (* p is a prefix of s *)
  match p, s with
  | EmptyString, _ => true
  | String a p', String b s' => Ascii.eqb a b && substr_at p' s'
  | _, _ => false
  end.
Fixpoint contains (p s : string) : bool :=
  substr_at p s || match s with EmptyString => false | String _ r => contains p r end.

Definition is_ws (c : ascii) : bool :=
  let n := nat_of_ascii c in (n =? 32)%nat || (n =? 9)%nat || (n =? 10)%nat || (n =? 13)%nat || (n =? 11)%nat || (n =? 12)%nat.
Fixpoint strip_ws (s : string) : string :=
  match s with EmptyString => "" | String c r => if is_ws c then strip_ws r else String c (strip_ws r) end.

Definition looks_like_boundary (v : jv) : bool :=
  let s := strip_ws (jraw v) in
  contains """min"":" s && contains """max"":" s && negb (contains """left"":" s).

Definition op_of_string (s : string) : operator :=
  let tbl := [And; Or; Equals; Like; Not; Range; Must; MustNot; Boost; Fuzzy; Literal; Wild; Regexp; Greater; Less; GreaterEq; LessEq; Tables.In; Tables.List] in
  match find (fun op => String.eqb (op_string op) s) tbl with Some op => op | None => Undefined end.

Inductive dres := DOk (e : expr) | DErr | DPanic (s : string).

Definition unmarshal_literal (v : jv) : dres :=
  match atoi (jraw v) with
  | Some i => DOk (lit (VInt i))
  | None =>
    match parse_float o (jraw v) with
    | Some f => DOk (lit (VFloat f))
    | None =>
      match v with
      | JStr _ d => DOk (literal_to_expr (VStr d))
      | JNull => DOk (literal_to_expr (VStr ""))
      | _ => DErr
      end
    end
  end.

(* all bindings of a key in document order (encoding/json matches keys case-insensitively and processes every one) *)
Fixpoint bindings (k : string) (l : list (string * string * jv)) : list jv :=
  match l with
  | [] => []
  | (_, dk, v) :: r => if String.eqb (lower dk) k then v :: bindings k r else bindings k r
  end.

(* struct field decoders: fold over the bindings; None = a type error was recorded (it is returned at the end) *)
Definition fold_field {A} (step : A -> jv -> option A) (init : A) (vs : list jv) : option A :=
  fold_left (fun acc v => match acc with Some a => step a v | None => None end) vs (Some init).

Definition dec_int (vs : list jv) : option (option Z) :=
  fold_field (fun _ v => match v with JNull => Some None | JNum r => match atoi r with Some z => Some (Some z) | None => None end | _ => None end) None vs.
Definition dec_float (vs : list jv) : option (option Z) :=
  fold_field (fun _ v => match v with
    | JNull => Some None
    | JNum r => match parse_float o r with Some f => if is_nan_or_inf o f then None else Some (Some f) | None => None end
    | _ => None end) None vs.
Definition dec_string (vs : list jv) : option string :=
  fold_field (fun a v => match v with JNull => Some a | JStr _ d => Some d | _ => None end) "" vs.
Definition dec_bool (vs : list jv) : option bool :=
  fold_field (fun a v => match v with JNull => Some a | JTrue => Some true | JFalse => Some false | _ => None end) false vs.
Definition dec_raw (vs : list jv) : option jv := last (map Some vs) None.

(* "boundaries" is decoded into *RangeBoundary{Min any; Max any; Inclusive bool} and then ignored *)
Definition dec_boundaries_ok (vs : list jv) : bool :=
  forallb (fun v => match v with
    | JNull => true
    | JObj l => match dec_bool (bindings "inclusive" l) with Some _ => true | None => false end
    | _ => false end) vs.

(* ---- the object case, with the recursive decoder passed in (so that each piece has a name) ---- *)
Definition lift (um : jv -> dres) (x : jv) : option value + string :=
  match um x with DOk e => inl (Some (VExp e)) | DErr => inl None | DPanic s => inr s end.

Fixpoint left_list (xs : list jv) (acc : list expr) : option value + string :=
  match xs with
  | [] => inl (Some (VList (rev acc)))
  | x :: r => match unmarshal_literal x with DOk e => left_list r (e :: acc) | DErr => inl None | DPanic s => inr s end
  end.

Definition dec_left (um : jv -> dres) (cleft : option jv) : option value + string :=
  match cleft with
  | None => inl None                         (* json.Unmarshal of empty RawMessage fails *)
  | Some (JArr xs) => left_list xs []
  | Some x => lift um x
  end.

Definition bound_step (um : jv -> dres) (acc : option value + string) (x : jv) : option value + string :=
  match acc with
  | inl (Some _) => match x with JNull => inl (Some VNil) | _ => lift um x end
  | _ => acc
  end.
Definition dec_bound (um : jv -> dres) (vs : list jv) : option value + string :=
  fold_left (bound_step um) vs (inl (Some VNil)).

Definition dec_right (um : jv -> dres) (cright : option jv) : option value + string :=
  match cright with
  | None => inl (Some VNil)
  | Some r =>
    if looks_like_boundary r then
      match r with
      | JObj rl =>
        match dec_bound um (bindings "min" rl), dec_bound um (bindings "max" rl), dec_bool (bindings "inclusive" rl) with
        | inr s, _, _ | _, inr s, _ => inr s
        | inl (Some mn), inl (Some mx), Some incl => inl (Some (VBound mn mx incl))
        | _, _, _ => inl None
        end
      | _ => inl None
      end
    else lift um r
  end.

Definition um_obj (um : jv -> dres) (l : list (string * string * jv)) : dres :=
  match dec_string (bindings "operator" l), dec_int (bindings "distance" l), dec_float (bindings "power" l),
        dec_boundaries_ok (bindings "boundaries" l) with
  | Some opname, Some dist, Some pow, true =>
    let op := op_of_string opname in
    match dec_left um (dec_raw (bindings "left" l)) with
    | inr s => DPanic s
    | inl None => DErr
    | inl (Some lv) =>
      let lv := if is_stringlike lv && operates_on_column op then wrap_in_column lv else lv in
      match dec_right um (dec_raw (bindings "right" l)) with
      | inr s => DPanic s
      | inl None => DErr
      | inl (Some rv) =>
        let fz := match op with Fuzzy => match dist with Some d => d | None => 1%Z end | _ => 1%Z end in
        let bp := match op with Boost => match pow with Some p => p | None => one_bits end | _ => one_bits end in
        DOk (E lv op rv bp fz)
      end
    end
  | _, _, _, _ => DErr
  end.

Fixpoint unmarshal (fuel : nat) (v : jv) {struct fuel} : dres :=
  match fuel with
  | 0 => DErr
  | S f => match v with JObj l => um_obj (unmarshal f) l | _ => unmarshal_literal v end
  end.

Fixpoint jsize (v : jv) : nat :=
  match v with
  | JArr l => S (fold_right (fun x a => jsize x + a) 0 l)
  | JObj l => S (fold_right (fun '(_, _, x) a => jsize x + a) 0 l)
  | _ => 1
  end.
Definition decode (v : jv) : dres := unmarshal (S (jsize v)) v.

End J.

