Require Import Parser ParserShape.
From Coq Require Import List String ZArith Bool Lia Arith.
Import ListNotations.
Close Scope string_scope.
Open Scope nat_scope.
Arguments parse_literal : simpl never.
Arguments to_positive_float : simpl never.
Arguments expr_new : simpl never.
Arguments wrap_literal : simpl never.
Arguments drop : simpl never.

Section S2.
Variable o : oracle.
Variable df : string.
Notation items_wf := ParserShape.items_wf.
Definition cfg_wf (c : cfg) : Prop := items_wf (rs c) /\ match pend c with Some l => wf false l = true | None => True end.

Lemma step_wf c : cfg_wf c ->
  match step o df c with
  | Next c' => cfg_wf c'
  | Accept e => wf false e = true
  | _ => True
  end.
Proof.
  intros [Hr Hp]. destruct c as [r n tk p]. cbn [rs pend] in *. unfold step. cbn [pend ns rs toks].
  assert (HR : match do_reduce o {| rs := r; ns := n; toks := tk; pend := p |} df with
               | Next c' => cfg_wf c' | Accept e => wf false e = true | _ => True end).
  { unfold do_reduce. cbn [rs ns toks pend].
    destruct (reduce_loop o r [] n df) eqn:E; auto.
    split; cbn [rs pend]; auto. exact (reduce_wf o df r [] n rstack nts Hr items_wf_nil E). }
  destruct p as [l|].
  - destruct (should_shift n impl_and) as [[|]|s]; [|exact HR|exact I].
    split; cbn [rs pend]; auto. apply items_wf_cons_e; auto. apply items_wf_cons_t; auto.
  - destruct (is TEOF (hd eof tk) && Nat.eqb (List.length r) 1).
    + destruct r as [|[?|e] [|? ?]]; auto.
      assert (We : wf false e = true) by (apply Hr; left; reflexivity).
      destruct (is_leaf_op (e_op e) && negb (String.eqb df "")) eqn:C; auto.
      unfold eq_. rewrite expr_new_dfcol.
      apply andb_true_iff in C. destruct C as [C _].
      assert (Hl : is_leaf e = true).
      { destruct e as [l0 op r0 b f]. cbn in C. destruct op; try discriminate; cbn in We; auto. }
      rewrite should_use_like_pattern by auto.
      destruct (is_pattern e) eqn:P; cbn; rewrite ?P; cbn; auto. rewrite (is_leaf_wf false e Hl). reflexivity.
    + destruct (should_shift n (hd eof tk)) as [[|]|s]; [|exact HR|exact I].
      destruct (is_terminal (hd eof tk)).
      * destruct r as [|[?|?] ?]; split; cbn [rs pend]; auto;
          try (apply items_wf_cons_e; auto); try apply is_leaf_wf; try apply parse_literal_leaf.
      * split; cbn [rs pend]; auto. apply items_wf_cons_t; auto.
Qed.

Lemma run_wf : forall fuel c, cfg_wf c -> match run o fuel df c with PTree e => wf false e = true | _ => True end.
Proof.
  induction fuel as [|f IH]; intros c HC; cbn [run]; auto.
  pose proof (step_wf c HC) as HS. destruct (step o df c) as [c'|e| |s]; auto.
  apply IH. exact HS.
Qed.

(* ---------- Validate turns the loose shape into the strict one ---------- *)
Lemma lit_leaf x : wf false x = true -> is_literal_expr (VExp x) = true -> is_leaf x = true.
Proof.
  intros Wx Lx. unfold is_literal_expr in Lx. apply andb_true_iff in Lx. destruct Lx as [Lo _].
  destruct x as [xl xo xr xb xf]. cbn in Lo. destruct xo; try discriminate; cbn in Wx; auto.
Qed.

Ltac split_and :=
  repeat match goal with H : _ && _ = true |- _ => apply andb_true_iff in H; destruct H end.

Lemma validate_strict : forall n e, esize e <= n -> wf false e = true -> validate e = true -> wf true e = true.
Proof.
  induction n as [|n IH]; intros e Hs W V; [destruct e; cbn in Hs; lia|].
  destruct e as [l op r b f]. cbn [validate] in V. apply andb_true_iff in V. destruct V as [VN VC].
  unfold validate_node in VN. cbn [e_op e_left e_right] in VN.
  destruct op; cbn [wf] in W |- *; try discriminate; try exact W.
  - (* And *)
    destruct l as [| | | | | | a | |]; try discriminate; destruct r as [| | | | | | c | |]; try discriminate.
    cbn in Hs. split_and. rewrite (IH a), (IH c) by (auto; lia). reflexivity.
  - (* Or *)
    destruct l as [| | | | | | a | |]; try discriminate; destruct r as [| | | | | | c | |]; try discriminate.
    cbn in Hs. split_and. rewrite (IH a), (IH c) by (auto; lia). reflexivity.
  - (* Equals *)
    destruct l as [| | | | | | a | |]; try discriminate; destruct r as [| | | | | | c | |]; try discriminate.
    cbn in Hs. split_and. rewrite (lit_leaf a), (IH c) by (auto; lia). cbn. assumption.
  - (* Like *)
    destruct l as [| | | | | | a | |]; try discriminate; destruct r as [| | | | | | c | |]; try discriminate.
    split_and. rewrite (lit_leaf a) by auto. cbn. assumption.
  - (* Not *)
    destruct l as [| | | | | | a | |]; try discriminate; destruct r; try discriminate.
    cbn in Hs. split_and. apply (IH a); auto; lia.
  - (* Range *)
    destruct l as [| | | | | | a | |]; try discriminate; destruct r as [| | | | | | | |mn mx incl]; try discriminate.
    destruct mn as [| | | | | | x | |]; try discriminate; destruct mx as [| | | | | | y | |]; try discriminate.
    split_and. rewrite (lit_leaf a), (lit_leaf x), (lit_leaf y) by auto. reflexivity.
  - (* Must *)
    destruct l as [| | | | | | a | |]; try discriminate; destruct r; try discriminate.
    cbn in Hs. split_and. apply (IH a); auto; lia.
  - (* MustNot *)
    destruct l as [| | | | | | a | |]; try discriminate; destruct r; try discriminate.
    cbn in Hs. split_and. apply (IH a); auto; lia.
  - (* Boost *)
    destruct l as [| | | | | | a | |]; try discriminate; destruct r; try discriminate.
    cbn in Hs. split_and. apply (IH a); auto; lia.
  - (* Fuzzy *)
    destruct l as [| | | | | | a | |]; try discriminate; destruct r; try discriminate.
    cbn in Hs. split_and. apply (IH a); auto; lia.
  - (* Greater *)
    destruct l as [| | | | | | a | |]; try discriminate; destruct r as [| | | | | | c | |]; try discriminate.
    cbn in Hs. split_and. rewrite (lit_leaf a), (IH c) by (auto; lia). reflexivity.
  - (* Less *)
    destruct l as [| | | | | | a | |]; try discriminate; destruct r as [| | | | | | c | |]; try discriminate.
    cbn in Hs. split_and. rewrite (lit_leaf a), (IH c) by (auto; lia). reflexivity.
  - (* GreaterEq *)
    destruct l as [| | | | | | a | |]; try discriminate; destruct r as [| | | | | | c | |]; try discriminate.
    cbn in Hs. split_and. rewrite (lit_leaf a), (IH c) by (auto; lia). reflexivity.
  - (* LessEq *)
    destruct l as [| | | | | | a | |]; try discriminate; destruct r as [| | | | | | c | |]; try discriminate.
    cbn in Hs. split_and. rewrite (lit_leaf a), (IH c) by (auto; lia). reflexivity.
  - (* In *)
    destruct l as [| | | | | | a | |]; try discriminate; destruct r as [| | | | | | c | |]; try discriminate.
    destruct c as [cl co cr cb cf]. destruct cl; try discriminate. destruct co; try discriminate. destruct cr; try discriminate.
    split_and. rewrite (lit_leaf a) by auto. cbn [andb]. apply andb_true_iff; split; assumption.
Qed.

(* C10, shape clause: whatever parse_toks returns is strictly well-formed (and validates by definition) *)
Theorem parse_wf : forall ts e, parse_toks o df ts = PTree e -> wf true e = true /\ validate e = true.
Proof.
  intros ts e H. unfold parse_toks in H.
  pose proof (run_wf (4 * List.length ts + 4) {| rs := []; ns := [start]; toks := ts; pend := None |}) as HW.
  destruct (run o (4 * List.length ts + 4) df _) as [e0| | |] eqn:R; try discriminate.
  destruct (validate e0) eqn:V; try discriminate. inversion H; subst.
  split; auto. eapply validate_strict; eauto. apply HW. split; cbn; auto. apply items_wf_nil.
Qed.
Print Assumptions parse_wf.

End S2.
