(* The lexer's view of a token does not depend on what follows it - for ALL byte strings (any UTF-8 validity), generalising the
   ASCII development of LexWs.v. First the decoder: a decoding step that stays inside x reads at most three bytes of lookahead
   beyond x, and only to find out that a truncated sequence is not continued; any context whose first byte is not a continuation
   byte (or the end of input) gives the same step. *)
Require Import Lex LexProof LexFuel.
From Coq Require Import List Ascii String NArith Bool Arith Lia.
Import ListNotations.

Definition hd_ok (r : bytes) : Prop := match r with [] => True | c :: _ => cont (bval c) = false end.

Lemma sub_cont lo hi v : (128 <= lo)%N -> (hi <= 191)%N -> in_range lo hi v = true -> cont v = true.
Proof. unfold cont, in_range. intros A B H. apply andb_true_iff in H. destruct H as [H1 H2]. apply N.leb_le in H1, H2. apply andb_true_iff. split; apply N.leb_le; lia. Qed.

Definition ok3 (b0 b1 : N) : bool := if (b0 =? 224)%N then in_range 160 191 b1 else if (b0 =? 237)%N then in_range 128 159 b1 else cont b1.
Definition ok4 (b0 b1 : N) : bool := if (b0 =? 240)%N then in_range 144 191 b1 else if (b0 =? 244)%N then in_range 128 143 b1 else cont b1.
Lemma ok3_cont b0 b1 : ok3 b0 b1 = true -> cont b1 = true.
Proof. unfold ok3. destruct (b0 =? 224)%N; [apply sub_cont; lia|]. destruct (b0 =? 237)%N; [apply sub_cont; lia|auto]. Qed.
Lemma ok4_cont b0 b1 : ok4 b0 b1 = true -> cont b1 = true.
Proof. unfold ok4. destruct (b0 =? 240)%N; [apply sub_cont; lia|]. destruct (b0 =? 244)%N; [apply sub_cont; lia|auto]. Qed.

(* the decoder, restated over "the next byte, if any" *)
Definition nb (s : bytes) : option N := match s with [] => None | c :: _ => Some (bval c) end.
Definition okb (p : N -> bool) (o : option N) : bool := match o with Some b => p b | None => false end.

Lemma decode_shape c0 s :
  decode_rune (c0 :: s) =
  let b0 := bval c0 in
  if (b0 <? 128)%N then Some (b0, 1) else
  if in_range 194 223 b0 then
    if okb cont (nb s) then Some (((b0 - 192) * 64 + (match nb s with Some b1 => b1 | None => 0 end - 128))%N, 2) else Some (rune_error, 1)
  else if in_range 224 239 b0 then
    if okb (ok3 b0) (nb s) && okb cont (nb (tl s)) then
      Some (((b0 - 224) * 4096 + (match nb s with Some b1 => b1 | None => 0 end - 128) * 64 + (match nb (tl s) with Some b2 => b2 | None => 0 end - 128))%N, 3)
    else Some (rune_error, 1)
  else if in_range 240 244 b0 then
    if okb (ok4 b0) (nb s) && okb cont (nb (tl s)) && okb cont (nb (tl (tl s))) then
      Some (((b0 - 240) * 262144 + (match nb s with Some b1 => b1 | None => 0 end - 128) * 4096 + (match nb (tl s) with Some b2 => b2 | None => 0 end - 128) * 64
             + (match nb (tl (tl s)) with Some b3 => b3 | None => 0 end - 128))%N, 4)
    else Some (rune_error, 1)
  else Some (rune_error, 1).
Proof.
  unfold decode_rune. cbv zeta. destruct (bval c0 <? 128)%N; [reflexivity|].
  destruct (in_range 194 223 (bval c0)). { destruct s as [|c1 s]; reflexivity. }
  destruct (in_range 224 239 (bval c0)). { destruct s as [|c1 [|c2 s]]; cbn [nb tl okb andb]; try reflexivity. rewrite andb_false_r. reflexivity. }
  destruct (in_range 240 244 (bval c0)); [|reflexivity].
  destruct s as [|c1 [|c2 [|c3 s]]]; cbn [nb tl okb andb]; try reflexivity; rewrite ?andb_false_r; reflexivity.
Qed.

(* the bytes of x ++ r seen from x: inside x they do not depend on r; at the end of x a non-continuation byte or nothing *)
Lemma nb_app_in x r : x <> [] -> nb (x ++ r) = nb x. Proof. destruct x; [contradiction|reflexivity]. Qed.
Lemma tl_app_in (x r : bytes) : x <> [] -> tl (x ++ r) = tl x ++ r. Proof. destruct x; [contradiction|reflexivity]. Qed.
Lemma okb_hd p r : (forall b, p b = true -> cont b = true) -> hd_ok r -> okb p (nb r) = false.
Proof. intros Hp H. destruct r as [|c r]; [reflexivity|]. cbn in *. destruct (p (bval c)) eqn:E; [apply Hp in E; congruence|reflexivity]. Qed.

Lemma decode_ctx : forall x r r' rn w, decode_rune (x ++ r) = Some (rn, w) -> w <= List.length x -> hd_ok r' ->
  decode_rune (x ++ r') = Some (rn, w).
Proof.
  intros x r r' rn w D Hw Hr'.
  destruct x as [|c0 x]; [cbn in Hw; pose proof (decode_width _ _ _ D); lia|].
  cbn [app] in *. rewrite decode_shape in *. cbv zeta in *.
  destruct (bval c0 <? 128)%N; [exact D|].
  destruct (in_range 194 223 (bval c0)).
  { destruct x as [|c1 x]; [|exact D]. cbn [app] in *. rewrite (okb_hd cont r' (fun b H => H) Hr').
    destruct (okb cont (nb r)); [inversion D; subst; cbn in Hw; lia|exact D]. }
  destruct (in_range 224 239 (bval c0)).
  { destruct x as [|c1 x].
    - cbn [app] in *. rewrite (okb_hd (ok3 (bval c0)) r' (ok3_cont _) Hr'). cbn [andb].
      destruct (okb (ok3 (bval c0)) (nb r) && okb cont (nb (tl r))); [inversion D; subst; cbn in Hw; lia|exact D].
    - destruct x as [|c2 x]; [|exact D]. cbn [app nb tl okb] in *. rewrite (okb_hd cont r' (fun b H => H) Hr'). rewrite andb_false_r.
      destruct (ok3 (bval c0) (bval c1) && okb cont (nb r)); [inversion D; subst; cbn in Hw; lia|exact D]. }
  destruct (in_range 240 244 (bval c0)); [|exact D].
  destruct x as [|c1 x].
  { cbn [app] in *. rewrite (okb_hd (ok4 (bval c0)) r' (ok4_cont _) Hr'). cbn [andb].
    destruct (okb (ok4 (bval c0)) (nb r) && okb cont (nb (tl r)) && okb cont (nb (tl (tl r)))); [inversion D; subst; cbn in Hw; lia|exact D]. }
  destruct x as [|c2 x].
  { cbn [app nb tl okb] in *. rewrite (okb_hd cont r' (fun b H => H) Hr'). rewrite andb_false_r. cbn [andb].
    destruct (ok4 (bval c0) (bval c1) && okb cont (nb r) && okb cont (nb (tl r))); [inversion D; subst; cbn in Hw; lia|exact D]. }
  destruct x as [|c3 x]; [|exact D].
  cbn [app nb tl okb] in *. rewrite (okb_hd cont r' (fun b H => H) Hr'). rewrite andb_false_r.
  destruct (ok4 (bval c0) (bval c1) && cont (bval c2) && okb cont (nb r)); [inversion D; subst; cbn in Hw; lia|exact D].
Qed.

(* ---------- the three scanning loops ---------- *)
Section Loops.
Variable cl : classes.

Lemma take_onto_app : forall w (x r acc : bytes), w <= List.length x ->
  take_onto w (x ++ r) acc = (skipn w x ++ r, rev (firstn w x) ++ acc).
Proof.
  induction w as [|w IH]; intros x r acc H; [destruct x; reflexivity|].
  destruct x as [|c x]; [cbn in H; lia|]. cbn [app take_onto skipn firstn rev]. rewrite IH by (cbn in H; lia).
  rewrite <- app_assoc. reflexivity.
Qed.
Lemma skipn_len w (x : bytes) : w <= List.length x -> List.length (skipn w x) = List.length x - w.
Proof. intros H. rewrite skipn_length. reflexivity. Qed.

Definition wordlike (rn : N) : bool := is_alnum cl rn || is_wildcard rn || (rn =? 46)%N || (rn =? 45)%N.
Definition wstop (r : bytes) : Prop :=
  match decode_rune r with None => True | Some (rn, _) => wordlike rn = false /\ is_escape rn = false end.

Lemma decode_none s : decode_rune s = None -> s = [].
Proof. destruct s as [|c s]; [reflexivity|]. intros H. pose proof (decode_shape c s) as E. rewrite H in E. cbv zeta in E.
  repeat match type of E with context [if ?b then _ else _] => destruct b end; discriminate. Qed.

Lemma lex_word_ctx : forall f x r r' acc t, r <> [] ->
  lex_word cl f (x ++ r) acc = Tok t r -> hd_ok r' -> (wstop r -> wstop r') ->
  lex_word cl f (x ++ r') acc = Tok t r'.
Proof.
  induction f as [|f IH]; intros x r r' acc t Hr H Hh Hs; [discriminate|].
  cbn [lex_word] in H |- *.
  destruct x as [|c x].
  - (* the word ends here: the first rune of r stops it *)
    cbn [app] in *. destruct (decode_rune r) as [[rn w]|] eqn:D; [|apply decode_none in D; contradiction].
    assert (St : wordlike rn = false /\ is_escape rn = false).
    { destruct (wordlike rn || is_escape rn) eqn:C.
      - exfalso. assert (L : List.length r < List.length r); [|lia].
        apply (lex_word_progress cl f r acc t r rn w D); [unfold wordlike in C; exact C|cbn [lex_word]; rewrite D; exact H].
      - apply orb_false_iff in C. exact C. }
    destruct St as [S1 S2]. unfold wordlike in S1. rewrite S1, S2 in H. inversion H; subst t.
    assert (W : wstop r') by (apply Hs; unfold wstop; rewrite D; unfold wordlike; split; assumption).
    unfold wstop in W. destruct (decode_rune r') as [[rn' w']|]; [|inversion H; subst; apply f_equal; reflexivity].
    destruct W as [W1 W2]. unfold wordlike in W1. rewrite W1, W2. reflexivity.
  - destruct (decode_rune ((c :: x) ++ r)) as [[rn w]|] eqn:D; [|apply decode_none in D; discriminate].
    pose proof (decode_width _ _ _ D) as Hw.
    destruct (is_alnum cl rn || is_wildcard rn || (rn =? 46)%N || (rn =? 45)%N) eqn:C1.
    + destruct (take_onto w ((c :: x) ++ r) acc) as [s' acc'] eqn:T.
      pose proof (take_onto_spec _ _ _ _ _ T) as [_ L]. pose proof (lex_word_spec cl _ _ _ _ _ H) as [_ L2].
      rewrite app_length in L, Hw. assert (Wx : w <= List.length (c :: x)) by lia.
      rewrite (take_onto_app w (c :: x) r acc Wx) in T. inversion T; subst s' acc'.
      rewrite (decode_ctx (c :: x) r r' rn w D Wx Hh), C1, (take_onto_app w (c :: x) r' acc Wx).
      apply (IH _ r r' _ t Hr H Hh Hs).
    + destruct (is_escape rn) eqn:C2.
      * destruct (take_onto w ((c :: x) ++ r) acc) as [s1 acc1] eqn:T1.
        pose proof (take_onto_spec _ _ _ _ _ T1) as [_ L1]. rewrite app_length in L1, Hw.
        destruct (decode_rune s1) as [[r2 w2]|] eqn:D2.
        -- destruct (take_onto w2 s1 acc1) as [s2 acc2] eqn:T2.
           pose proof (take_onto_spec _ _ _ _ _ T2) as [_ L2]. pose proof (lex_word_spec cl _ _ _ _ _ H) as [_ L3].
           pose proof (decode_width _ _ _ D2) as Hw2.
           assert (Wx : w <= List.length (c :: x)) by lia.
           rewrite (take_onto_app w (c :: x) r acc Wx) in T1. inversion T1; subst s1 acc1.
           rewrite app_length, skipn_len in L2, Hw2 by exact Wx.
           assert (Wx2 : w2 <= List.length (skipn w (c :: x))) by (rewrite skipn_len by exact Wx; lia).
           rewrite (take_onto_app w2 _ r _ Wx2) in T2. inversion T2; subst s2 acc2.
           rewrite (decode_ctx (c :: x) r r' rn w D Wx Hh), C1, C2, (take_onto_app w (c :: x) r' acc Wx).
           rewrite (decode_ctx _ r r' r2 w2 D2 Wx2 Hh), (take_onto_app w2 _ r' _ Wx2).
           apply (IH _ r r' _ t Hr H Hh Hs).
        -- (* a dangling escape: only at the very end of the input *)
           exfalso. apply decode_none in D2. subst s1. pose proof (lex_word_spec cl _ _ _ _ _ H) as [_ L3]. destruct r; [contradiction|]. cbn in L3. lia.
      * inversion H. exfalso. assert (L : List.length ((c :: x) ++ r) = List.length r) by congruence. rewrite app_length in L. cbn in L. lia.
Qed.

Lemma lex_phrase_ctx : forall f open x r r' acc t,
  lex_phrase cl f open (x ++ r) acc = Tok t r -> hd_ok r' -> lex_phrase cl f open (x ++ r') acc = Tok t r'.
Proof.
  induction f as [|f IH]; intros open x r r' acc t H Hh; [discriminate|].
  cbn [lex_phrase] in H |- *.
  destruct (decode_rune (x ++ r)) as [[rn w]|] eqn:D; [|discriminate].
  pose proof (decode_width _ _ _ D) as Hw.
  destruct (take_onto w (x ++ r) acc) as [s' acc'] eqn:T.
  pose proof (take_onto_spec _ _ _ _ _ T) as [_ L]. rewrite app_length in L, Hw.
  assert (Wx : w <= List.length x).
  { destruct (is_alnum cl rn || is_wildcard rn || is_escape rn); [pose proof (lex_phrase_spec cl _ _ _ _ _ _ H) as [_ L2]; lia|].
    destruct (is_space rn); [pose proof (lex_phrase_spec cl _ _ _ _ _ _ H) as [_ L2]; lia|].
    destruct (rn =? open)%N; [inversion H; subst; lia|pose proof (lex_phrase_spec cl _ _ _ _ _ _ H) as [_ L2]; lia]. }
  rewrite (take_onto_app w x r acc Wx) in T. inversion T; subst s' acc'.
  rewrite (decode_ctx x r r' rn w D Wx Hh), (take_onto_app w x r' acc Wx).
  destruct (is_alnum cl rn || is_wildcard rn || is_escape rn); [apply (IH _ _ r r' _ t H Hh)|].
  destruct (is_space rn); [apply (IH _ _ r r' _ t H Hh)|].
  destruct (rn =? open)%N; [|apply (IH _ _ r r' _ t H Hh)].
  inversion H. assert (E : skipn w x = []).
  { assert (L3 : List.length (skipn w x ++ r) = List.length r) by congruence. rewrite app_length in L3. destruct (skipn w x); [reflexivity|cbn in L3; lia]. }
  rewrite E. reflexivity.
Qed.

Lemma lex_regexp_ctx : forall f open x r r' acc t,
  lex_regexp cl f open (x ++ r) acc = Tok t r -> hd_ok r' -> lex_regexp cl f open (x ++ r') acc = Tok t r'.
Proof.
  induction f as [|f IH]; intros open x r r' acc t H Hh; [discriminate|].
  cbn [lex_regexp] in H |- *.
  destruct (decode_rune (x ++ r)) as [[rn w]|] eqn:D; [|discriminate].
  pose proof (decode_width _ _ _ D) as Hw.
  destruct (take_onto w (x ++ r) acc) as [s' acc'] eqn:T.
  pose proof (take_onto_spec _ _ _ _ _ T) as [_ L]. rewrite app_length in L, Hw.
  destruct (is_alnum cl rn || is_wildcard rn) eqn:C1.
  { pose proof (lex_regexp_spec cl _ _ _ _ _ _ H) as [_ L2]. assert (Wx : w <= List.length x) by lia.
    rewrite (take_onto_app w x r acc Wx) in T. inversion T; subst s' acc'.
    rewrite (decode_ctx x r r' rn w D Wx Hh), (take_onto_app w x r' acc Wx), C1. apply (IH _ _ r r' _ t H Hh). }
  destruct (is_escape rn) eqn:C2.
  { destruct (decode_rune s') as [[r2 w2]|] eqn:D2.
    - destruct (take_onto w2 s' acc') as [s2 acc2] eqn:T2.
      pose proof (take_onto_spec _ _ _ _ _ T2) as [_ L2]. pose proof (lex_regexp_spec cl _ _ _ _ _ _ H) as [_ L3].
      pose proof (decode_width _ _ _ D2) as Hw2.
      assert (Wx : w <= List.length x) by lia.
      rewrite (take_onto_app w x r acc Wx) in T. inversion T; subst s' acc'.
      rewrite app_length, skipn_len in L2, Hw2 by exact Wx.
      assert (Wx2 : w2 <= List.length (skipn w x)) by (rewrite skipn_len by exact Wx; lia).
      rewrite (take_onto_app w2 _ r _ Wx2) in T2. inversion T2; subst s2 acc2.
      rewrite (decode_ctx x r r' rn w D Wx Hh), (take_onto_app w x r' acc Wx), C1, C2.
      rewrite (decode_ctx _ r r' r2 w2 D2 Wx2 Hh), (take_onto_app w2 _ r' _ Wx2).
      apply (IH _ _ r r' _ t H Hh).
    - (* a backslash as the very last byte: the regexp is unterminated *)
      exfalso. apply decode_none in D2. subst s'. destruct f as [|f0]; [discriminate|]. cbn [lex_regexp decode_rune] in H. discriminate. }
  assert (Wx : w <= List.length x).
  { destruct (is_space rn); [pose proof (lex_regexp_spec cl _ _ _ _ _ _ H) as [_ L2]; lia|].
    destruct (rn =? open)%N; [inversion H; subst; lia|pose proof (lex_regexp_spec cl _ _ _ _ _ _ H) as [_ L2]; lia]. }
  rewrite (take_onto_app w x r acc Wx) in T. inversion T; subst s' acc'.
  rewrite (decode_ctx x r r' rn w D Wx Hh), (take_onto_app w x r' acc Wx), C1, C2.
  destruct (is_space rn); [apply (IH _ _ r r' _ t H Hh)|].
  destruct (rn =? open)%N; [|apply (IH _ _ r r' _ t H Hh)].
  inversion H. assert (E : skipn w x = []).
  { assert (L3 : List.length (skipn w x ++ r) = List.length r) by congruence. rewrite app_length in L3. destruct (skipn w x); [reflexivity|cbn in L3; lia]. }
  rewrite E. reflexivity.
Qed.
End Loops.
