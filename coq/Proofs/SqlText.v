(* C02 / C03: the TEXT the inline renderer returns for a tree of the filterable fragment is the text Proofs/SqlLex.btxt - whose
   tokens, as PostgreSQL's scanner reads them, are the sequence Spec/SqlFrag.tr (Proofs/SqlLex.btxt_pg_lex). With Proofs/SqlParse
   and Proofs/SqlSemProof this closes the chain on the model: Render e = (s, nil) -> pg_read s = Some a, a allowed, a true on
   exactly the rows of the query. *)
Require Import Parser ParserShape Render RenderStr RenderStr2 RenderCount RenderCountP RenderParamTotal RenderNum RenderEmpty PgModel QuerySem SqlSem SqlFrag.
Require PgQuote.
Require Import RenderInline Decimal SqlLex SqlSemProof.
From Coq Require Import List Ascii String ZArith Bool Lia Arith.
Import ListNotations.
Open Scope string_scope.

Section T.
Variable o2 : oracle2.

Lemma str_app a b : str (a ++ b) = (str a ++ str b)%list.
Proof. induction a as [|c a IH]; [reflexivity|]. cbn [append]. unfold str in *. cbn [list_ascii_of_string app]. rewrite IH. reflexivity. Qed.

Lemma str_cons c s : str (String c s) = c :: str s. Proof. reflexivity. Qed.
Lemma str_nil : str "" = []. Proof. reflexivity. Qed.
Ltac norm_str := repeat (rewrite str_cons || rewrite str_app || rewrite str_nil); cbn [app]; repeat (rewrite <- app_assoc; cbn [app]).

Lemma str_double v : str (replace_char "'"%char "''" v) = PgQuote.double (str v).
Proof.
  induction v as [|c v IH]; [reflexivity|]. cbn [replace_char]. unfold str in *. cbn [list_ascii_of_string PgQuote.double].
  destruct (Ascii.eqb c "'"%char) eqn:E.
  - apply Ascii.eqb_eq in E. subst c. cbn [append list_ascii_of_string]. rewrite IH. reflexivity.
  - cbn [list_ascii_of_string]. rewrite IH. reflexivity.
Qed.

Lemma str_sqs v : str (sqs v) = bsq v.
Proof. unfold sqs, bsq. rewrite !str_app, str_double. reflexivity. Qed.
Lemma str_dqs f : str (dqs f) = bdq f.
Proof. unfold dqs, bdq. rewrite !str_app. reflexivity. Qed.
Lemma str_zs z : str (z_to_string z) = bint z.
Proof. unfold z_to_string, bint, nat_digits. destruct (z <? 0)%Z; [rewrite str_app|]; reflexivity. Qed.

(* ---- Render, one node ---- *)
Lemma render_inv l op r b fz s : render o2 (E l op r b fz) = Ret (s, None) ->
  exists lf rt fn, serialize o2 l = Ret (lf, None) /\ serialize o2 r = Ret (rt, None) /\ pg_fn o2 op = Some fn /\
    fn (wrap_if (negb (no_wrap_op op) && negb (is_simple l)) lf) (wrap_if (negb (no_wrap_op op) && negb (is_simple r)) rt) = Ret (s, None).
Proof.
  intros H. rewrite render_eq in H.
  destruct (serialize o2 l) as [[lf [el|]]|]; cbn [bind] in H; try discriminate H.
  destruct (serialize o2 r) as [[rt [er|]]|]; cbn [bind] in H; try discriminate H.
  unfold rn_node in H. destruct (pg_fn o2 op) as [fn|]; [|discriminate H]. exists lf, rt, fn. auto.
Qed.

Lemma fn_literal_inv l r s : fn_literal o2 l r = (s, None) -> s = l.
Proof. unfold fn_literal. destruct (negb (valid_utf8 o2 l)); [discriminate|]. destruct (contains_char _ l); [discriminate|]. intros H. inversion H. reflexivity. Qed.

Lemma ser_exp e : serialize o2 (VExp e) = render o2 e. Proof. destruct e; reflexivity. Qed.

(* leaves *)
Lemma render_col f b fz s : render o2 (E (VCol f) Literal VNil b fz) = Ret (s, None) -> s = dqs f.
Proof.
  intros H. destruct (render_inv _ _ _ _ _ _ H) as [lf [rt [fn [Hl [Hr [Hf Hs]]]]]].
  cbn [serialize] in Hl, Hr. inversion Hr; subst rt. cbn [pg_fn] in Hf. inversion Hf; subst fn. cbn [no_wrap_op negb andb wrap_if] in Hs.
  inversion Hs as [Hs']. apply fn_literal_inv in Hs'. subst s.
  unfold ser_column in Hl. destruct (String.eqb f ""); [discriminate|]. destruct (contains_char _ f); [discriminate|]. inversion Hl. reflexivity.
Qed.
Lemma render_int z b fz s : render o2 (E (VInt z) Literal VNil b fz) = Ret (s, None) -> s = z_to_string z.
Proof.
  intros H. destruct (render_inv _ _ _ _ _ _ H) as [lf [rt [fn [Hl [Hr [Hf Hs]]]]]].
  cbn [serialize] in Hl, Hr. inversion Hl; subst lf. inversion Hr; subst rt. cbn [pg_fn] in Hf. inversion Hf; subst fn. cbn [no_wrap_op negb andb wrap_if] in Hs.
  inversion Hs as [Hs']. apply fn_literal_inv in Hs'. exact Hs'.
Qed.
Lemma render_strleaf v op b fz s : (op = Literal \/ op = Wild) -> render o2 (E (VStr v) op VNil b fz) = Ret (s, None) -> s = sqs v.
Proof.
  intros Ho H. destruct (render_inv _ _ _ _ _ _ H) as [lf [rt [fn [Hl [Hr [Hf Hs]]]]]].
  cbn [serialize] in Hl, Hr. inversion Hl; subst lf. inversion Hr; subst rt.
  destruct Ho as [-> | ->]; cbn [pg_fn] in Hf; inversion Hf; subst fn; cbn [no_wrap_op negb andb wrap_if is_simple] in Hs;
    inversion Hs as [Hs']; apply fn_literal_inv in Hs'; exact Hs'.
Qed.

Lemma field_of_inv l f : field_of l = Some f -> exists b fz, l = VExp (E (VCol f) Literal VNil b fz).
Proof.
  destruct l as [ |?|?|?|?|?|e|?|? ? ?]; try discriminate. destruct e as [l2 op2 r2 b2 f2].
  destruct l2; try discriminate; destruct op2; try discriminate; destruct r2; try discriminate. cbn. intros H. inversion H. eauto.
Qed.

Lemma const_render lf tc ac s : const_sql lf = Some (tc, ac) -> render o2 lf = Ret (s, None) -> str s = const_b lf.
Proof.
  destruct lf as [l op rt b fz]. destruct l; try discriminate; destruct op; try discriminate; destruct rt; try discriminate; cbn [const_sql const_b]; intros _ H.
  - rewrite (render_int _ _ _ _ H). apply str_zs.
  - rewrite (render_strleaf _ _ _ _ _ (or_introl eq_refl) H). apply str_sqs.
Qed.
Lemma const_simple lf tc ac : const_sql lf = Some (tc, ac) -> is_simple (VExp lf) = true.
Proof. destruct lf as [l op rt b fz]. destruct l; try discriminate; destruct op; try discriminate; reflexivity. Qed.

Lemma tr_not_simple e ts a : tr e = Some (ts, a) -> is_simple (VExp e) = false.
Proof. destruct e as [l op rt b fz]. cbn [tr]. destruct op; try discriminate; reflexivity. Qed.

(* ---- texts without commas and blanks (numbers, the quoted star) survive Split and Trim ---- *)
Definition clean (s : string) : Prop := contains_char ","%char s = false /\ contains_char " "%char s = false.

Lemma split_nocomma : forall s cur, contains_char ","%char s = false -> split_comma s cur = [cur ++ s].
Proof.
  induction s as [|c s IH]; intros cur H; cbn [split_comma].
  - rewrite append_nil_r. reflexivity.
  - cbn [contains_char] in H. apply orb_false_iff in H. destruct H as [Hc Hs]. rewrite Hc. rewrite (IH _ Hs), append_assoc. reflexivity.
Qed.
Lemma split_clean a b : clean a -> clean b -> split_comma (a ++ ", " ++ b) "" = [a; " " ++ b].
Proof.
  intros [Ha _] [Hb _]. change (a ++ ", " ++ b) with (a ++ String ","%char (" " ++ b)). rewrite split_app_comma.
  rewrite (split_nocomma a "" Ha). rewrite (split_nocomma (" " ++ b) ""); [reflexivity|]. cbn. exact Hb.
Qed.
Lemma trim_left_clean s : contains_char " "%char s = false -> trim_left s = s.
Proof. destruct s as [|c s]; [reflexivity|]. cbn [contains_char]. intros H. apply orb_false_iff in H. destruct H as [Hc _]. rewrite trim_left_cons, Hc. reflexivity. Qed.
Lemma contains_rev_str c : forall s acc, contains_char c (rev_str s acc) = contains_char c s || contains_char c acc.
Proof.
  induction s as [|x s IH]; intros acc; [reflexivity|]. cbn [rev_str contains_char]. rewrite IH. cbn [contains_char].
  destruct (Ascii.eqb x c), (contains_char c s), (contains_char c acc); reflexivity.
Qed.
Lemma trim_clean s : clean s -> trim s = s /\ trim (" " ++ s) = s.
Proof.
  intros [_ H]. assert (T : trim s = s).
  { unfold trim. rewrite (trim_left_clean s H). rewrite trim_left_clean; [apply rev_str_invol|]. rewrite contains_rev_str, H. reflexivity. }
  split; [exact T|]. unfold trim in *. cbn [append]. rewrite trim_left_cons. cbn [Ascii.eqb Bool.eqb]. cbv iota. exact T.
Qed.

Lemma contains_los c s : contains_char c s = existsb (fun x => Ascii.eqb x c) (los s).
Proof. induction s as [|x s IH]; [reflexivity|]. cbn [contains_char los list_ascii_of_string existsb]. rewrite IH. reflexivity. Qed.
Lemma digits_no c l : is_digit c = false -> forallb is_digit l = true -> existsb (fun x => Ascii.eqb x c) l = false.
Proof.
  intros Hc. induction l as [|x l IH]; intros H; [reflexivity|]. cbn [forallb existsb] in *. apply andb_true_iff in H. destruct H as [Hx Hl].
  rewrite (IH Hl), orb_false_r. destruct (Ascii.eqb x c) eqn:E; [|reflexivity]. apply Ascii.eqb_eq in E. subst. congruence.
Qed.
Lemma zs_no c z : is_digit c = false -> Ascii.eqb "-"%char c = false -> contains_char c (z_to_string z) = false.
Proof.
  intros Hd Hm. unfold z_to_string. destruct (z <? 0)%Z.
  - cbn [append contains_char]. rewrite Hm. cbn [orb]. rewrite contains_los. apply digits_no; [exact Hd|]. apply (z_digits_digits 30 (- z) "" eq_refl).
  - rewrite contains_los. apply digits_no; [exact Hd|]. apply (z_digits_digits 30 z "" eq_refl).
Qed.
Lemma zs_clean z : clean (z_to_string z). Proof. split; apply zs_no; reflexivity. Qed.
Lemma star_clean : clean "'*'". Proof. split; reflexivity. Qed.

Lemma atoi_zs z : int64 z = true -> atoi (z_to_string z) = Some z.
Proof. unfold int64. intros H. apply andb_true_iff in H. destruct H as [H1 H2]. apply Z.leb_le in H1, H2. apply atoi_itoa. lia. Qed.
Lemma zs_not_star z : int64 z = true -> String.eqb (z_to_string z) "'*'" = false.
Proof.
  intros H. destruct (String.eqb (z_to_string z) "'*'") eqn:E; [|reflexivity]. apply String.eqb_eq in E.
  pose proof (atoi_zs z H) as A. rewrite E in A. discriminate A.
Qed.

(* ---- value lists ---- *)
Lemma ser_list_inv : forall l acc s, ser_list o2 l acc = Ret (s, None) ->
  exists texts, Forall2 (fun x t => render o2 x = Ret (t, None)) l texts /\ s = join ", " (rev acc ++ texts).
Proof.
  induction l as [|x l IH]; intros acc s H; cbn [ser_list] in H.
  - inversion H. exists []. split; [constructor|rewrite app_nil_r; reflexivity].
  - destruct (render o2 x) as [[t [er|]]|] eqn:R; cbn [bind] in H; try discriminate H.
    destruct (IH (t :: acc) s H) as [texts [F E]]. exists (t :: texts). split; [constructor; [exact R|exact F]|].
    rewrite E. cbn [rev]. rewrite <- app_assoc. reflexivity.
Qed.
Lemma str_join : forall l, str (join ", " l) = comma_b (map str l).
Proof.
  induction l as [|x l IH]; [reflexivity|]. destruct l as [|y l']; [reflexivity|].
  change (join ", " (x :: y :: l')) with (x ++ ", " ++ join ", " (y :: l')). rewrite !str_app, IH. reflexivity.
Qed.
Lemma consts_texts : forall l ts as_ texts, consts_sql l = Some (ts, as_) -> Forall2 (fun x t => render o2 x = Ret (t, None)) l texts ->
  map str texts = map const_b l.
Proof.
  induction l as [|x l IH]; intros ts as_ texts C F; inversion F; subst; [reflexivity|].
  cbn [consts_sql] in C. destruct (const_sql x) as [[t a]|] eqn:Cx; [|discriminate]. destruct (consts_sql l) as [[ts' as']|] eqn:Cl; [|discriminate].
  cbn [map]. f_equal; [apply (const_render x t a _ Cx H1)|apply (IH ts' as' _ eq_refl H3)].
Qed.

Lemma ser_bound_eq a b incl : serialize o2 (VBound a b incl) =
  bind (serialize o2 a) (fun x => match x with (_, Some er) => Ret (""%string, Some er) | (smin, None) =>
    bind (serialize o2 b) (fun y => match y with (_, Some er) => Ret (""%string, Some er) | (smax, None) =>
      Ret (bound_text incl smin smax, None) end) end).
Proof. reflexivity. Qed.

Lemma fn_like_plain l p : like_plain p = true -> fn_like l (sqs p) = (l ++ " SIMILAR TO " ++ replace_char "?"%char "_" (replace_char "*"%char "%" (sqs p)), None).
Proof. unfold like_plain, fn_like. cbv zeta. intros H. apply negb_true_iff in H. rewrite H. reflexivity. Qed.

Lemma rc_app c by_ a b : replace_char c by_ (a ++ b) = replace_char c by_ a ++ replace_char c by_ b.
Proof. induction a as [|x a IH]; [reflexivity|]. cbn [append replace_char]. rewrite IH. destruct (Ascii.eqb x c); [rewrite append_assoc|]; reflexivity. Qed.
Lemma rc_comm_quote c d : Ascii.eqb c "'"%char = false -> Ascii.eqb d "'"%char = false -> forall p,
  replace_char c (String d "") (replace_char "'"%char "''" p) = replace_char "'"%char "''" (replace_char c (String d "") p).
Proof.
  intros Hc Hd. induction p as [|x p IH]; [reflexivity|]. cbn [replace_char].
  destruct (Ascii.eqb x "'"%char) eqn:E1.
  - apply Ascii.eqb_eq in E1. subst x. rewrite Ascii.eqb_sym in Hc. rewrite Hc. cbn [append replace_char]. rewrite Hc. rewrite IH.
    change (Ascii.eqb "'"%char "'"%char) with true. cbv iota. reflexivity.
  - cbn [replace_char]. destruct (Ascii.eqb x c) eqn:E2.
    + cbn [append replace_char]. rewrite Hd. rewrite IH. reflexivity.
    + cbn [replace_char]. rewrite E1. rewrite IH. reflexivity.
Qed.
Lemma translate_sqs p : replace_char "?"%char "_" (replace_char "*"%char "%" (sqs p)) = sqs (translate p).
Proof.
  unfold sqs, translate. rewrite !rc_app. cbn [replace_char Ascii.eqb Bool.eqb append]. cbv iota.
  rewrite (rc_comm_quote "*"%char "%"%char eq_refl eq_refl), (rc_comm_quote "?"%char "_"%char eq_refl eq_refl). reflexivity.
Qed.

Lemma star_bound v : is_star v = true -> exists b fz, v = VExp (E (VStr "*") Wild VNil b fz).
Proof.
  destruct v as [ |?|?|?|?|?|e|?|? ? ?]; try discriminate. destruct e as [l op rt b fz].
  destruct l; try discriminate; destruct op; try discriminate; destruct rt; try discriminate. cbn [is_star]. intros H. apply String.eqb_eq in H. subst. eauto.
Qed.

(* what the range function writes for two clean bound texts *)
Lemma fn_rang_clean left incl smin smax : clean smin -> clean smax ->
  fn_rang o2 left (bound_text incl smin smax) = Ret (rang_by_text o2 left incl smin smax).
Proof.
  intros Ca Cb. unfold fn_rang. rewrite rang_core_bound, (split_clean smin smax Ca Cb).
  rewrite (proj1 (trim_clean smin Ca)), (proj2 (trim_clean smax Cb)). reflexivity.
Qed.

Ltac fin := unfold dqs, sqs, bdq, bsq; norm_str; rewrite ?str_double, ?str_zs; norm_str; reflexivity.

Lemma col_simple f b fz : is_simple (VExp (E (VCol f) Literal VNil b fz)) = true. Proof. reflexivity. Qed.

Lemma cmp_render l op rt b fz f lf0 tc ac o s : field_of l = Some f -> rt = VExp lf0 -> cmp_text op = Some o ->
  const_sql lf0 = Some (tc, ac) -> render o2 (E l op rt b fz) = Ret (s, None) ->
  str s = (bdq f ++ str (optext op) ++ const_b lf0)%list.
Proof.
  intros Fl -> Ho C R. destruct (field_of_inv l f Fl) as [b1 [f1 ->]].
  destruct (render_inv _ _ _ _ _ _ R) as [lf [rtx [fn [Hl [Hr [Hf Hs]]]]]].
  rewrite ser_exp in Hl, Hr. rewrite (render_col _ _ _ _ Hl) in Hs.
  rewrite col_simple, (const_simple lf0 tc ac C) in Hs. cbn [negb andb wrap_if] in Hs.
  rewrite <- (const_render lf0 tc ac rtx C Hr).
  destruct op; try discriminate; cbn [pg_fn] in Hf; inversion Hf; subst fn; inversion Hs; subst s; cbn [optext]; fin.
Qed.

Lemma range_render f incl smin smax s : clean smin -> clean smax ->
  fn_rang o2 (dqs f) (bound_text incl smin smax) = Ret (s, None) -> s = fst (rang_by_text o2 (dqs f) incl smin smax).
Proof. intros Ca Cb H. rewrite (fn_rang_clean _ _ _ _ Ca Cb) in H. inversion H as [H']. rewrite H'. reflexivity. Qed.

Lemma atoi_star : atoi "'*'" = None. Proof. reflexivity. Qed.

Theorem render_text_sz : forall n e, esize e <= n -> forall ts a, tr e = Some (ts, a) -> text_ok e = true ->
  forall s, render o2 e = Ret (s, None) -> str s = btxt e.
Proof.
  induction n as [|n IH]; intros e Hn ts a T Ok s R; [destruct e; cbn in Hn; lia|].
  destruct e as [l op rt b fz]. cbn [esize] in Hn. cbn [tr] in T.
  destruct (render_inv _ _ _ _ _ _ R) as [lf [rtx [fn [Hl [Hr [Hf Hs]]]]]].
  destruct op; try discriminate.
  - (* And *)
    destruct l as [ |?|?|?|?|?|x|?|? ? ?]; try discriminate. destruct rt as [ |?|?|?|?|?|y|?|? ? ?]; try discriminate.
    destruct (tr x) as [[tx ax]|] eqn:Tx; [|discriminate]. destruct (tr y) as [[ty ay]|] eqn:Ty; [|discriminate].
    cbn [text_ok text_ok_v] in Ok. apply andb_true_iff in Ok. destruct Ok as [Ox Oy]. cbn [vsize] in Hn.
    rewrite ser_exp in Hl, Hr. cbn [pg_fn] in Hf. inversion Hf; subst fn. cbn [no_wrap_op negb andb] in Hs.
    rewrite (tr_not_simple x tx ax Tx), (tr_not_simple y ty ay Ty) in Hs. cbn [negb wrap_if] in Hs. inversion Hs; subst s.
    cbn [btxt btxt_v]. rewrite <- (IH x ltac:(lia) tx ax Tx Ox lf Hl), <- (IH y ltac:(lia) ty ay Ty Oy rtx Hr).
    norm_str. reflexivity.
  - (* Or *)
    destruct l as [ |?|?|?|?|?|x|?|? ? ?]; try discriminate. destruct rt as [ |?|?|?|?|?|y|?|? ? ?]; try discriminate.
    destruct (tr x) as [[tx ax]|] eqn:Tx; [|discriminate]. destruct (tr y) as [[ty ay]|] eqn:Ty; [|discriminate].
    cbn [text_ok text_ok_v] in Ok. apply andb_true_iff in Ok. destruct Ok as [Ox Oy]. cbn [vsize] in Hn.
    rewrite ser_exp in Hl, Hr. cbn [pg_fn] in Hf. inversion Hf; subst fn. cbn [no_wrap_op negb andb] in Hs.
    rewrite (tr_not_simple x tx ax Tx), (tr_not_simple y ty ay Ty) in Hs. cbn [negb wrap_if] in Hs. inversion Hs; subst s.
    cbn [btxt btxt_v]. rewrite <- (IH x ltac:(lia) tx ax Tx Ox lf Hl), <- (IH y ltac:(lia) ty ay Ty Oy rtx Hr).
    norm_str. reflexivity.
  - (* Equals *)
    destruct (field_of l) as [f|] eqn:Fl; [|discriminate]. destruct rt as [ |?|?|?|?|?|lf0|?|? ? ?]; try discriminate. cbn [cmp_text] in T.
    destruct (const_sql lf0) as [[tc ac]|] eqn:C; [|discriminate].
    rewrite (cmp_render l Equals (VExp lf0) b fz f lf0 tc ac "=" s Fl eq_refl eq_refl C R). cbn [btxt optext]. unfold fname. rewrite Fl. reflexivity.
  - (* Like *)
    destruct (field_of l) as [f|] eqn:Fl; [|discriminate]. destruct rt as [ |?|?|?|?|?|p|?|? ? ?]; try discriminate. destruct p as [l2 op2 r2 b2 f2].
    destruct l2; try discriminate; destruct op2; try discriminate; destruct r2; try discriminate.
    cbn [text_ok] in Ok. destruct (field_of_inv l f Fl) as [b1 [f1 ->]].
    rewrite ser_exp in Hl, Hr. rewrite (render_col _ _ _ _ Hl) in Hs. rewrite (render_strleaf _ _ _ _ _ (or_intror eq_refl) Hr) in Hs.
    cbn [pg_fn] in Hf. inversion Hf; subst fn. cbn [no_wrap_op negb andb is_simple e_op wrap_if] in Hs.
    rewrite (fn_like_plain _ _ Ok), translate_sqs in Hs. inversion Hs; subst s.
    cbn [btxt fname field_of]. fin.
  - (* Not *)
    destruct l as [ |?|?|?|?|?|x|?|? ? ?]; try discriminate. destruct rt; try discriminate.
    destruct (tr x) as [[tx ax]|] eqn:Tx; [|discriminate]. cbn [text_ok text_ok_v] in Ok. cbn [vsize] in Hn.
    rewrite ser_exp in Hl. cbn [pg_fn] in Hf. inversion Hf; subst fn. cbn [no_wrap_op negb andb wrap_if] in Hs. inversion Hs; subst s.
    cbn [btxt btxt_v]. rewrite <- (IH x ltac:(lia) tx ax Tx Ok lf Hl). norm_str. reflexivity.
  - (* Range *)
    destruct (field_of l) as [f|] eqn:Fl; [|discriminate]. destruct rt as [ |?|?|?|?|?|?|?|lo hi incl]; try discriminate. cbv zeta in T.
    cbn [text_ok] in Ok. apply andb_true_iff in Ok. destruct Ok as [Olo Ohi]. unfold bound_int64 in Olo, Ohi.
    destruct (field_of_inv l f Fl) as [b1 [f1 ->]]. rewrite ser_exp in Hl. rewrite (render_col _ _ _ _ Hl) in Hs.
    cbn [pg_fn] in Hf. inversion Hf; subst fn. cbn [no_wrap_op negb andb wrap_if] in Hs.
    rewrite ser_bound_eq in Hr.
    destruct (serialize o2 lo) as [[smin [e1|]]|] eqn:Slo; cbn [bind] in Hr; try discriminate Hr.
    destruct (serialize o2 hi) as [[smax [e2|]]|] eqn:Shi; cbn [bind] in Hr; try discriminate Hr.
    inversion Hr; subst rtx. cbn [btxt fname field_of].
    destruct (int_bound lo) as [a0|] eqn:Ba; destruct (int_bound hi) as [b0|] eqn:Bb.
    + destruct (int_bound_inv lo a0 Ba) as [b2 [f2 ->]]. destruct (int_bound_inv hi b0 Bb) as [b3 [f3 ->]].
      rewrite ser_exp in Slo, Shi. pose proof (render_int _ _ _ _ Slo) as ->. pose proof (render_int _ _ _ _ Shi) as ->.
      rewrite (range_render f incl _ _ s (zs_clean a0) (zs_clean b0) Hs).
      unfold rang_by_text, to_ints. rewrite (atoi_zs a0 Olo), (atoi_zs b0 Ohi). cbn [fst]. unfold range_text.
      rewrite (zs_not_star a0 Olo), (zs_not_star b0 Ohi).
      destruct incl; fin.
    + destruct (is_star hi) eqn:Sh; [|destruct (is_star lo); discriminate].
      destruct (int_bound_inv lo a0 Ba) as [b2 [f2 ->]]. destruct (star_bound hi Sh) as [b3 [f3 ->]].
      rewrite ser_exp in Slo, Shi. pose proof (render_int _ _ _ _ Slo) as ->. pose proof (render_strleaf _ _ _ _ _ (or_intror eq_refl) Shi) as ->.
      change (sqs "*") with "'*'" in Hs.
      rewrite (range_render f incl _ _ s (zs_clean a0) star_clean Hs).
      unfold rang_by_text, to_ints. rewrite (atoi_zs a0 Olo), atoi_star. change (String.eqb "'*'" "'*'") with true. cbv iota. cbn [fst]. unfold range_text.
      rewrite (zs_not_star a0 Olo). change (String.eqb "'*'" "'*'") with true. cbv iota.
      destruct incl; fin.
    + destruct (is_star lo) eqn:Sl; [|discriminate].
      destruct (star_bound lo Sl) as [b2 [f2 ->]]. destruct (int_bound_inv hi b0 Bb) as [b3 [f3 ->]].
      rewrite ser_exp in Slo, Shi. pose proof (render_strleaf _ _ _ _ _ (or_intror eq_refl) Slo) as ->. pose proof (render_int _ _ _ _ Shi) as ->.
      change (sqs "*") with "'*'" in Hs.
      rewrite (range_render f incl _ _ s star_clean (zs_clean b0) Hs).
      unfold rang_by_text, to_ints. rewrite (atoi_zs b0 Ohi), atoi_star. change (String.eqb "'*'" "'*'") with true. cbv iota. cbn [fst]. unfold range_text.
      change (String.eqb "'*'" "'*'") with true. cbv iota.
      destruct incl; fin.
    + destruct (is_star lo), (is_star hi); discriminate.
  - (* Must *)
    destruct l as [ |?|?|?|?|?|x|?|? ? ?]; try discriminate. destruct rt; try discriminate.
    cbn [text_ok text_ok_v] in Ok. cbn [vsize] in Hn.
    rewrite ser_exp in Hl. cbn [pg_fn] in Hf. inversion Hf; subst fn. cbn [no_wrap_op negb andb wrap_if] in Hs. inversion Hs; subst s.
    cbn [btxt btxt_v]. apply (IH x ltac:(lia) ts a T Ok lf Hl).
  - (* MustNot *)
    destruct l as [ |?|?|?|?|?|x|?|? ? ?]; try discriminate. destruct rt; try discriminate.
    destruct (tr x) as [[tx ax]|] eqn:Tx; [|discriminate]. cbn [text_ok text_ok_v] in Ok. cbn [vsize] in Hn.
    rewrite ser_exp in Hl. cbn [pg_fn] in Hf. inversion Hf; subst fn. cbn [no_wrap_op negb andb wrap_if] in Hs. inversion Hs; subst s.
    cbn [btxt btxt_v]. rewrite <- (IH x ltac:(lia) tx ax Tx Ok lf Hl). norm_str. reflexivity.
  - (* Greater *)
    destruct (field_of l) as [f|] eqn:Fl; [|discriminate]. destruct rt as [ |?|?|?|?|?|lf0|?|? ? ?]; try discriminate. cbn [cmp_text] in T.
    destruct (const_sql lf0) as [[tc ac]|] eqn:C; [|discriminate].
    rewrite (cmp_render l Greater (VExp lf0) b fz f lf0 tc ac ">" s Fl eq_refl eq_refl C R). cbn [btxt optext]. unfold fname. rewrite Fl. reflexivity.
  - (* Less *)
    destruct (field_of l) as [f|] eqn:Fl; [|discriminate]. destruct rt as [ |?|?|?|?|?|lf0|?|? ? ?]; try discriminate. cbn [cmp_text] in T.
    destruct (const_sql lf0) as [[tc ac]|] eqn:C; [|discriminate].
    rewrite (cmp_render l Less (VExp lf0) b fz f lf0 tc ac "<" s Fl eq_refl eq_refl C R). cbn [btxt optext]. unfold fname. rewrite Fl. reflexivity.
  - (* GreaterEq *)
    destruct (field_of l) as [f|] eqn:Fl; [|discriminate]. destruct rt as [ |?|?|?|?|?|lf0|?|? ? ?]; try discriminate. cbn [cmp_text] in T.
    destruct (const_sql lf0) as [[tc ac]|] eqn:C; [|discriminate].
    rewrite (cmp_render l GreaterEq (VExp lf0) b fz f lf0 tc ac ">=" s Fl eq_refl eq_refl C R). cbn [btxt optext]. unfold fname. rewrite Fl. reflexivity.
  - (* LessEq *)
    destruct (field_of l) as [f|] eqn:Fl; [|discriminate]. destruct rt as [ |?|?|?|?|?|lf0|?|? ? ?]; try discriminate. cbn [cmp_text] in T.
    destruct (const_sql lf0) as [[tc ac]|] eqn:C; [|discriminate].
    rewrite (cmp_render l LessEq (VExp lf0) b fz f lf0 tc ac "<=" s Fl eq_refl eq_refl C R). cbn [btxt optext]. unfold fname. rewrite Fl. reflexivity.
  - (* In *)
    destruct (field_of l) as [f|] eqn:Fl; [|discriminate]. destruct rt as [ |?|?|?|?|?|p|?|? ? ?]; try discriminate. destruct p as [l2 op2 r2 b2 f2].
    destruct l2 as [ |?|?|?|?|?|?|lits|? ? ?]; try discriminate. destruct lits as [|x lits]; try discriminate.
    destruct op2; try discriminate; destruct r2; try discriminate.
    destruct (consts_sql (x :: lits)) as [[cts cas]|] eqn:C; [|discriminate].
    destruct (field_of_inv l f Fl) as [b1 [f1 ->]]. rewrite ser_exp in Hl, Hr. rewrite (render_col _ _ _ _ Hl) in Hs.
    destruct (render_inv _ _ _ _ _ _ Hr) as [lf2 [rt2 [fn2 [Hl2 [Hr2 [Hf2 Hs2]]]]]].
    rewrite ser_list_eq in Hl2. destruct (ser_list_inv _ _ _ Hl2) as [texts [F El]]. cbn [rev app] in El.
    cbn [pg_fn] in Hf2. inversion Hf2; subst fn2. cbn [no_wrap_op negb andb wrap_if] in Hs2. inversion Hs2; subst rtx.
    cbn [pg_fn] in Hf. inversion Hf; subst fn. cbn [no_wrap_op negb andb wrap_if] in Hs. inversion Hs; subst s. subst lf2.
    cbn [btxt fname field_of]. rewrite <- (consts_texts (x :: lits) cts cas texts C F), <- str_join. fin.
Qed.

Theorem render_text e ts a s : tr e = Some (ts, a) -> text_ok e = true -> render o2 e = Ret (s, None) -> str s = btxt e.
Proof. intros T Ok R. apply (render_text_sz (esize e) e (le_n _) ts a T Ok s R). Qed.
End T.
