(* C07 at the level of parse_toks: juxtaposition and explicit AND give the same result of the whole token-level Parse
   (parser loop within its fuel, then Validate) *)
Require Import Parser ParserTotal ParserJuxt.
From Coq Require Import List String ZArith Bool Lia Arith.
Import ListNotations.

Section JP.
Variable o : oracle.
Variable df : string.

Definition res_of (r : res) : presult :=
  match r with Accept e => PTree e | Reject => PErr | Crash s => PPanic s | Next _ => POutOfFuel end.

(* the fuelled run is the iteration of step *)
Lemma run_is_steps : forall fuel c, run o fuel df c = match steps o df fuel c with Next _ => POutOfFuel | r => res_of r end.
Proof.
  induction fuel as [|f IH]; intros c; [reflexivity|]. cbn [run steps].
  destruct (step o df c) as [c'| e | |s]; try reflexivity. apply IH.
Qed.

(* every run from the initial configuration ends (ParserTotal), so it has a final result, and that result decides parse_toks *)
Lemma init_final ts : exists r, final o df {| rs := []; ns := [start]; toks := ts; pend := None |} r /\
  run o (4 * List.length ts + 4) df {| rs := []; ns := [start]; toks := ts; pend := None |} = res_of r.
Proof.
  pose proof (run_total o df (4 * List.length ts + 4) {| rs := []; ns := [start]; toks := ts; pend := None |} eq_refl ltac:(cbn; lia)) as T.
  rewrite run_is_steps in *.
  destruct (steps o df (4 * Datatypes.length ts + 4) {| rs := []; ns := [start]; toks := ts; pend := None |}) as [c| e | |s] eqn:S; try contradiction.
  - exists (Accept e). split; [exists (4 * List.length ts + 4); split; [exact S|exact I]|reflexivity].
  - exists Reject. split; [exists (4 * List.length ts + 4); split; [exact S|exact I]|reflexivity].
Qed.

Theorem juxt_same_parse pre t1 t2 post : term_tok t1 = true -> term_tok t2 = true ->
  parse_toks o df (pre ++ t1 :: t2 :: post) = parse_toks o df (pre ++ t1 :: and_tok :: t2 :: post).
Proof.
  intros H1 H2. unfold parse_toks.
  destruct (init_final (pre ++ t1 :: t2 :: post)) as (r & F & R).
  destruct (init_final (pre ++ t1 :: and_tok :: t2 :: post)) as (r' & F' & R').
  pose proof (C07_juxt o df pre t1 t2 post r H1 H2 F) as F2.
  rewrite (final_det o df _ _ _ F' F2) in R'. rewrite R, R'. reflexivity.
Qed.

End JP.
