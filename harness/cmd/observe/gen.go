package main

import (
	"bufio"
	"flag"
	"fmt"
	"math"
	"math/rand"
	"os"
	"strconv"
	"strings"

	"github.com/grindlemire/go-lucene/internal/lex"
)

// ---------------------------------------------------------------------------------------------------
// case generation. Every random choice comes from one PRNG seeded with -seed, so a run replays exactly.
// ---------------------------------------------------------------------------------------------------

var rng *rand.Rand
var out *bufio.Writer

func emitQ(q, df, tag string) { fmt.Fprintf(out, "Q\t%s\t%s\t%s\n", hx(q), hx(df), tag) }
func emitL(in, script string) { fmt.Fprintf(out, "L\t%s\t%s\n", hx(in), script) }
func emitJ(doc, tag string)   { fmt.Fprintf(out, "J\t%s\t%s\n", hx(doc), tag) }
func emitD(q, spec, tag string) {
	fmt.Fprintf(out, "D\t%s\t%s\t%s\n", hx(q), spec, tag)
}

func pick(xs []string) string { return xs[rng.Intn(len(xs))] }

// leaf alphabets ------------------------------------------------------------------------------------

var fieldNames = []string{"a", "b", "f1", "k_2", `x\ y`, `"q f"`, "été", "5", "1.5", "c\\-d", "NOTE", "_id", `c\%d`, `"100%"`, `p\%s`}
var plainWords = []string{"b", "foo", "bar9", "x_y", "été", "日本", "NaN", "Inf", "nan", "a.b", "c-d"}
var intWords = []string{"5", "-3", "0", "007", "42", "9223372036854775807", "-9223372036854775808", "9223372036854775808", "9007199254740993", "010", "0100", "0x1f", "0b101", "0o17", "1_0", "08", "-010"}
var floatWords = []string{"2.5", "1e6", "-0.0", "5.0", "0.125", "1.5", "-7.25", "1e-3", "0x1p-2", "1_000.5", "0.5"}
var quotedWords = []string{`"q r"`, `""`, `"*"`, `"it's"`, `"a,b"`, `"NaN"`, `"5"`, `"1.5"`, `"AND"`, `"a*b?"`, `"/r/"`, `"x, y"`, `"(z)"`, `"%!"`, `"--c"`, `"/*c*/"`, `";"`, `'s q'`, `"é"`, `"\\"`, `" "`, `"[1 TO 2]"`, `"?"`, "\"bel\a\"", "\"del\x7f\"", "\"so\x0e\"", "\"\U0010fffd\"", "\"tab\there\"", `"007"`, `"010"`, `"x\ny"`}
var wildWords = []string{"w*", "?x", "*", "a*b?c", "?", "**", "a_b*", "5*", "-3?"}
var regexWords = []string{"/r/", "/a b/", "/b/", "/[a-z]+/", `/a\/b/`, "/5/", "//", "/AND/"}
var escWords = []string{`a\:b`, `a\ b`, `a\\b`, `b\*`, `\(x\)`, `\+1`, `x\"y`, `\-5`, `q\?`}
var oddWords = []string{`\%\!`, `a\;b`, `a\,b`, "x_", `a\|b`, `\$1`, `a\'b`}

func anyValue() string {
	switch rng.Intn(16) {
	case 0, 1, 2, 3:
		return pick(plainWords)
	case 4, 5:
		return pick(intWords)
	case 6, 7:
		return pick(floatWords)
	case 8, 9, 10:
		if rng.Intn(3) == 0 {
			return composedQuoted()
		}
		return pick(quotedWords)
	case 11, 12:
		if rng.Intn(3) == 0 {
			return composedPattern()
		}
		return pick(wildWords)
	case 13:
		return pick(regexWords)
	case 14:
		return pick(escWords)
	}
	return pick(oddWords)
}

func plainValue() string { // a value that is a plain literal
	switch rng.Intn(6) {
	case 0, 1:
		return pick(plainWords)
	case 2:
		return pick(intWords)
	case 3:
		return pick(floatWords)
	}
	return pick([]string{`"q r"`, `""`, `"it's"`, `"a,b"`, `"NaN"`, `"5"`, `"AND"`, `"é"`})
}

func termType(w string) int {
	switch {
	case strings.HasPrefix(w, `"`) || strings.HasPrefix(w, `'`):
		return int(lex.TQuoted)
	case strings.HasPrefix(w, "/"):
		return int(lex.TRegexp)
	}
	return int(lex.TLiteral)
}

// spec trees (the qt of Spec/Printer.v) -----------------------------------------------------------------

type qt struct {
	kind   string // term fv cmp range fe and or not must mustnot boost fuzzy par
	toks   []string
	kids   []*qt
	num    string // boost / fuzzy number, "" = none
	numPar bool   // the number is written between parentheses (layout variant only)
}

func (t *qt) lvl() int {
	switch t.kind {
	case "or":
		return 1
	case "and":
		return 2
	case "not":
		return 3
	case "boost":
		return 4
	case "fuzzy":
		return 5
	case "mustnot":
		return 6
	case "must":
		return 7
	}
	return 8
}

func par(t *qt) *qt { return &qt{kind: "par", kids: []*qt{t}} }
func need(t *qt, min int) *qt {
	if t.lvl() < min {
		return par(t)
	}
	return t
}

// minimal parenthesisation: a Par exactly where wfq requires one
func mk(kind string, kids ...*qt) *qt {
	switch kind {
	case "and":
		return &qt{kind: kind, kids: []*qt{need(kids[0], 2), need(kids[1], 3)}}
	case "or":
		return &qt{kind: kind, kids: []*qt{kids[0], need(kids[1], 2)}}
	case "not":
		return &qt{kind: kind, kids: []*qt{need(kids[0], 3)}}
	case "must":
		return &qt{kind: kind, kids: []*qt{need(kids[0], 7)}}
	case "mustnot":
		return &qt{kind: kind, kids: []*qt{need(kids[0], 6)}}
	case "boost":
		return &qt{kind: kind, kids: []*qt{need(kids[0], 4)}}
	case "fuzzy":
		return &qt{kind: kind, kids: []*qt{need(kids[0], 5)}}
	}
	return &qt{kind: kind, kids: kids}
}

func tokStr(typ int, val string) string { return fmt.Sprintf("%d:%s", typ, hx(val)) }
func termTok(w string) string           { return tokStr(termType(w), w) }

func genAtom(fielded bool) *qt {
	f := pick(fieldNames)
	if !fielded && rng.Intn(3) == 0 {
		return &qt{kind: "term", toks: []string{anyValue()}}
	}
	switch rng.Intn(10) {
	case 0, 1, 2, 3:
		return &qt{kind: "fv", toks: []string{f, ":", anyValue()}}
	case 4:
		return &qt{kind: "fv", toks: []string{f, "=", anyValue()}}
	case 5, 6:
		cmp := pick([]string{">", "<"})
		if rng.Intn(2) == 0 {
			return &qt{kind: "cmp", toks: []string{f, ":", cmp, "=", plainValue()}}
		}
		return &qt{kind: "cmp", toks: []string{f, ":", cmp, "", plainValue()}}
	case 7, 8:
		o := pick([]string{"[", "{"})
		c := pick([]string{"]", "}"})
		lo, hi := rangeBound(), rangeBound()
		return &qt{kind: "range", toks: []string{f, ":", o, lo, pick([]string{"TO", "to", "To"}), hi, c}}
	}
	// a field with a parenthesised value: a value list (any grouping of its ORs, repeated values), or any expression
	if rng.Intn(4) == 0 {
		return &qt{kind: "fe", toks: []string{f, ":"}, kids: []*qt{genTree(1+rng.Intn(2), false)}}
	}
	n := 1 + rng.Intn(4)
	vals := []*qt{}
	for i := 0; i < n; i++ {
		w := plainValue()
		if i > 0 && rng.Intn(4) == 0 {
			w = vals[rng.Intn(len(vals))].toks[0] // a repeated value
		}
		vals = append(vals, &qt{kind: "term", toks: []string{w}})
	}
	return &qt{kind: "fe", toks: []string{f, ":"}, kids: []*qt{orShape(vals)}}
}

// a random grouping of an OR chain: left-nested, right-nested (with the parentheses that requires), or mixed
func orShape(vals []*qt) *qt {
	if len(vals) == 1 {
		return vals[0]
	}
	k := 1 + rng.Intn(len(vals)-1)
	if rng.Intn(3) != 0 {
		k = len(vals) - 1 // the usual left-deep chain
	}
	return mk("or", orShape(vals[:k]), orShape(vals[k:]))
}

func rangeBound() string {
	switch rng.Intn(8) {
	case 0:
		return "*"
	case 1, 2:
		return pick(intWords)
	case 3:
		return pick(floatWords)
	case 4:
		return pick(quotedWords)
	}
	return pick(plainWords)
}

func genTree(depth int, fielded bool) *qt {
	if depth == 0 || rng.Intn(4) == 0 {
		return genAtom(fielded)
	}
	switch rng.Intn(12) {
	case 0, 1, 2:
		l := genTree(depth-1, fielded)
		if rng.Intn(6) == 0 {
			return mk("and", l, variant(l))
		}
		return mk("and", l, genTree(depth-1, fielded))
	case 3, 4, 5:
		l := genTree(depth-1, fielded)
		if rng.Intn(6) == 0 {
			return mk("or", l, variant(l))
		}
		return mk("or", l, genTree(depth-1, fielded))
	case 6:
		return mk("not", genTree(depth-1, fielded))
	case 7:
		return mk("must", genTree(depth-1, fielded))
	case 8:
		return mk("mustnot", genTree(depth-1, fielded))
	case 9:
		t := mk("boost", genTree(depth-1, fielded))
		t.num = pick(boostNums)
		if allowZeroBoost && rng.Intn(12) == 0 {
			t.num = pick(zeroBoost)
		}
		return t
	case 10:
		t := mk("fuzzy", genTree(depth-1, fielded))
		t.num = pick(fuzzyNums)
		return t
	}
	return par(genTree(depth-1, fielded))
}

var allowNumPar = false

// redundant parentheses at random places where C09 allows them
func addPars(t *qt, p float64) *qt {
	c := *t
	c.kids = nil
	for _, k := range t.kids {
		c.kids = append(c.kids, addPars(k, p))
	}
	if allowNumPar && c.num != "" && rng.Float64() < p {
		c.numPar = true
	}
	if rng.Float64() < p {
		return par(&c)
	}
	return &c
}

// the tokens of a tree, as texts
func (t *qt) words(juxt func() bool) []string {
	switch t.kind {
	case "term":
		return []string{t.toks[0]}
	case "fv":
		return t.toks
	case "cmp":
		w := []string{}
		for _, x := range t.toks {
			if x != "" {
				w = append(w, x)
			}
		}
		return w
	case "range":
		return t.toks
	case "fe":
		return append(append([]string{t.toks[0], t.toks[1], "("}, t.kids[0].words(juxt)...), ")")
	case "and":
		var d bool
		if juxtReplay != nil { // a layout variant: the same choices as the original, in the same (pre-order) sequence
			d = juxtReplay[0]
			juxtReplay = juxtReplay[1:]
		} else {
			d = juxt != nil && juxtOK(t.kids[0], t.kids[1]) && juxt()
			juxtRecord = append(juxtRecord, d)
		}
		k0, k1 := t.kids[0], t.kids[1]
		if d {
			// parentheses directly around an operand of a juxtaposition are outside C09 (no explicitly written operator)
			for k0.kind == "par" {
				k0 = k0.kids[0]
			}
			for k1.kind == "par" {
				k1 = k1.kids[0]
			}
		}
		l, r := k0.words(juxt), k1.words(juxt)
		if d {
			return append(l, r...)
		}
		return append(append(l, pick([]string{"AND", "AND", "and", "And"})), r...)
	case "or":
		return append(append(t.kids[0].words(juxt), pick([]string{"OR", "OR", "or", "oR"})), t.kids[1].words(juxt)...)
	case "not":
		return append([]string{pick([]string{"NOT", "NOT", "not", "Not"})}, t.kids[0].words(juxt)...)
	case "must":
		return append([]string{"+"}, t.kids[0].words(juxt)...)
	case "mustnot":
		return append([]string{"-"}, t.kids[0].words(juxt)...)
	case "boost", "fuzzy":
		op := "^"
		if t.kind == "fuzzy" {
			op = "~"
		}
		w := append(t.kids[0].words(juxt), op)
		if t.num != "" {
			if t.numPar {
				w = append(w, "(", t.num, ")")
			} else {
				w = append(w, t.num)
			}
		}
		return w
	case "par":
		return append(append([]string{"("}, t.kids[0].words(juxt)...), ")")
	}
	panic("kind")
}

var juxtRecord, juxtReplay []bool

// juxtaposition is possible where the left operand ends in an expression and the right one starts with a term token
func lastTermEnds(t *qt) bool {
	switch t.kind {
	case "term", "fv", "cmp":
		return true
	case "and", "or":
		return lastTermEnds(t.kids[1])
	case "not", "must", "mustnot":
		return lastTermEnds(t.kids[0])
	}
	return false
}
func firstIsTerm(t *qt) bool {
	switch t.kind {
	case "term", "fv", "cmp", "range", "fe":
		return true
	case "and", "or", "boost", "fuzzy":
		return firstIsTerm(t.kids[0])
	}
	return false
}
func juxtOK(l, r *qt) bool { return lastTermEnds(l) && firstIsTerm(r) }

// the sexpr the driver parses into Model.qt; keyword tokens carry the canonical text
func (t *qt) sexpr() string {
	kw := func(typ lex.TokType) string { return tokStr(int(typ), "") }
	switch t.kind {
	case "term":
		return "(term " + termTok(t.toks[0]) + ")"
	case "fv":
		ct := kw(lex.TColon)
		if t.toks[1] == "=" {
			ct = kw(lex.TEqual)
		}
		return "(fv " + termTok(t.toks[0]) + " " + ct + " " + termTok(t.toks[2]) + ")"
	case "cmp":
		c := kw(lex.TGreater)
		if t.toks[2] == "<" {
			c = kw(lex.TLess)
		}
		eq := "-"
		if t.toks[3] != "" {
			eq = kw(lex.TEqual)
		}
		return "(cmp " + termTok(t.toks[0]) + " " + kw(lex.TColon) + " " + c + " " + eq + " " + termTok(t.toks[4]) + ")"
	case "range":
		o, c := kw(lex.TLSquare), kw(lex.TRSquare)
		if t.toks[2] == "{" {
			o = kw(lex.TLCurly)
		}
		if t.toks[6] == "}" {
			c = kw(lex.TRCurly)
		}
		return "(range " + termTok(t.toks[0]) + " " + kw(lex.TColon) + " " + o + " " + termTok(t.toks[3]) + " " + kw(lex.TTO) + " " + termTok(t.toks[5]) + " " + c + ")"
	case "fe":
		return "(fe " + termTok(t.toks[0]) + " " + kw(lex.TColon) + " " + t.kids[0].sexpr() + ")"
	case "and", "or":
		return "(" + t.kind + " " + t.kids[0].sexpr() + " " + t.kids[1].sexpr() + ")"
	case "not", "must", "mustnot", "par":
		return "(" + t.kind + " " + t.kids[0].sexpr() + ")"
	case "boost", "fuzzy":
		n := "-"
		if t.num != "" {
			n = termTok(t.num)
		}
		return "(" + t.kind + " " + t.kids[0].sexpr() + " " + n + ")"
	}
	panic("kind")
}

// join words with a spacing style. tight: no blank where the lexer does not need one.
var wsChoices = []string{" ", " ", " ", "  ", "\t", "\n", " \r\n ", "\t \t"}

func needsBlank(a, b string) bool {
	isWordy := func(s string) bool {
		return !(len(s) == 1 && strings.ContainsAny(s, "()[]{}:+=><~^")) && !strings.HasPrefix(s, `"`) && !strings.HasPrefix(s, `'`) && !strings.HasPrefix(s, "/")
	}
	if isWordy(a) && isWordy(b) {
		return true
	}
	// a word followed by a quote, slash or a minus sign would be glued or change meaning; keep a blank
	if isWordy(a) && (strings.HasPrefix(b, `"`) || strings.HasPrefix(b, `'`) || strings.HasPrefix(b, "/")) {
		return false
	}
	if b == "-" || strings.HasPrefix(b, "-") {
		return isWordy(a)
	}
	if a == "-" {
		return true // "-" followed by a digit would become a negative number
	}
	if strings.HasSuffix(a, `\`) {
		return true
	}
	return false
}

func join(words []string, style int) string {
	var sb strings.Builder
	if style == 2 {
		sb.WriteString(pick(wsChoices))
	}
	for i, w := range words {
		if i > 0 {
			switch style {
			case 0:
				sb.WriteString(" ")
			case 1: // tight
				if needsBlank(words[i-1], w) {
					sb.WriteString(" ")
				}
			default:
				sb.WriteString(pick(wsChoices))
			}
		}
		sb.WriteString(w)
	}
	if style == 2 {
		sb.WriteString(pick(wsChoices))
	}
	return sb.String()
}

// token alphabet for the exhaustive enumerations: every token type, several leaf kinds
var enumAlphabet = []string{"#", "a", "5", `"q r"`, "w*", "/r/", ":", "(", ")", "[", "]", "{", "}", "TO", "AND", "OR", "NOT", "+", "-", "~", "^", ">", "<", "=", "2.5", "*", `""`}

func genEnum(maxLen int, sample int, dfs []string) {
	n := len(enumAlphabet)
	for L := 1; L <= maxLen; L++ {
		cnt := 1
		for i := 0; i < L; i++ {
			cnt *= n
		}
		toks := make([]string, L)
		for x := 0; x < cnt; x++ {
			y := x
			for i := L - 1; i >= 0; i-- {
				toks[i] = enumAlphabet[y%n]
				y /= n
			}
			for _, df := range dfs {
				emitQ(strings.Join(toks, " "), df, fmt.Sprintf("src=enum%d", L))
			}
		}
	}
	// longer sequences, sampled
	for i := 0; i < sample; i++ {
		L := maxLen + 1 + rng.Intn(6)
		toks := make([]string, L)
		for j := range toks {
			toks[j] = pick(enumAlphabet)
		}
		emitQ(strings.Join(toks, " "), pick(dfs), "src=enumrand")
	}
}

var dfChoices = []string{"", "", "d", "dflt", `my "f`, "été", "", "", "title,body", "a b", "f.g", "x,", "D"}

func genMain(args []string) {
	fs := flag.NewFlagSet("gen", flag.ExitOnError)
	seed := fs.Int64("seed", 1, "PRNG seed")
	n := fs.Int("n", 1000, "number of cases")
	tier := fs.String("tier", "quick", "quick|thorough")
	mode := args[0]
	fs.Parse(args[1:])
	rng = rand.New(rand.NewSource(*seed))
	out = bufio.NewWriterSize(os.Stdout, 1<<20)
	defer out.Flush()
	thorough := *tier == "thorough"
	switch mode {
	case "enum":
		L := 3
		if thorough {
			L = 4
		}
		genEnum(L, *n, []string{"", "d"})
	case "rand":
		genRand(*n)
	case "trees":
		genTrees(*n, thorough)
	case "juxt":
		genJuxt(*n)
	case "layout":
		genLayout(*n)
	case "dfield":
		genDField(*n)
	case "subst":
		genSubst(*n)
	case "quote":
		genQuote(*n)
	case "inject":
		genInject(*n)
	case "sem":
		genSem(*n)
	case "nearmiss":
		genNearMiss()
	case "lex":
		genLex(*n)
	case "json":
		genJSON(*n)
	case "custom":
		genCustom(*n)
	case "big":
		genBig(thorough)
	case "scale-list", "scale-giant", "scale-chain", "scale-prefix", "scale-layout", "scale-names", "scale-values", "scale-digits":
		genScale(strings.TrimPrefix(mode, "scale-"), thorough)
	case "corpus":
		genCorpus()
	case "pairs":
		genPairs()
	case "optrees":
		if thorough {
			genOpTrees(5)
		} else {
			genOpTrees(4)
		}
	default:
		fmt.Fprintln(os.Stderr, "unknown mode", mode)
		os.Exit(2)
	}
}

// random structured queries with every leaf kind, with and without default field, all spacing styles
func genRand(n int) {
	for i := 0; i < n; i++ {
		newPalette()
		t := genTree(1+rng.Intn(4), rng.Intn(3) != 0)
		if rng.Intn(3) == 0 {
			t = addPars(t, 0.2)
		}
		var j func() bool
		if rng.Intn(2) == 0 {
			j = func() bool { return rng.Intn(2) == 0 }
		}
		words := t.words(j)
		// sometimes damage the query: drop, duplicate or swap a token
		tag := "src=rand"
		if rng.Intn(5) == 0 && len(words) > 1 {
			k := rng.Intn(len(words))
			switch rng.Intn(3) {
			case 0:
				words = append(append([]string{}, words[:k]...), words[k+1:]...)
			case 1:
				words = append(append(append([]string{}, words[:k]...), words[k]), words[k:]...)
			default:
				words[k] = pick(enumAlphabet)
			}
			tag = "src=randbroken"
		}
		q := join(words, rng.Intn(3))
		if rng.Intn(25) == 0 { // a dangling escape at the very end of the input, after whatever kind of word comes last
			q += `\`
			tag = "src=randbroken"
		}
		df := pick(dfChoices)
		emitQ(q, df, tag)
		// a near-duplicate follow-up: one blank inside a quoted value doubled, or the letter case of one value changed
		if rng.Intn(12) == 0 {
			if v := nearDup(q); v != "" {
				emitQ(v, df, tag)
			}
		}
	}
}

// C05: printed trees with minimal and with redundant parentheses; the driver knows the tree (tag qt=)
func genTrees(n int, thorough bool) {
	allowZeroBoost = false
	for i := 0; i < n; i++ {
		d := 1 + rng.Intn(3)
		if thorough {
			d = 1 + rng.Intn(5)
		}
		t := genTree(d, true)
		if i%2 == 1 {
			t = addPars(t, 0.25)
		}
		emitQ(join(t.words(nil), rng.Intn(3)), "", "rel=C05;qt="+t.sexpr())
	}
}

// C07: the same tree printed with some AND nodes as juxtaposition (role b) and all written out (role a)
func genJuxt(n int) {
	g := 0
	for g < n {
		t := genTree(2+rng.Intn(3), rng.Intn(4) != 0)
		used := false
		seq := []bool{}
		a := join(t.words(func() bool { return false }), 0)
		b := join(t.words(func() bool { x := rng.Intn(3) != 0; seq = append(seq, x); used = used || x; return x }), []int{0, 0, 1, 2}[rng.Intn(4)])
		if !used {
			continue
		}
		df := pick(dfChoices)
		emitQ(a, df, fmt.Sprintf("rel=C07;g=%d;role=a", g))
		emitQ(b, df, fmt.Sprintf("rel=C07;g=%d;role=b", g))
		g++
	}
	// token level: any two adjacent terminals of an arbitrary (also invalid) token sequence
	for i := 0; i < n; i++ {
		L := 2 + rng.Intn(6)
		toks := make([]string, L)
		for j := range toks {
			toks[j] = pick(enumAlphabet)
		}
		k := rng.Intn(L - 1)
		isTerm := func(s string) bool {
			return !strings.ContainsAny(s[:1], "()[]{}:+=><~^-") && s != "TO" && s != "AND" && s != "OR" && s != "NOT"
		}
		if !isTerm(toks[k]) || !isTerm(toks[k+1]) {
			toks[k], toks[k+1] = "a", pick([]string{"b", "5", `"q r"`, "w*"})
		}
		with := append(append(append([]string{}, toks[:k+1]...), "AND"), toks[k+1:]...)
		df := pick(dfChoices)
		emitQ(strings.Join(with, " "), df, fmt.Sprintf("rel=C07;g=%d;role=a", g))
		emitQ(strings.Join(toks, " "), df, fmt.Sprintf("rel=C07;g=%d;role=b", g))
		g++
	}
}

func swapCase(s string) string {
	b := []byte(s)
	for i := range b {
		if rng.Intn(2) == 0 {
			if b[i] >= 'a' && b[i] <= 'z' {
				b[i] -= 32
			} else if b[i] >= 'A' && b[i] <= 'Z' {
				b[i] += 32
			}
		}
	}
	return string(b)
}

// C09: whitespace, keyword case and redundant parentheses variants of one query
// values that hold a character of the query syntax (escaped, quoted, or inside a regular expression) or several blanks: every layout
// transformation must leave them alone
var layoutValues = []string{`x\(`, `\)y`, `x\(y\)`, `"(x"`, `"y)"`, `"(x) OR (y"`, `/a(b/`, `/b)/`, `"x  y"`, "\"tab\there\"", `"a [b"`, `x\[`, `"{"`, `x\:y`, `"a:b"`, `"x AND"`, `x\ y`, `"  "`, `/a  b/`, `"x, y"`, `"it's"`, `"x \\"`}

func genLayoutValues(g0 int) int {
	g := g0
	for _, v := range layoutValues {
		leaf := func() *qt { return &qt{kind: "fv", toks: []string{"f", ":", v}} }
		for _, t := range []*qt{leaf(), mk("and", leaf(), termQ("b")), mk("or", termQ("a"), leaf()), mk("not", leaf()),
			mk("and", leaf(), &qt{kind: "fv", toks: []string{"g", ":", "w"}}), mk("or", mk("and", leaf(), leaf()), termQ("c"))} {
			words := t.words(nil)
			base := join(words, 0)
			for _, st := range []int{1, 2, 2} {
				emitQ(base, "", fmt.Sprintf("rel=C09ws;g=%d;role=a", g))
				emitQ(join(words, st), "", fmt.Sprintf("rel=C09ws;g=%d;role=b", g))
				g++
			}
			for _, p := range []float64{1.0, 0.5} {
				t2 := addPars(t, p)
				if p == 1.0 {
					t2 = par(t2)
				}
				emitQ(base, "d", fmt.Sprintf("rel=C09par;g=%d;role=a", g))
				emitQ(join(t2.words(nil), 0), "d", fmt.Sprintf("rel=C09par;g=%d;role=b", g))
				g++
			}
		}
	}
	return g
}

func genLayout(n int) {
	g := genShapes(0)
	g = genLayoutValues(g)
	for i := 0; i < n; i++ {
		var words []string
		var t *qt
		valid := rng.Intn(4) != 0
		if valid {
			t = genTree(1+rng.Intn(3), rng.Intn(4) != 0)
			words = t.words(func() bool { return rng.Intn(4) == 0 })
		} else {
			L := 1 + rng.Intn(6)
			for j := 0; j < L; j++ {
				words = append(words, pick(enumAlphabet))
			}
		}
		// sometimes a word spelled like a keyword stands where a field name or a value is expected: whether it touches the
		// colon or not must make no difference (both layouts are rejected)
		if rng.Intn(10) == 0 {
			for j := range words {
				if words[j] == ":" && j > 0 && rng.Intn(2) == 0 {
					if rng.Intn(2) == 0 {
						words[j-1] = pick([]string{"AND", "or", "Not", "to", "OR", "not", "TO", "and"})
					} else if j+1 < len(words) {
						words[j+1] = pick([]string{"AND", "or", "Not", "to"})
					}
					valid = false
					break
				}
			}
		}
		df := pick(dfChoices)
		base := join(words, 0)
		// whitespace variant (relation both ways: same tree or both fail)
		emitQ(base, df, fmt.Sprintf("rel=C09ws;g=%d;role=a", g))
		emitQ(join(words, 2), df, fmt.Sprintf("rel=C09ws;g=%d;role=b", g))
		g++
		// tight variant: only blanks that separate two words are kept
		emitQ(base, df, fmt.Sprintf("rel=C09ws;g=%d;role=a", g))
		emitQ(join(words, 1), df, fmt.Sprintf("rel=C09ws;g=%d;role=b", g))
		g++
		// keyword case
		cw := append([]string{}, words...)
		changed := false
		for j, w := range cw {
			u := strings.ToUpper(w)
			if u == "AND" || u == "OR" || u == "NOT" || u == "TO" {
				cw[j] = swapCase(w)
				changed = changed || cw[j] != w
			}
		}
		if changed {
			emitQ(base, df, fmt.Sprintf("rel=C09case;g=%d;role=a", g))
			emitQ(join(cw, 0), df, fmt.Sprintf("rel=C09case;g=%d;role=b", g))
			g++
		}
		// redundant parentheses: if the original parses the variant parses to the same tree; juxtapositions stay juxtapositions
		if valid {
			allowNumPar = true
			t2 := addPars(t, 0.3)
			allowNumPar = false
			if rng.Intn(2) == 0 {
				t2 = par(t2)
			}
			juxtRecord, juxtReplay = nil, nil
			a := join(t.words(func() bool { return rng.Intn(3) == 0 }), 0)
			juxtReplay = append([]bool{}, juxtRecord...)
			b := join(t2.words(nil), 0)
			juxtRecord, juxtReplay = nil, nil
			emitQ(a, df, fmt.Sprintf("rel=C09par;g=%d;role=a", g))
			emitQ(b, df, fmt.Sprintf("rel=C09par;g=%d;role=b", g))
			g++
		}
	}
}

// C09: values in the shapes of other notations, tight against spaced by the documented token rule
func genShapes(g0 int) int {
	g := g0
	for _, s := range valueShapes {
		toks := splitShape(s)
		if len(toks) < 2 {
			continue
		}
		for _, ctx := range [][2]string{{"", ""}, {"f:", ""}, {"f:", " AND g:1"}, {"x OR ", ""}, {"NOT ", " y"}} {
			pre := []string{}
			if ctx[0] != "" {
				pre = splitCtx(ctx[0])
			}
			post := splitCtx(ctx[1])
			all := append(append(append([]string{}, pre...), toks...), post...)
			tight := ctx[0] + s + ctx[1]
			for _, df := range []string{"", "d"} {
				emitQ(strings.Join(all, " "), df, fmt.Sprintf("rel=C09ws;g=%d;role=a", g))
				emitQ(tight, df, fmt.Sprintf("rel=C09ws;g=%d;role=b", g))
				g++
			}
		}
	}
	return g
}

func splitCtx(s string) []string {
	out := []string{}
	for _, w := range strings.Fields(strings.ReplaceAll(s, ":", " : ")) {
		out = append(out, w)
	}
	return out
}

// C11: the same query with and without a default field that does not otherwise occur in it
func genDField(n int) {
	names := []string{"zz_df", `my "fld`, "dé f", "D", "zz.q-1", "9z"}
	for g := 0; g < n; g++ {
		var q string
		name := pick(names)
		if rng.Intn(5) == 0 {
			L := 1 + rng.Intn(6)
			w := []string{}
			for j := 0; j < L; j++ {
				w = append(w, pick(enumAlphabet))
			}
			q = strings.Join(w, " ")
		} else {
			t := genTree(1+rng.Intn(3), rng.Intn(2) == 0)
			if rng.Intn(3) == 0 {
				t = addPars(t, 0.2)
			}
			q = join(t.words(func() bool { return rng.Intn(3) == 0 }), rng.Intn(3))
			if rng.Intn(2) == 0 {
				name = relatedName(t) // a name close to one of the query's own fields, or one with punctuation
			}
		}
		if rng.Intn(8) == 0 {
			// a value group mixing bare elements with elements under a field close to the default field
			base := pick([]string{"tag", "Kind", "été", "a_1"})
			name = pick([]string{strings.ToUpper(base), strings.Title(base), base + "x", swapCase(base), "zz"})
			if name == base {
				name = base + "_"
			}
			k := 2 + rng.Intn(3)
			el := []string{}
			for j := 0; j < k; j++ {
				v := pick([]string{"x", "y", "5", `"q r"`, "w*"})
				switch rng.Intn(3) {
				case 0:
					el = append(el, base+":"+v)
				default:
					el = append(el, v)
				}
			}
			q = pick([]string{"k", base}) + ":(" + strings.Join(el, " OR ") + ")"
			if rng.Intn(2) == 0 {
				q += " AND " + pick([]string{"z", base + ":z"})
			}
		}
		emitQ(q, "", fmt.Sprintf("rel=C11;g=%d;role=a", g))
		emitQ(q, name, fmt.Sprintf("rel=C11;g=%d;role=b", g))
	}
}

// C04(d): the same query shape with every value replaced by another of the same kind
func sameKind(w string) string {
	switch {
	case w == "*":
		return w
	case strings.HasPrefix(w, `"`) || strings.HasPrefix(w, `'`):
		if w == `"*"` {
			return w
		}
		return pick([]string{`"other"`, `"z z"`, `"o'k"`, `"7"`, `"a,c"`})
	case strings.HasPrefix(w, "/"):
		for {
			y := pick(regexWords)
			if (len(y) >= 2) == (len(w) >= 2) {
				return y
			}
		}
	case strings.ContainsAny(w, "*?"):
		return pick([]string{"w*", "?x", "a*b?c", "a_b*"})
	}
	if _, err := strconv.Atoi(w); err == nil {
		return pick([]string{"5", "-3", "0", "007", "42", "9223372036854775807"})
	}
	if f, err := strconv.ParseFloat(w, 64); err == nil && !math.IsNaN(f) && !math.IsInf(f, 0) {
		return pick([]string{"2.5", "1e6", "-0.0", "5.0", "0.125", "1.5", "-7.25"})
	}
	return pick([]string{"zed", "other", "q9", "ünï"})
}

func substValues(t *qt) *qt {
	c := *t
	c.toks = append([]string{}, t.toks...)
	c.kids = nil
	for _, k := range t.kids {
		c.kids = append(c.kids, substValues(k))
	}
	switch t.kind {
	case "term":
		c.toks[0] = sameKind(t.toks[0])
	case "fv":
		c.toks[2] = sameKind(t.toks[2])
	case "cmp":
		c.toks[4] = sameKind(t.toks[4])
	case "range":
		c.toks[3], c.toks[5] = sameKind(t.toks[3]), sameKind(t.toks[5])
	}
	return &c
}

func genSubst(n int) {
	for g := 0; g < n; g++ {
		t := genTree(1+rng.Intn(3), true)
		df := pick([]string{"", "d"})
		emitQ(join(t.words(nil), 0), df, fmt.Sprintf("rel=C04d;g=%d;role=a", g))
		emitQ(join(substValues(t).words(nil), 0), df, fmt.Sprintf("rel=C04d;g=%d;role=b", g))
	}
}

// nearDup: the query with the first blank inside its first quoted value doubled ("" if there is none)
func nearDup(q string) string {
	if i := strings.Index(q, `"`); i >= 0 {
		if j := strings.Index(q[i+1:], " "); j >= 0 && strings.Index(q[i+1:], `"`) > j {
			return q[:i+1+j] + " " + q[i+1+j:]
		}
	}
	return ""
}
