package main

import (
	"bufio"
	"encoding/json"
	"flag"
	"fmt"
	"math/rand"
	"os"
	"runtime"
	"strings"
	"sync"
	"time"

	lucene "github.com/grindlemire/go-lucene"
	"github.com/grindlemire/go-lucene/pkg/lucene/expr"
)

// race: C14. N goroutines run every entry point on shared and on private expressions; every result is compared
// with the result of a sequential run made before, every shared tree is snapshot before and after.
// Built with -race by the check; a data race makes the process exit with GORACE's exit code.

type rcase struct{ q, df string }

// runLight: Parse, Validate, String, Render, RenderParam and the two public SQL entry points, on a private and on the shared tree
func runLight(c rcase, shared *expr.Expression) []string {
	res := []string{}
	var e *expr.Expression
	res = append(res, guard(func() string {
		ex, err := parseWith(c.q, c.df)
		if err == nil {
			e = ex
		}
		if ex == nil {
			return "nil" + errflag(err)
		}
		return "tree" + errflag(err)
	}))
	for _, x := range []*expr.Expression{e, shared} {
		if x == nil {
			continue
		}
		x := x
		res = append(res, guard(func() string {
			if err := expr.Validate(x); err != nil {
				return "invalid:" + err.Error()
			}
			return "ok"
		}), guard(func() string { return fmt.Sprint(len(x.String())) }),
			guard(func() string { s, err := pg.Render(x); return fmt.Sprint(len(s)) + errflag(err) }),
			guard(func() string { s, ps, err := pg.RenderParam(x); return fmt.Sprint(len(s), len(ps)) + errflag(err) }))
	}
	res = append(res, guard(func() string { s, err := lucene.ToPostgres(c.q); return fmt.Sprint(len(s)) + errflag(err) }),
		guard(func() string {
			s, ps, err := lucene.ToParameterizedPostgres(c.q)
			return fmt.Sprint(len(s), len(ps)) + errflag(err)
		}))
	return res
}

func runAll(c rcase, shared *expr.Expression) []string {
	res := observeQuery(c.q, c.df)[1:10] // parse, validate, String, GoString, Render, RenderParam, Marshal, ToPostgres, ToParameterizedPostgres
	if shared != nil {
		res = append(res, renderAll(shared)...)
		res = append(res, guard(func() string {
			if expr.Validate(shared) != nil {
				return "invalid"
			}
			return "ok"
		}))
	}
	return res
}

func run(i, nLight int, c rcase, shared *expr.Expression) []string {
	if i >= nLight {
		return runLight(c, shared)
	}
	return runAll(c, shared)
}

func raceMain(args []string) {
	fs := flag.NewFlagSet("race", flag.ExitOnError)
	seed := fs.Int64("seed", 1, "seed")
	n := fs.Int("n", 300, "random queries besides the corpus")
	g := fs.Int("g", 16, "goroutines")
	rounds := fs.Int("rounds", 3, "rounds per goroutine")
	fs.Parse(args)
	rng = rand.New(rand.NewSource(*seed))
	if s := os.Getenv("OBSERVE_TIMEOUT_MS"); s != "" {
		var ms int
		fmt.Sscan(s, &ms)
		caseTimeout = time.Duration(ms) * time.Millisecond
	}
	out = bufio.NewWriter(os.Stdout)
	defer out.Flush()
	cases := []rcase{}
	for _, q := range corpusQueries {
		cases = append(cases, rcase{q, ""}, rcase{q, "d"})
	}
	for i := 0; i < *n; i++ {
		t := genTree(1+rng.Intn(3), rng.Intn(3) != 0)
		cases = append(cases, rcase{join(t.words(func() bool { return rng.Intn(3) == 0 }), rng.Intn(3)), pick(dfChoices)})
	}
	// sizes: deep operator chains, deep parentheses, long chains, long value lists (with repeated values)
	nScale := len(cases)
	for _, d := range []int{65, 257} {
		cases = append(cases, rcase{strings.Repeat("NOT ", d) + "a:b", ""}, rcase{strings.Repeat("(", d) + "a:b" + strings.Repeat(")", d), "d"},
			rcase{strings.Repeat("-", d) + "x", "d"})
	}
	for _, n := range []int{65, 257} {
		cases = append(cases, rcase{join(canonWords(listTree("f", listValues("int", n, 0))), 0), ""}, rcase{join(canonWords(listTree("f", listValues("pairs", n, 0))), 0), "d"})
		parts := make([]string, n)
		for i := range parts {
			parts[i] = fmt.Sprintf("f%d:v%d", i, i)
		}
		cases = append(cases, rcase{strings.Join(parts, " AND "), ""}, rcase{strings.Join(parts, " "), ""})
	}
	scaleCases := []int{}
	for i := nScale; i < len(cases); i++ {
		scaleCases = append(scaleCases, i)
	}
	// heavy cases: only in the contention phase, and only through the entry points whose cost is linear in the size
	// (the encoder and the %#v printer are not)
	nLight := len(cases)
	cases = append(cases, rcase{strings.Repeat("NOT ", 4097) + "a:b", ""}, rcase{strings.Repeat("(", 4097) + "a:b" + strings.Repeat(")", 4097), ""},
		rcase{strings.Repeat("(", 8193) + "a:b" + strings.Repeat(")", 8193), ""})
	cases = append(cases, rcase{join(canonWords(listTree("f", listValues("pairs", 70001, 0))), 0), ""})
	// shared expressions and their snapshots
	shared := make([]*expr.Expression, len(cases))
	snap := make([]string, len(cases))
	for i, c := range cases {
		e, err := parseWith(c.q, c.df)
		if err == nil && e != nil {
			shared[i] = e
			snap[i] = showExpr(e)
		}
	}
	tPhase := time.Now()
	phase := func(name string) {
		fmt.Fprintf(os.Stderr, "phase %s: %v\n", name, time.Since(tPhase))
		tPhase = time.Now()
	}
	// cold start: the very first time the process sees these inputs it sees them concurrently (state that is filled in lazily on
	// first use - a memo table, a cache - is written here or never); results are compared with the sequential baseline below
	cold := make([][][]string, *g)
	{
		var wg0 sync.WaitGroup
		for w := 0; w < *g; w++ {
			w := w
			cold[w] = make([][]string, nScale)
			wg0.Add(1)
			lr := rand.New(rand.NewSource(*seed*7919 + int64(w)))
			go func() {
				defer wg0.Done()
				for _, i := range lr.Perm(nScale) {
					if i%(*g) == w%4 || i%7 == w%7 { // each case on a few goroutines
						cold[w][i] = runAll(cases[i], shared[i])
					}
				}
			}()
		}
		wg0.Wait()
	}
	phase("cold-start")
	// sequential baseline
	base := make([][]string, len(cases))
	for i, c := range cases {
		t0 := time.Now()
		base[i] = run(i, nLight, c, shared[i])
		if d := time.Since(t0); d > 2*time.Second {
			fmt.Fprintf(os.Stderr, "slow case %d (%d bytes): %v\n", i, len(c.q), d)
		}
	}
	phase("baseline")
	// a second sequential pass in another order must agree already (state leaking between calls)
	mism := []string{}
	var mu sync.Mutex
	report := func(kind string, i int, k int, got, want string) {
		mu.Lock()
		if len(mism) < 20 {
			mism = append(mism, fmt.Sprintf("%s case=%d query=%.300q (%d bytes) df=%q field=%d got=%.200s want=%.200s", kind, i, cases[i].q, len(cases[i].q), cases[i].df, k, got, want))
		}
		mu.Unlock()
	}
	for w := range cold {
		for i, r := range cold[w] {
			for k := range r {
				if r[k] != base[i][k] {
					report("concurrent-first-use-differs", i, k, r[k], base[i][k])
				}
			}
		}
	}
	order := rng.Perm(len(cases))
	for _, i := range order {
		r := run(i, nLight, cases[i], shared[i])
		for k := range r {
			if r[k] != base[i][k] {
				report("sequential-rerun-differs", i, k, r[k], base[i][k])
			}
		}
	}
	phase("rerun")
	var wg sync.WaitGroup
	calls := 0
	for w := 0; w < *g; w++ {
		wg.Add(1)
		lr := rand.New(rand.NewSource(*seed*1000 + int64(w)))
		go func() {
			defer wg.Done()
			for r := 0; r < *rounds; r++ {
				for _, i := range lr.Perm(nScale) {
					if lr.Intn(4) == 0 {
						runtime.Gosched()
					}
					res := runAll(cases[i], shared[i])
					for k := range res {
						if res[k] != base[i][k] {
							report("concurrent-result-differs", i, k, res[k], base[i][k])
						}
					}
				}
			}
		}()
		calls += *rounds * len(cases)
	}
	wg.Wait()
	phase("random-order")
	// contention: all goroutines on the same case at the same moment, for every size case and a sample of the others
	contended := append([]int{}, scaleCases...)
	for i := nLight; i < len(cases); i++ {
		if len(cases[i].q) < 100000 { // the giant list is run sequentially only (twice, on the shared tree)
			contended = append(contended, i)
		}
	}
	for i := 0; i < 40 && i < nScale; i++ {
		contended = append(contended, rng.Intn(nScale))
	}
	for _, i := range contended {
		tc := time.Now()
		var wg2 sync.WaitGroup
		start := make(chan struct{})
		for w := 0; w < *g; w++ {
			wg2.Add(1)
			go func() {
				defer wg2.Done()
				<-start
				iters := 1
				if i < nScale {
					iters = 2
				} else if i >= nLight {
					iters = 3
				}
				for r := 0; r < iters; r++ {
					res := run(i, nLight, cases[i], shared[i])
					for k := range res {
						if res[k] != base[i][k] {
							report("concurrent-result-differs(same-case)", i, k, res[k], base[i][k])
						}
					}
				}
			}()
		}
		close(start)
		wg2.Wait()
		if d := time.Since(tc); d > 3*time.Second {
			fmt.Fprintf(os.Stderr, "slow contended case %d (%d bytes): %v\n", i, len(cases[i].q), d)
		}
		calls += 2 * *g
	}
	phase("contention")
	mutated := 0
	for i, e := range shared {
		if e != nil && showExpr(e) != snap[i] {
			mutated++
			report("shared-expression-modified", i, -1, showExpr(e), snap[i])
		}
	}
	b, _ := json.Marshal(map[string]any{"cases": len(cases), "goroutines": *g, "calls": calls, "shared": len(shared), "mismatches": mism, "mutated": mutated,
		"samples": []string{cases[0].q, cases[len(cases)-1].q}})
	fmt.Fprintln(out, strings.TrimSpace(string(b)))
}
