(* C08 — Quoting and escaping deliver values verbatim.  (lexer and PostgreSQL-scanner halves) *)
Require Import Parser PgModel.
Require Lex.
Require LexQuote LexField LexEscape PgQuote PgIdent.
Require Import Render Printer QuotePipeline EscapePipeline.
From Coq Require Import List String Ascii NArith ZArith.
Import ListNotations.

(* the whole input  f:<dq>w<dq>  lexes to exactly [Literal f; Colon; Quoted <dq>w<dq>; EOF], for every byte string w without a double quote <dq>
   (any operators, keywords, digits, wildcards, slashes, backslashes, whitespace, any UTF-8 validity) and every ASCII word f that
   is not a keyword; oracle facts: the double quote and the colon are not letters or digits, the four whitespace runes are not alphanumeric *)
Theorem C08_quoted_value_is_one_token : forall cl : Lex.classes,
  Lex.is_letter cl 34%N = false /\ Lex.is_digit cl 34%N = false ->
  Lex.is_letter cl 58%N = false /\ Lex.is_digit cl 58%N = false ->
  (forall r, Lex.is_space r = true -> Lex.is_alnum cl r = false) ->
  forall (c0 : ascii) (f w : list ascii),
  forallb (LexField.wordc cl) (c0 :: f) = true -> Forall (fun c => c <> """"%char) w -> Lex.word_type (c0 :: f) = TLiteral ->
  Lex.lex cl ((c0 :: f) ++ ":"%char :: """"%char :: w ++ [""""%char]) =
  [ {| Lex.typ := TLiteral; Lex.val := c0 :: f |}; {| Lex.typ := TColon; Lex.val := [":"%char] |};
    {| Lex.typ := TQuoted; Lex.val := """"%char :: w ++ [""""%char] |}; Lex.eof_tok ].
Proof. exact LexField.lex_field_quoted. Qed.

(* PostgreSQL's scanner (model) reads  ' + doubled(v) + '  back as exactly the constant v, for every byte string v *)
Theorem C08_sql_constant_decodes_to_the_value : forall (v : bytes) (rest : list ascii),
  match rest with [] => True | c :: _ => Ascii.eqb c "'"%char = false end -> has_newline rest = false ->
  next ("'"%char :: PgQuote.double v ++ "'"%char :: rest) = Some (TStr v, rest).
Proof. exact PgQuote.sq_roundtrip. Qed.

(* from the tokens to the tree: the field f (a term token whose text is the plain word fs) and the quoted text w give the tree
   EQUALS(column fs, literal w): w is ONE string value equal to the text between the quotes, whatever it contains *)
Theorem C08_quoted_value_tree : forall (o : oracle) (ftok : token) (fs w : string),
  is_term_tok ftok = true -> parse_literal o ftok = lit (VStr fs) -> contains_char """"%char w = false ->
  parse_toks o "" [ftok; colon_tok; quoted w; eof] = PTree (E (VExp (lit (VCol fs))) Equals (VExp (lit (VStr w))) one_bits 1%Z).
Proof. exact quoted_value_tree. Qed.

(* from the tree to the inline SQL text: the quoted column, " = ", and the constant ' + w with every ' doubled + ' (valid UTF-8
   and NUL-free texts; the library refuses the others) ... *)
Theorem C08_quoted_value_inline_sql : forall (o2 : oracle2) (fs w : string),
  String.eqb fs "" = false -> contains_char """"%char fs = false ->
  valid_utf8 o2 (col_text fs) = true -> contains_char (ascii_of_nat 0) (col_text fs) = false ->
  valid_utf8 o2 (sql_text w) = true -> contains_char (ascii_of_nat 0) (sql_text w) = false ->
  render o2 (E (VExp (lit (VCol fs))) Equals (VExp (lit (VStr w))) one_bits 1%Z) = Ret ((col_text fs ++ " = " ++ sql_text w)%string, None).
Proof. exact quoted_value_inline. Qed.

(* ... and to the parameter list: the value itself, verbatim, as the only parameter (a lone star is known finding K6) *)
Theorem C08_quoted_value_parameter : forall (o2 : oracle2) (fs w : string),
  String.eqb fs "" = false -> contains_char """"%char fs = false -> String.eqb w "*" = false ->
  valid_utf8 o2 (col_text fs) = true -> contains_char (ascii_of_nat 0) (col_text fs) = false -> valid_utf8 o2 "?" = true ->
  render_param o2 (E (VExp (lit (VCol fs))) Equals (VExp (lit (VStr w))) one_bits 1%Z) = Ret ((col_text fs ++ " = ?")%string, [VStr w], None).
Proof. exact quoted_value_parameter. Qed.

(* ---- the escaping clause (ASCII texts) ----
   esc_b w: w written as a bare word with a backslash before every byte that is not a letter, digit or underscore (wordc).
   The whole input  f:esc(w)  lexes to exactly [Literal f; Colon; Literal esc(w); EOF] for every ASCII text w (any operators,
   quotes, blanks, brackets, slashes ...), provided the escaped spelling is not one of the four keywords;
   oracle facts: the double quote, the colon and the backslash are not letters or digits, whitespace runes are not alphanumeric *)
Theorem C08_escaped_value_is_one_token : forall cl : Lex.classes,
  Lex.is_letter cl 34%N = false /\ Lex.is_digit cl 34%N = false ->
  Lex.is_letter cl 58%N = false /\ Lex.is_digit cl 58%N = false ->
  Lex.is_letter cl 92%N = false /\ Lex.is_digit cl 92%N = false ->
  (forall r, Lex.is_space r = true -> Lex.is_alnum cl r = false) ->
  forall (c0 : ascii) (f : list ascii) (d0 : ascii) (w : list ascii),
  forallb (LexField.wordc cl) (c0 :: f) = true -> Lex.word_type (c0 :: f) = TLiteral ->
  forallb LexEscape.asciib (d0 :: w) = true -> Lex.word_type (LexEscape.esc_b cl (d0 :: w)) = TLiteral ->
  Lex.lex cl ((c0 :: f) ++ ":"%char :: LexEscape.esc_b cl (d0 :: w)) =
  [ {| Lex.typ := TLiteral; Lex.val := c0 :: f |}; {| Lex.typ := TColon; Lex.val := [":"%char] |};
    {| Lex.typ := TLiteral; Lex.val := LexEscape.esc_b cl (d0 :: w) |}; Lex.eof_tok ].
Proof. exact LexEscape.lex_field_escaped. Qed.

(* from the tokens to the tree: a Literal token whose text es loses its backslashes to w, holds no wildcard character and does
   not read as a number (strconv decides: oracle) gives EQUALS(column, literal w) - w as a plain, non-pattern value. (A text with
   a star or question mark stays a pattern and a backslash in w itself is lost: known finding K7, outside these premises.)
   The inline SQL and the parameter list of that tree are the ones of the quoting clause (same tree). *)
Theorem C08_escaped_value_tree : forall (o : oracle) (ftok : token) (fs es w : string),
  is_term_tok ftok = true -> parse_literal o ftok = lit (VStr fs) ->
  atoi es = None ->
  match parse_float o es with Some f => is_nan_or_inf o f = true | None => True end ->
  contains_char "*"%char es = false -> contains_char "?"%char es = false ->
  remove_char "\"%char es = w ->
  parse_toks o "" [ftok; colon_tok; word_tok es; eof] = PTree (E (VExp (lit (VCol fs))) Equals (VExp (lit (VStr w))) one_bits 1%Z).
Proof. exact escaped_value_tree. Qed.

(* and the escaped spelling meets those premises: removing the backslashes from esc(w) gives w back for every w without a
   backslash, and esc(w) holds a star or question mark only if w does *)
Theorem C08_escaped_spelling_loses_only_its_backslashes : forall (cl : Lex.classes) (l : list ascii),
  forallb (fun c => negb (Ascii.eqb c "\"%char)) l = true ->
  remove_char "\"%char (string_of_list_ascii (LexEscape.esc_b cl l)) = string_of_list_ascii l.
Proof. exact esc_remove. Qed.

Theorem C08_escaped_spelling_adds_no_wildcard : forall (cl : Lex.classes) (x : ascii), Ascii.eqb "\"%char x = false -> forall l : list ascii,
  contains_char x (string_of_list_ascii (LexEscape.esc_b cl l)) = contains_char x (string_of_list_ascii l).
Proof. exact esc_contains. Qed.

Print Assumptions C08_quoted_value_is_one_token.
Print Assumptions C08_escaped_value_is_one_token.
Print Assumptions C08_escaped_value_tree.
Print Assumptions C08_escaped_spelling_loses_only_its_backslashes.
Print Assumptions C08_quoted_value_tree.
Print Assumptions C08_quoted_value_inline_sql.
Print Assumptions C08_quoted_value_parameter.
Print Assumptions C08_sql_constant_decodes_to_the_value.
