(* C08 — Quoting and escaping deliver values verbatim.  (lexer and PostgreSQL-scanner halves) *)
Require Import Parser PgModel.
Require Lex.
Require LexQuote LexField PgQuote PgIdent.
From Coq Require Import List String Ascii NArith.
Import ListNotations.

(* the whole input  f:<dq>w<dq>  lexes to exactly [Literal f; Colon; Quoted <dq>w<dq>; EOF], for every byte string w without a double quote <dq>
   (any operators, keywords, digits, wildcards, slashes, backslashes, whitespace, any UTF-8 validity) and every ASCII word f that
   is not a keyword; oracle facts: the double quote and the colon are not letters or digits, the four whitespace runes are not alphanumeric *)
Theorem C08_quoted_value_is_one_token : forall cl : Lex.classes,
  Lex.is_letter cl 34%N = false /\ Lex.is_digit cl 34%N = false ->
  Lex.is_letter cl 58%N = false /\ Lex.is_digit cl 58%N = false ->
  (forall r, Lex.is_space r = true -> Lex.is_alnum cl r = false) ->
  forall (c0 : ascii) (f w : list ascii),
  forallb (LexField.wordc cl) (c0 :: f) = true -> Forall (fun c => c <> """"%char) w -> Lex.word_type (c0 :: f) = TLiteral ->
  Lex.lex cl ((c0 :: f) ++ ":"%char :: """"%char :: w ++ [""""%char]) =
  [ {| Lex.typ := TLiteral; Lex.val := c0 :: f |}; {| Lex.typ := TColon; Lex.val := [":"%char] |};
    {| Lex.typ := TQuoted; Lex.val := """"%char :: w ++ [""""%char] |}; Lex.eof_tok ].
Proof. exact LexField.lex_field_quoted. Qed.

(* PostgreSQL's scanner (model) reads  ' + doubled(v) + '  back as exactly the constant v, for every byte string v *)
Theorem C08_sql_constant_decodes_to_the_value : forall (v : bytes) (rest : list ascii),
  match rest with [] => True | c :: _ => Ascii.eqb c "'"%char = false end -> has_newline rest = false ->
  next ("'"%char :: PgQuote.double v ++ "'"%char :: rest) = Some (TStr v, rest).
Proof. exact PgQuote.sq_roundtrip. Qed.

Print Assumptions C08_quoted_value_is_one_token.
Print Assumptions C08_sql_constant_decodes_to_the_value.
