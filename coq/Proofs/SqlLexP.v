(* C04: PostgreSQL's scanner on the parameterized text of a fragment tree, with its placeholders numbered: the token sequence is
   the one Spec/SqlFragP.trp assigns to the tree. *)
Require Import Parser ParserShape Render PgModel QuerySem SqlFrag SqlFragP.
Require PgQuote PgIdent.
Require Import Decimal SqlLex SqlParseP.
From Coq Require Import List Ascii String NArith ZArith Bool Arith Lia.
Import ListNotations.
Open Scope string_scope.
Open Scope nat_scope.

(* ---- the placeholder token ---- *)
Lemma z_digits_len : forall fuel (j : nat) (n : Z) acc, (0 <= n < 10 ^ Z.of_nat j)%Z -> 0 < j ->
  List.length (los (z_digits fuel n acc)) <= j + List.length (los acc).
Proof.
  induction fuel as [|f IH]; intros j n acc Hn Hj; [cbn [z_digits]; lia|].
  cbn [z_digits]. destruct (n / 10 =? 0)%Z eqn:E.
  - cbn [los list_ascii_of_string List.length]. lia.
  - apply Z.eqb_neq in E. destruct j as [|j]; [lia|].
    assert (Hq : (0 <= n / 10 < 10 ^ Z.of_nat j)%Z).
    { split; [apply Z.div_pos; lia|]. apply Z.div_lt_upper_bound; [lia|]. rewrite Nat2Z.inj_succ, Z.pow_succ_r in Hn by lia. lia. }
    assert (Hj' : 0 < j).
    { destruct j; [|lia]. cbn in Hn. assert (n / 10 = 0)%Z by (apply Z.div_small; lia). contradiction. }
    pose proof (IH j (n / 10)%Z (String (ascii_of_nat (48 + Z.to_nat (n mod 10))) acc) Hq Hj') as L.
    cbn [los list_ascii_of_string List.length] in L. cbn [los] in *. lia.
Qed.

Lemma pnum_shape k : (Z.of_nat k < 1000000000)%Z -> exists c d, pnum k = c :: d /\ forallb is_digit (c :: d) = true /\ List.length (c :: d) <= 9.
Proof.
  intros H. unfold pnum. destruct (nat_digits_shape (Z.of_nat k)) as [c [d [E D]]]. exists c, d. split; [exact E|]. split; [exact D|].
  rewrite <- E. unfold nat_digits. change (str (z_digits 30 (Z.of_nat k) "")) with (los (z_digits 30 (Z.of_nat k) "")).
  pose proof (z_digits_len 30 9 (Z.of_nat k) "" ltac:(change (10 ^ Z.of_nat 9)%Z with 1000000000%Z; lia) ltac:(lia)) as L. cbn [los list_ascii_of_string List.length] in L. lia.
Qed.

Lemma next_param k rest : (Z.of_nat k < 1000000000)%Z -> bnd rest -> next ("$"%char :: pnum k ++ rest)%list = Some (TParam (pnum k), rest).
Proof.
  intros Hk Hb. destruct (pnum_shape k Hk) as [c [d [E [D L]]]]. rewrite E.
  unfold next. lazy -[span is_digit app List.length Nat.leb].
  rewrite (span_all is_digit (c :: d) rest [] D (bnd_first_not is_digit rest Hb eq_refl eq_refl eq_refl)). cbn [rev app].
  apply Nat.leb_le in L. rewrite L. reflexivity.
Qed.

Lemma LX_param k : (Z.of_nat k < 1000000000)%Z -> LX ("$"%char :: pnum k) [TParam (pnum k)].
Proof.
  intros Hk. split.
  - intros rest f Hb. cbn [List.length Nat.add app]. rewrite (lex_step _ _ _ _ (next_param k rest Hk Hb)). reflexivity.
  - cbn. lia.
Qed.

(* ---- the numbered parameterized text ---- *)
Definition qmark (k : nat) : bytes := "$"%char :: pnum k.
Fixpoint qmarks (k n : nat) : bytes :=
  match n with 0 => [] | 1 => qmark k | S n' => (qmark k ++ str ", " ++ qmarks (S k) n')%list end.

Fixpoint pcount (e : Parser.expr) : nat :=
  match e with
  | E l op rt _ _ =>
    match op with
    | And | Or => pcount_v l + pcount_v rt
    | Not | MustNot | Must => pcount_v l
    | Tables.In => match rt with VExp (E (VList lits) _ _ _ _) => List.length lits | _ => 0 end
    | Range => match rt with VBound lo hi _ => (match int_bound lo with Some _ => 1 | None => 0 end) + (match int_bound hi with Some _ => 1 | None => 0 end) | _ => 0 end
    | _ => 1
    end
  end
with pcount_v (v : value) : nat := match v with VExp e => pcount e | _ => 0 end.

Fixpoint ntxt (e : Parser.expr) (k : nat) : bytes :=
  match e with
  | E l op rt _ _ =>
    match op with
    | And => ("("%char :: ntxt_v l k ++ str ") AND (" ++ ntxt_v rt (k + pcount_v l) ++ [")"%char])%list
    | Or => ("("%char :: ntxt_v l k ++ str ") OR (" ++ ntxt_v rt (k + pcount_v l) ++ [")"%char])%list
    | Not | MustNot => (str "NOT(" ++ ntxt_v l k ++ [")"%char])%list
    | Must => ntxt_v l k
    | Equals | Greater | Less | GreaterEq | LessEq => (bdq (fname l) ++ str (optext op) ++ qmark k)%list
    | Like => (bdq (fname l) ++ str " SIMILAR TO " ++ qmark k)%list
    | Tables.In => (bdq (fname l) ++ str " IN (" ++ qmarks k (pcount (E l op rt 0%Z 0%Z)) ++ [")"%char])%list
    | Range =>
        match rt with
        | VBound lo hi incl =>
            match int_bound lo, int_bound hi with
            | Some _, Some _ => (bdq (fname l) ++ str (if incl then " >= " else " > ") ++ qmark k ++ str " AND " ++ bdq (fname l) ++ str (if incl then " <= " else " < ") ++ qmark (S k))%list
            | None, Some _ => (bdq (fname l) ++ str (if incl then " <= " else " < ") ++ qmark k)%list
            | Some _, None => (bdq (fname l) ++ str (if incl then " >= " else " > ") ++ qmark k)%list
            | None, None => []
            end
        | _ => []
        end
    | _ => []
    end
  end
with ntxt_v (v : value) (k : nat) : bytes := match v with VExp e => ntxt e k | _ => [] end.

Lemma trp_pcount_sz : forall n e, esize e <= n -> forall k ts a ps, trp e k = Some (ts, a, ps) -> List.length ps = pcount e.
Proof.
  induction n as [|n IH]; intros e Hn k ts a ps T; [destruct e; cbn in Hn; lia|].
  destruct e as [l op rt b fz]. cbn [esize] in Hn. cbn [trp] in T.
  destruct op; try discriminate.
  - destruct l as [ |?|?|?|?|?|x|?|? ? ?]; try discriminate. destruct rt as [ |?|?|?|?|?|y|?|? ? ?]; try discriminate.
    destruct (trp x k) as [[[tx ax] px]|] eqn:Tx; [|discriminate]. destruct (trp y (k + List.length px)) as [[[ty ay] py]|] eqn:Ty; [|discriminate].
    injection T as <- <- <-. cbn [vsize] in Hn. rewrite app_length. cbn [pcount pcount_v].
    rewrite (IH x ltac:(lia) k tx ax px Tx), (IH y ltac:(lia) _ ty ay py Ty). reflexivity.
  - destruct l as [ |?|?|?|?|?|x|?|? ? ?]; try discriminate. destruct rt as [ |?|?|?|?|?|y|?|? ? ?]; try discriminate.
    destruct (trp x k) as [[[tx ax] px]|] eqn:Tx; [|discriminate]. destruct (trp y (k + List.length px)) as [[[ty ay] py]|] eqn:Ty; [|discriminate].
    injection T as <- <- <-. cbn [vsize] in Hn. rewrite app_length. cbn [pcount pcount_v].
    rewrite (IH x ltac:(lia) k tx ax px Tx), (IH y ltac:(lia) _ ty ay py Ty). reflexivity.
  - destruct (field_of l); [|discriminate]. destruct rt as [ |?|?|?|?|?|lf|?|? ? ?]; try discriminate. cbn [cmp_text] in T.
    destruct (const_param lf); [|discriminate]. injection T as <- <- <-. reflexivity.
  - destruct (field_of l); [|discriminate]. destruct rt as [ |?|?|?|?|?|p|?|? ? ?]; try discriminate. destruct p as [l2 op2 r2 b2 f2].
    destruct l2; try discriminate; destruct op2; try discriminate; destruct r2; try discriminate.
    match goal with T : context [is_regex_text ?p] |- _ => destruct (is_regex_text p); [discriminate|] end. injection T as <- <- <-. reflexivity.
  - destruct l as [ |?|?|?|?|?|x|?|? ? ?]; try discriminate. destruct rt; try discriminate.
    destruct (trp x k) as [[[tx ax] px]|] eqn:Tx; [|discriminate]. injection T as <- <- <-. cbn [vsize] in Hn. cbn [pcount pcount_v]. apply (IH x ltac:(lia) k tx ax px Tx).
  - destruct (field_of l); [|discriminate]. destruct rt as [ |?|?|?|?|?|?|?|lo hi incl]; try discriminate. cbv zeta in T. cbn [pcount].
    destruct (int_bound lo); destruct (int_bound hi); destruct (is_star lo); destruct (is_star hi); try discriminate; injection T as <- <- <-; reflexivity.
  - destruct l as [ |?|?|?|?|?|x|?|? ? ?]; try discriminate. destruct rt; try discriminate. cbn [vsize] in Hn. cbn [pcount pcount_v]. apply (IH x ltac:(lia) k ts a ps T).
  - destruct l as [ |?|?|?|?|?|x|?|? ? ?]; try discriminate. destruct rt; try discriminate.
    destruct (trp x k) as [[[tx ax] px]|] eqn:Tx; [|discriminate]. injection T as <- <- <-. cbn [vsize] in Hn. cbn [pcount pcount_v]. apply (IH x ltac:(lia) k tx ax px Tx).
  - destruct (field_of l); [|discriminate]. destruct rt as [ |?|?|?|?|?|lf|?|? ? ?]; try discriminate. cbn [cmp_text] in T.
    destruct (const_param lf); [|discriminate]. injection T as <- <- <-. reflexivity.
  - destruct (field_of l); [|discriminate]. destruct rt as [ |?|?|?|?|?|lf|?|? ? ?]; try discriminate. cbn [cmp_text] in T.
    destruct (const_param lf); [|discriminate]. injection T as <- <- <-. reflexivity.
  - destruct (field_of l); [|discriminate]. destruct rt as [ |?|?|?|?|?|lf|?|? ? ?]; try discriminate. cbn [cmp_text] in T.
    destruct (const_param lf); [|discriminate]. injection T as <- <- <-. reflexivity.
  - destruct (field_of l); [|discriminate]. destruct rt as [ |?|?|?|?|?|lf|?|? ? ?]; try discriminate. cbn [cmp_text] in T.
    destruct (const_param lf); [|discriminate]. injection T as <- <- <-. reflexivity.
  - destruct (field_of l); [|discriminate]. destruct rt as [ |?|?|?|?|?|p|?|? ? ?]; try discriminate. destruct p as [l2 op2 r2 b2 f2].
    destruct l2 as [ |?|?|?|?|?|?|lits|? ? ?]; try discriminate. destruct lits as [|x lits]; try discriminate.
    destruct op2; try discriminate; destruct r2; try discriminate.
    destruct (consts_param (x :: lits)) as [vs|] eqn:C; [|discriminate]. injection T as <- <- <-.
    cbn [pcount]. apply (consts_param_length (x :: lits) vs C).
Qed.

(* the placeholder list of an IN *)
Lemma LX_qmarks : forall n k, (Z.of_nat (k + S n) < 1000000000)%Z -> LX (qmarks k (S n)) (param_toks k (S n)).
Proof.
  induction n as [|n IH]; intros k Hk.
  - cbn [qmarks param_toks]. apply LX_param. lia.
  - change (qmarks k (S (S n))) with (qmark k ++ str ", " ++ qmarks (S k) (S n))%list.
    change (param_toks k (S (S n))) with (TParam (pnum k) :: TComma :: param_toks (S k) (S n)).
    replace (TParam (pnum k) :: TComma :: param_toks (S k) (S n)) with (([TParam (pnum k)] ++ [TComma]) ++ param_toks (S k) (S n))%list by reflexivity.
    rewrite app_assoc. apply G_then_LX.
    + apply LX_then_G; [apply LX_param; lia|apply gb_comma|apply G_comma].
    + apply IH. lia.
Qed.

Lemma G_name_optext fl op o : name_ok fl = true -> cmp_text op = Some o -> G (bdq fl ++ str (optext op))%list [TIdent (str fl); TOp (str o)].
Proof.
  intros Hn Ho. destruct (G_optext op o Ho) as [Gop Bop].
  change [TIdent (str fl); TOp (str o)] with ([TIdent (str fl)] ++ [TOp (str o)])%list.
  apply LX_then_G; [apply LX_name; exact Hn|exact Bop|exact Gop].
Qed.

Lemma LX_name_op_param fl op o k : name_ok fl = true -> cmp_text op = Some o -> (Z.of_nat k < 1000000000)%Z ->
  LX (bdq fl ++ str (optext op) ++ qmark k)%list [TIdent (str fl); TOp (str o); TParam (pnum k)].
Proof.
  intros Hn Ho Hk. change [TIdent (str fl); TOp (str o); TParam (pnum k)] with ([TIdent (str fl); TOp (str o)] ++ [TParam (pnum k)])%list.
  rewrite app_assoc. apply G_then_LX; [apply (G_name_optext fl op o Hn Ho)|apply LX_param; exact Hk].
Qed.

Theorem ntxt_lexes_sz : forall n e, esize e <= n -> forall k ts a ps, trp e k = Some (ts, a, ps) -> names_ok e = true ->
  (Z.of_nat (k + pcount e) < 1000000000)%Z -> LX (ntxt e k) ts.
Proof.
  induction n as [|n IH]; intros e Hn k ts a ps T Nm Hk; [destruct e; cbn in Hn; lia|].
  destruct e as [l op rt b fz]. cbn [esize] in Hn. cbn [trp] in T.
  destruct op; try discriminate.
  - (* And *)
    destruct l as [ |?|?|?|?|?|x|?|? ? ?]; try discriminate. destruct rt as [ |?|?|?|?|?|y|?|? ? ?]; try discriminate.
    destruct (trp x k) as [[[tx ax] px]|] eqn:Tx; [|discriminate]. destruct (trp y (k + List.length px)) as [[[ty ay] py]|] eqn:Ty; [|discriminate].
    injection T as <- <- <-. cbn [names_ok names_ok_v] in Nm. apply andb_true_iff in Nm. destruct Nm as [Nx Ny]. cbn [vsize] in Hn.
    cbn [pcount pcount_v] in Hk. pose proof (trp_pcount_sz _ x (le_n _) k tx ax px Tx) as Lx. rewrite Lx in Ty.
    cbn [ntxt ntxt_v pcount_v]. apply G_LX.
    replace ("("%char :: ntxt x k ++ str ") AND (" ++ ntxt y (k + pcount x) ++ [")"%char])%list with (["("%char] ++ (ntxt x k ++ str ") AND (") ++ (ntxt y (k + pcount x) ++ [")"%char]))%list
      by (cbn [app]; rewrite <- !app_assoc; reflexivity).
    replace (TLP :: tx ++ TRP :: TKw KAnd :: TLP :: ty ++ [TRP])%list with ([TLP] ++ (tx ++ [TRP; TKw KAnd; TLP]) ++ (ty ++ [TRP]))%list
      by (cbn [app]; rewrite <- !app_assoc; reflexivity).
    apply (G_app _ _ _ _ G_lp). apply G_app.
    + apply LX_then_G; [apply (IH x ltac:(lia) k tx ax px Tx Nx); lia|apply gb_rp|apply G_rp_and_lp].
    + apply LX_then_G; [apply (IH y ltac:(lia) _ ty ay py Ty Ny); lia|apply gb_rp|apply G_rp].
  - (* Or *)
    destruct l as [ |?|?|?|?|?|x|?|? ? ?]; try discriminate. destruct rt as [ |?|?|?|?|?|y|?|? ? ?]; try discriminate.
    destruct (trp x k) as [[[tx ax] px]|] eqn:Tx; [|discriminate]. destruct (trp y (k + List.length px)) as [[[ty ay] py]|] eqn:Ty; [|discriminate].
    injection T as <- <- <-. cbn [names_ok names_ok_v] in Nm. apply andb_true_iff in Nm. destruct Nm as [Nx Ny]. cbn [vsize] in Hn.
    cbn [pcount pcount_v] in Hk. pose proof (trp_pcount_sz _ x (le_n _) k tx ax px Tx) as Lx. rewrite Lx in Ty.
    cbn [ntxt ntxt_v pcount_v]. apply G_LX.
    replace ("("%char :: ntxt x k ++ str ") OR (" ++ ntxt y (k + pcount x) ++ [")"%char])%list with (["("%char] ++ (ntxt x k ++ str ") OR (") ++ (ntxt y (k + pcount x) ++ [")"%char]))%list
      by (cbn [app]; rewrite <- !app_assoc; reflexivity).
    replace (TLP :: tx ++ TRP :: TKw KOr :: TLP :: ty ++ [TRP])%list with ([TLP] ++ (tx ++ [TRP; TKw KOr; TLP]) ++ (ty ++ [TRP]))%list
      by (cbn [app]; rewrite <- !app_assoc; reflexivity).
    apply (G_app _ _ _ _ G_lp). apply G_app.
    + apply LX_then_G; [apply (IH x ltac:(lia) k tx ax px Tx Nx); lia|apply gb_rp|apply G_rp_or_lp].
    + apply LX_then_G; [apply (IH y ltac:(lia) _ ty ay py Ty Ny); lia|apply gb_rp|apply G_rp].
  - (* Equals *)
    destruct (field_of l) as [fl|] eqn:Fl; [|discriminate]. destruct rt as [ |?|?|?|?|?|lf|?|? ? ?]; try discriminate. cbn [cmp_text] in T.
    destruct (const_param lf) as [v|]; [|discriminate]. injection T as <- <- <-.
    cbn [names_ok] in Nm. unfold fname in Nm. rewrite Fl in Nm. cbn [ntxt]. unfold fname. rewrite Fl. cbn [pcount] in Hk.
    apply (LX_name_op_param fl Equals "=" k Nm eq_refl). lia.
  - (* Like *)
    destruct (field_of l) as [fl|] eqn:Fl; [|discriminate]. destruct rt as [ |?|?|?|?|?|p|?|? ? ?]; try discriminate. destruct p as [l2 op2 r2 b2 f2].
    destruct l2; try discriminate; destruct op2; try discriminate; destruct r2; try discriminate.
    match goal with T : context [is_regex_text ?p] |- _ => destruct (is_regex_text p); [discriminate|] end. injection T as <- <- <-.
    cbn [names_ok] in Nm. unfold fname in Nm. rewrite Fl in Nm. cbn [ntxt]. unfold fname. rewrite Fl. cbn [pcount] in Hk.
    change [TIdent (str fl); TKw KSimilar; TKw KTo; TParam (pnum k)] with (([TIdent (str fl)] ++ [TKw KSimilar; TKw KTo]) ++ [TParam (pnum k)])%list.
    rewrite app_assoc. apply G_then_LX; [apply LX_then_G; [apply LX_name; exact Nm|apply gb_blank; reflexivity|apply G_similar]|apply LX_param; lia].
  - (* Not *)
    destruct l as [ |?|?|?|?|?|x|?|? ? ?]; try discriminate. destruct rt; try discriminate.
    destruct (trp x k) as [[[tx ax] px]|] eqn:Tx; [|discriminate]. injection T as <- <- <-. cbn [names_ok names_ok_v] in Nm. cbn [vsize] in Hn. cbn [pcount pcount_v] in Hk.
    cbn [ntxt ntxt_v]. apply G_LX.
    change (TKw KNot :: TLP :: tx ++ [TRP])%list with ([TKw KNot; TLP] ++ (tx ++ [TRP]))%list.
    apply (G_app _ _ _ _ G_not). apply LX_then_G; [apply (IH x ltac:(lia) k tx ax px Tx Nm); lia|apply gb_rp|apply G_rp].
  - (* Range *)
    destruct (field_of l) as [fl|] eqn:Fl; [|discriminate]. destruct rt as [ |?|?|?|?|?|?|?|lo hi incl]; try discriminate. cbv zeta in T.
    cbn [names_ok] in Nm. unfold fname in Nm. rewrite Fl in Nm. cbn [ntxt]. unfold fname. rewrite Fl. cbn [pcount] in Hk.
    destruct (int_bound lo) as [a0|] eqn:Ba; destruct (int_bound hi) as [b0|] eqn:Bb.
    + assert (T' : ts = ((([TIdent (str fl); TOp (str (if incl then ">=" else ">"))] ++ ([TParam (pnum k)] ++ [TKw KAnd])) ++ [TIdent (str fl); TOp (str (if incl then "<=" else "<"))]) ++ [TParam (pnum (S k))])%list)
        by (destruct (is_star lo), (is_star hi); inversion T; reflexivity).
      subst ts.
      replace (bdq fl ++ str (if incl then " >= " else " > ") ++ qmark k ++ str " AND " ++ bdq fl ++ str (if incl then " <= " else " < ") ++ qmark (S k))%list
        with ((((bdq fl ++ str (if incl then " >= " else " > ")) ++ (qmark k ++ str " AND ")) ++ (bdq fl ++ str (if incl then " <= " else " < "))) ++ qmark (S k))%list
        by (rewrite <- !app_assoc; reflexivity).
      apply G_then_LX; [|apply LX_param; lia]. apply G_app; [apply G_app|].
      * apply (G_name_op fl incl " >= " " > " ">=" ">" Nm G_ge G_gt); apply gb_blank; reflexivity.
      * apply LX_then_G; [apply LX_param; lia|apply gb_blank; reflexivity|apply G_and].
      * apply (G_name_op fl incl " <= " " < " "<=" "<" Nm G_le G_lt); apply gb_blank; reflexivity.
    + assert (T' : ts = ([TIdent (str fl); TOp (str (if incl then ">=" else ">"))] ++ [TParam (pnum k)])%list)
        by (destruct (is_star lo), (is_star hi); inversion T; reflexivity).
      subst ts. rewrite app_assoc. apply G_then_LX; [|apply LX_param; lia].
      apply (G_name_op fl incl " >= " " > " ">=" ">" Nm G_ge G_gt); apply gb_blank; reflexivity.
    + assert (T' : ts = ([TIdent (str fl); TOp (str (if incl then "<=" else "<"))] ++ [TParam (pnum k)])%list)
        by (destruct (is_star lo), (is_star hi); inversion T; reflexivity).
      subst ts. rewrite app_assoc. apply G_then_LX; [|apply LX_param; lia].
      apply (G_name_op fl incl " <= " " < " "<=" "<" Nm G_le G_lt); apply gb_blank; reflexivity.
    + destruct (is_star lo), (is_star hi); discriminate.
  - (* Must *)
    destruct l as [ |?|?|?|?|?|x|?|? ? ?]; try discriminate. destruct rt; try discriminate.
    cbn [names_ok names_ok_v] in Nm. cbn [vsize] in Hn. cbn [pcount pcount_v] in Hk. cbn [ntxt ntxt_v]. apply (IH x ltac:(lia) k ts a ps T Nm Hk).
  - (* MustNot *)
    destruct l as [ |?|?|?|?|?|x|?|? ? ?]; try discriminate. destruct rt; try discriminate.
    destruct (trp x k) as [[[tx ax] px]|] eqn:Tx; [|discriminate]. injection T as <- <- <-. cbn [names_ok names_ok_v] in Nm. cbn [vsize] in Hn. cbn [pcount pcount_v] in Hk.
    cbn [ntxt ntxt_v]. apply G_LX.
    change (TKw KNot :: TLP :: tx ++ [TRP])%list with ([TKw KNot; TLP] ++ (tx ++ [TRP]))%list.
    apply (G_app _ _ _ _ G_not). apply LX_then_G; [apply (IH x ltac:(lia) k tx ax px Tx Nm); lia|apply gb_rp|apply G_rp].
  - (* Greater *)
    destruct (field_of l) as [fl|] eqn:Fl; [|discriminate]. destruct rt as [ |?|?|?|?|?|lf|?|? ? ?]; try discriminate. cbn [cmp_text] in T.
    destruct (const_param lf) as [v|]; [|discriminate]. injection T as <- <- <-.
    cbn [names_ok] in Nm. unfold fname in Nm. rewrite Fl in Nm. cbn [ntxt]. unfold fname. rewrite Fl. cbn [pcount] in Hk.
    apply (LX_name_op_param fl Greater ">" k Nm eq_refl). lia.
  - (* Less *)
    destruct (field_of l) as [fl|] eqn:Fl; [|discriminate]. destruct rt as [ |?|?|?|?|?|lf|?|? ? ?]; try discriminate. cbn [cmp_text] in T.
    destruct (const_param lf) as [v|]; [|discriminate]. injection T as <- <- <-.
    cbn [names_ok] in Nm. unfold fname in Nm. rewrite Fl in Nm. cbn [ntxt]. unfold fname. rewrite Fl. cbn [pcount] in Hk.
    apply (LX_name_op_param fl Less "<" k Nm eq_refl). lia.
  - (* GreaterEq *)
    destruct (field_of l) as [fl|] eqn:Fl; [|discriminate]. destruct rt as [ |?|?|?|?|?|lf|?|? ? ?]; try discriminate. cbn [cmp_text] in T.
    destruct (const_param lf) as [v|]; [|discriminate]. injection T as <- <- <-.
    cbn [names_ok] in Nm. unfold fname in Nm. rewrite Fl in Nm. cbn [ntxt]. unfold fname. rewrite Fl. cbn [pcount] in Hk.
    apply (LX_name_op_param fl GreaterEq ">=" k Nm eq_refl). lia.
  - (* LessEq *)
    destruct (field_of l) as [fl|] eqn:Fl; [|discriminate]. destruct rt as [ |?|?|?|?|?|lf|?|? ? ?]; try discriminate. cbn [cmp_text] in T.
    destruct (const_param lf) as [v|]; [|discriminate]. injection T as <- <- <-.
    cbn [names_ok] in Nm. unfold fname in Nm. rewrite Fl in Nm. cbn [ntxt]. unfold fname. rewrite Fl. cbn [pcount] in Hk.
    apply (LX_name_op_param fl LessEq "<=" k Nm eq_refl). lia.
  - (* In *)
    destruct (field_of l) as [fl|] eqn:Fl; [|discriminate]. destruct rt as [ |?|?|?|?|?|p|?|? ? ?]; try discriminate. destruct p as [l2 op2 r2 b2 f2].
    destruct l2 as [ |?|?|?|?|?|?|lits|? ? ?]; try discriminate. destruct lits as [|x lits]; try discriminate.
    destruct op2; try discriminate; destruct r2; try discriminate.
    destruct (consts_param (x :: lits)) as [vs|] eqn:C; [|discriminate]. injection T as <- <- <-.
    cbn [names_ok] in Nm. unfold fname in Nm. rewrite Fl in Nm. cbn [ntxt]. unfold fname. rewrite Fl. cbn [pcount] in Hk |- *.
    assert (Lv : List.length vs = S (List.length lits)).
    { pose proof (trp_pcount_sz _ (E l Tables.In (VExp (E (VList (x :: lits)) Tables.List VNil b2 f2)) b fz) (le_n _) k
        (TIdent (str fl) :: TKw KIn :: TLP :: param_toks k (List.length vs) ++ [TRP]) (AIn (ACol (str fl)) (param_asts k (List.length vs))) vs) as P.
      cbn [trp] in P. rewrite Fl, C in P. specialize (P eq_refl). cbn [pcount List.length] in P. exact P. }
    rewrite Lv. cbn [List.length]. apply G_LX.
    replace (TIdent (str fl) :: TKw KIn :: TLP :: param_toks k (S (List.length lits)) ++ [TRP])%list with (([TIdent (str fl)] ++ [TKw KIn; TLP]) ++ (param_toks k (S (List.length lits)) ++ [TRP]))%list
      by (cbn [app]; reflexivity).
    rewrite app_assoc. apply G_app.
    + apply LX_then_G; [apply LX_name; exact Nm|apply gb_blank; reflexivity|apply G_in].
    + apply LX_then_G; [apply LX_qmarks; cbn [List.length] in Hk; lia|apply gb_rp|apply G_rp].
Qed.
