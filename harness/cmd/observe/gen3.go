package main

import (
	"fmt"
	"strconv"
	"strings"

	"github.com/grindlemire/go-lucene/pkg/lucene/expr"
)

// ---------------------------------------------------------------------------------------------------
// Two general input dimensions that random structured generation does not reach by itself:
//
//   scale        every size-like quantity of a query (number of values in a list, operands of a chain, stacked prefix
//                operators, nested parentheses, blanks in a gap, bytes of a name, bytes of a value, digits of a number)
//                swept over a ladder: every size up to 12, then 2^k-1, 2^k, 2^k+1. Each size is emitted in the relations
//                the properties are checked on (printed tree, juxtaposed/explicit pair, layout pairs, default-field
//                pair, same-kind substitution pair, quoted value, custom driver), not only as a plain query.
//   confusables  for every ASCII character that means something to the lexer, to JSON or to SQL, the non-ASCII
//                characters that look like it or normalise to it (fullwidth and small forms, typographic quotes, primes,
//                dashes, exotic blanks and line separators, non-ASCII digits), mixed into every text alphabet.
// ---------------------------------------------------------------------------------------------------

func ladder(maxExp int) []int {
	s := []int{}
	for i := 1; i <= 12; i++ {
		s = append(s, i)
	}
	for k := 4; k <= maxExp; k++ {
		p := 1 << k
		s = append(s, p-1, p, p+1)
	}
	return s
}

var confusables []string

func withConfusables(base []string) []string {
	// about one part in four is a confusable
	k := (3*len(confusables) + len(base) - 1) / len(base)
	out := []string{}
	for i := 0; i < k; i++ {
		out = append(out, base...)
	}
	return append(out, confusables...)
}

func init() {
	for c := rune('!'); c <= '~'; c++ {
		isAlnum := (c >= '0' && c <= '9') || (c >= 'a' && c <= 'z') || (c >= 'A' && c <= 'Z')
		if !isAlnum || c == '0' || c == '7' || c == 'A' || c == 'e' {
			confusables = append(confusables, string(c+0xFEE0)) // fullwidth forms U+FF01..U+FF5E
		}
	}
	for c := rune(0xFE50); c <= 0xFE6B; c++ { // small form variants
		if c != 0xFE53 && c != 0xFE67 {
			confusables = append(confusables, string(c))
		}
	}
	confusables = append(confusables,
		"\u201c", "\u201d", "\u201e", "\u2018", "\u2019", "\u201a", "\u00ab", "\u00bb", "\u2032", "\u2033", "\u02bc", "\u0060", "\u00b4", // quotes, primes
		"\u2010", "\u2011", "\u2012", "\u2013", "\u2014", "\u2212", "\u00ad", // hyphens, dashes, minus, soft hyphen
		"\u2044", "\u2215", "\u2216", "\u29f5", "\u29f8", // slashes and backslashes
		"\u00a0", "\u1680", "\u2000", "\u2003", "\u2009", "\u200a", "\u200b", "\u202f", "\u205f", "\u3000", "\ufeff", "\u0085", "\u2028", "\u2029", "\u000b", "\u000c", // blanks, line separators
		"\u0663", "\u06f3", "\u0969", "\U0001d7d7", "\u2167", "\u00b2", "\u00bd", // digits that are not ASCII digits
		"\u2217", "\u204e", "\u066d", "\u061f", "\u037e", "\u2236", "\ua789", "\u02d0", // asterisks, question marks, semicolon, colons
		"\u2768", "\u2769", "\u27e6", "\u27e7", "\u3008", "\u3009", // brackets
		"\u0130", "\u0131", "\u017f", "\u212a", "\u00df", // letters whose case mapping leaves ASCII or changes length
	)
	quoteAlphabet = withConfusables(append(quoteAlphabet, "\r\n", "\r", "\\\\", "\\'"))
	lexAlphabet = withConfusables(append(lexAlphabet, "\r\n", "\"x\r\ny\"", "'p\r\nq'", "/r\r\n/", "EOF", " EOF ", "eof"))
	enumAlphabet = append(enumAlphabet, "EOF")
	hostile = withConfusables(hostile)
	for _, c := range []string{"\uff07", "\uff3c", "\u201c", "\u201d", "\u2019", "\uff02", "\u2028", "\u00a0", "\uff0a", "\uff1f", "\u0663"} {
		quotedWords = append(quotedWords, `"a`+c+`b"`, `"`+c+`"`)
		semStrs = append(semStrs, `"say `+c+`hi`+c+` now"`, `"`+c+`a"`)
		escWords = append(escWords, `a\`+c+`b`)
	}
	quotedWords = append(quotedWords, "\"x\r\ny\"", `"a\\"`, `"\\\\"`, "'x\r\ny'") // no quote inside a phrase, escaped or not: it ends the phrase
	regexWords = append(regexWords, `/b\\/`, `/\\/`, `/a\\\//`, `/\//`, "/a\r\nb/")
	// words that mean something in a neighbouring language (Lucene/Elasticsearch special fields, SQL, Go, the JSON encoding)
	magic := []string{"_exists_", "_missing_", "_all", "_id", "_index", "_type", "_source", "_field_names", "_score", "exists", "missing",
		"select", "from", "where", "between", "like", "similar", "escape", "is", "in", "any", "all", "case", "cast", "default", "current_user", "user",
		"func", "map", "range", "type", "nil", "NULL", "LITERAL", "EQUALS", "LIKE", "IN", "LIST", "RANGE", "BOOST", "FUZZY", "WILD", "REGEXP", "MUST", "MUST_NOT",
		"UNDEFINED", "infinity", "e", "E", "00", "1e0", "0x0", "id", "ID", "EOF", "eof", "ERR", "TEOF", "now", "now-7d", "now-1M", "today", "yesterday", "current_date", "NOW"}
	plainWords = append(plainWords, magic...)
	for _, m := range magic {
		if !strings.ContainsAny(m, "+") {
			fieldNames = append(fieldNames, m)
		}
	}
	semStrFields = append(semStrFields, "_exists_", "min", "select", "like")
	semNumFields = append(semNumFields, "_id", "max")
	semStrs = append(semStrs, "left", "null", "true", "_exists_", "select", "between")
	dfChoices = append(dfChoices, "_exists_", "_all", "left", "select")
	// numerals in the spellings of neighbouring notations
	floatWords = append(floatWords, "1e-05", "2.5e-05", "1E5", "5.", "1e-7", "0.000001") // a + inside a word is the operator: only in valueShapes
	boostNums = append(boostNums, "1e-05", "2.5e-05", "5e-1")
	regexWords = append(regexWords, `/(api\/v1)+/`, `/(https?:\/\/)?x\.com/`, `/a\/(b)/`, `/\/)/`)
	// regular expressions the lexer accepts and a regexp engine rejects
	regexWords = append(regexWords, "/(/", "/[/", "/a(/", "/*a/", "/a{2,1}/", `/\p{Foo}/`, "/)/", "/+/")
	// words that are member names or constants of the JSON encoding
	plainWords = append(plainWords, "min", "max", "left", "right", "operator", "inclusive", "power", "distance", "true", "false", "null")
	// field names that keep a backslash, a control character or a blank after parsing
	fieldNames = append(fieldNames, `"a\b"`, "\"t\tb\"", `"C:\dir"`, "\"nl\nx\"")
	semStrFields = append(semStrFields, `"a\b"`, "\"t\tb\"", `"C:\dir"`)
	semNumFields = append(semNumFields, `"n\1"`)
}

// numbers next to the defaults of boost (1.0) and fuzzy (1), and other near-threshold spellings
var boostNums = []string{"", "", "2", "0.5", "3.25", "10", "1", "1.0", "1.0000000001", "0.9999999999", "1.0000000000000002", "0.99999999999999989", "1e0", "1.00", "1.0000001"}

// a boost of zero is rejected by the parser (outside the premise of the C05 theorems): only where no printed tree is promised
var zeroBoost = []string{"0", "0.0", "-1", "0e0"}
var allowZeroBoost = true
var fuzzyNums = []string{"", "", "2", "3", "7", "0", "1", "01", "10", "255", "256"}

func termQ(w string) *qt { return &qt{kind: "term", toks: []string{w}} }

func listTree(f string, vals []string) *qt {
	v := termQ(vals[0])
	for _, w := range vals[1:] {
		v = mk("or", v, termQ(w))
	}
	return &qt{kind: "fe", toks: []string{f, ":"}, kids: []*qt{v}}
}

func listValues(kind string, n, off int) []string {
	vals := make([]string, n)
	for i := range vals {
		switch kind {
		case "int":
			vals[i] = strconv.Itoa(i + 1 + off)
		case "word":
			vals[i] = fmt.Sprintf("v%d", i+off)
		case "quoted":
			vals[i] = fmt.Sprintf(`"q %d"`, i+off)
		case "sameint":
			vals[i] = strconv.Itoa(4711 + off)
		case "sameword":
			vals[i] = fmt.Sprintf("x%d", off)
		case "pairs": // every value twice
			vals[i] = strconv.Itoa(i/2 + 1 + off)
		}
	}
	return vals
}

func chainTree(kind string, atoms []*qt) *qt {
	t := atoms[0]
	for _, a := range atoms[1:] {
		t = mk(kind, t, a)
	}
	return t
}

func genScale(dim string, thorough bool) {
	g := 0
	extra := ""
	pair := func(rel, a, b, dfa, dfb string) {
		emitQ(a, dfa, fmt.Sprintf("rel=%s;g=%d;role=a%s", rel, g, extra))
		emitQ(b, dfb, fmt.Sprintf("rel=%s;g=%d;role=b%s", rel, g, extra))
		g++
	}
	maxExp, chainExp := 10, 8 // lists, names, values, gaps to 1025; chains and stacked operators (quadratic in the implementation's encoder) to 257
	if thorough {
		maxExp, chainExp = 12, 10
	}
	lit := strconv.Itoa(int(expr.Literal))
	inop := strconv.Itoa(int(expr.In))
	lst := strconv.Itoa(int(expr.List))
	specs := []string{"rm=;ov=", "rm=;ov=" + lit, "rm=" + lit + ";ov=", "rm=;ov=" + inop + "," + lst, "rm=" + lst + ";ov="}

	if dim == "list" {
		// ---- value lists ----
		for _, n := range ladder(maxExp) {
			for _, kind := range []string{"int", "word", "quoted", "sameint", "sameword", "pairs"} {
				if n > 129 && (kind == "quoted" || kind == "sameword" || kind == "pairs") || n > 257 && kind == "word" {
					continue
				}
				t := listTree("f", listValues(kind, n, 0))
				q := join(canonWords(t), 0)
				emitQ(q, "", "src=scale;dim=list")
				if n <= 257 {
					emitQ(q, "", "rel=C05;qt="+t.sexpr())
				}
				if kind == "int" || (n <= 129 && (kind == "word" || kind == "quoted")) {
					pair("C04d", q, join(canonWords(listTree("f", listValues(kind, n, 100000))), 0), "", "")
				}
				if kind == "int" || kind == "sameword" {
					for i, sp := range specs {
						if n <= 129 || i < 3 {
							emitD(q, sp, "src=scale")
						}
					}
				}
				// the list as one operand among others, and under a default field
				if kind == "word" {
					emitQ("NOT "+q+" AND g:1", "d", "src=scale;dim=list")
				}
			}
		}
	}
	if dim == "giant" {
		giants := []int{32767, 65535, 65537}
		if thorough {
			giants = append(giants, 65536, 70001, 131073)
		}
		for _, n := range giants {
			q := join(canonWords(listTree("f", listValues("int", n, 0))), 0)
			emitQ(q, "", "src=scale;dim=list;giant=1")
			extra = ";giant=1"
			pair("C04d", q, join(canonWords(listTree("f", listValues("int", n, 100000))), 0), "", "")
			extra = ""
			emitQ(join(canonWords(listTree("f", listValues("pairs", n, 0))), 0), "", "src=scale;dim=list;giant=1")
		}

	}
	if dim == "chain" {
		// ---- chains of operands ----
		for _, n := range ladder(chainExp) {
			if n < 2 {
				continue
			}
			fielded := make([]*qt, n)
			bare := make([]*qt, n)
			for i := range fielded {
				fielded[i] = &qt{kind: "fv", toks: []string{fmt.Sprintf("f%d", i), ":", fmt.Sprintf("v%d", i)}}
				bare[i] = termQ(fmt.Sprintf("t%d", i))
			}
			for _, op := range []string{"and", "or"} {
				if n > 129 && op == "or" {
					continue
				}
				t := chainTree(op, fielded)
				q := join(canonWords(t), 0)
				emitQ(q, "", "src=scale;dim=chain")
				if n <= 257 {
					emitQ(q, "", "rel=C05;qt="+t.sexpr())
				}
				// every operand parenthesised, and the whole
				wrapped := make([]*qt, n)
				for i := range wrapped {
					wrapped[i] = par(fielded[i])
				}
				pair("C09par", q, join(canonWords(par(chainTree(op, wrapped))), 0), "", "")
				if n <= 65 {
					emitD(q, "rm=;ov=", "src=scale")
				}
			}
			// juxtaposition against explicit AND: fielded operands, bare terms with and without default field, mixed with OR
			for ai, atoms := range [][]*qt{fielded, bare} {
				ws := [][]string{}
				for _, a := range atoms {
					ws = append(ws, a.words(nil))
				}
				var a, b []string
				for i, w := range ws {
					if i > 0 {
						a = append(a, "AND")
					}
					a = append(a, w...)
					b = append(b, w...)
				}
				for _, df := range []string{"", "d"} {
					if n <= 129 || (df == "d") == (ai == 1) {
						pair("C07", join(a, 0), join(b, 0), df, df)
					}
				}
				if n <= 129 {
					pair("C07", "z:1 OR "+join(a, 0), "z:1 OR "+join(b, 0), "", "")
				}
			}
		}

	}
	if dim == "prefix" {
		// ---- groups nested under fields: f:(x AND g:(y AND ...)) - whether or not such a query is accepted, it is answered quickly ----
		for _, n := range ladder(chainExp) {
			if n > 129 {
				continue
			}
			for style := 0; style < 3; style++ {
				emitQ(nestedFieldGroups(n, style), "", "src=scale;dim=nest")
				if n <= 33 {
					emitQ(nestedFieldGroups(n, style), "d", "src=scale;dim=nest")
				}
			}
		}
		// ---- stacked prefix operators, then a juxtaposed operand ----
		for _, n := range ladder(chainExp) {
			for _, op := range []string{"not", "must", "mustnot"} {
				t := &qt{kind: "fv", toks: []string{"a", ":", "b"}}
				for i := 0; i < n; i++ {
					t = mk(op, t)
				}
				q := join(canonWords(t), 0)
				emitQ(q, "", "src=scale;dim=prefix")
				if n <= 257 {
					emitQ(q, "", "rel=C05;qt="+t.sexpr())
				}
				pair("C07", q+" AND c:d", q+" c:d", "", "")
				pair("C07", q+" AND c", q+" c", "d", "d")
			}
			// suffix operators
			for _, op := range []string{"boost", "fuzzy"} {
				t := &qt{kind: "fv", toks: []string{"a", ":", "b"}}
				for i := 0; i < n && i < 300; i++ {
					t = mk(op, t)
					t.num = "2"
				}
				emitQ(join(canonWords(t), 1), "", "src=scale;dim=suffix")
			}
		}

	}
	if dim == "layout" {
		// ---- redundant parentheses, nested ----
		nestExp := maxExp + 1
		for _, n := range ladder(nestExp) {
			o, c := strings.Repeat("( ", n), strings.Repeat(" )", n)
			pair("C09par", "a:b AND c:d", o+"a:b AND c:d"+c, "", "")
			pair("C09par", "a:b AND c:d", "a:b AND "+o+"c:d"+c, "", "")
			pair("C09par", "a:b OR c:d", o+"a:b"+c+" OR c:d", "", "")
			pair("C09par", "NOT a:b", "NOT "+o+"a:b"+c, "", "")
			pair("C09par", "+ a:b", "+ "+o+"a:b"+c, "", "")
			pair("C09par", "x ^ 2", o+"x"+c+" ^ 2", "d", "d")
			pair("C09par", "f:[1 TO 5]", o+"f:[1 TO 5]"+c, "", "")
			emitQ(o+"a:b"+c, "", "src=scale;dim=nest")
		}

	}
	if dim == "layout" {
		// ---- gaps: n blanks wherever a blank may stand ----
		gapQueries := [][]string{{"a", "AND", "b"}, {"a", ":", "b", "OR", "c", ":", "[", "1", "TO", "5", "]"}, {"NOT", "x", "y"}, {"a", "AND", "b", ")"}, {"f", ":", "(", "x", "OR", "y", ")"},
			{"a", "~", "2", "b", "^", "3"}, {`"q r"`, "AND", "/re/"}, {"+", "a", "-", "b"}}
		gapSizes := []int{}
		for i := 1; i <= 40; i++ {
			gapSizes = append(gapSizes, i)
		}
		for _, n := range ladder(maxExp) {
			if n > 40 {
				gapSizes = append(gapSizes, n)
			}
		}
		for _, n := range gapSizes {
			for qi, w := range gapQueries {
				if n > 40 && qi > 2 {
					continue
				}
				base := strings.Join(w, " ")
				for _, blank := range []string{" ", "\t", "\n"} {
					gap := strings.Repeat(blank, n)
					pair("C09ws", base, strings.Join(w, gap), "d", "d")
					if blank == " " {
						pair("C09ws", base, gap+strings.Join(w, gap)+gap, "", "")
						pair("C09ws", base, strings.Join(w, gap+"\t"), "d", "d")
					}
				}
			}
		}

	}
	if dim == "names" {
		// ---- names of n bytes ----
		for _, n := range ladder(maxExp) {
			names := []string{strings.Repeat("n", n)}
			if n >= 2 {
				names = append(names, strings.Repeat("é", n/2)+strings.Repeat("x", n%2)) // multi-byte characters up to the same byte length
				names = append(names, "N"+strings.Repeat("n", n-1))
			}
			for _, nm := range names {
				emitQ(nm+":1", "", "src=scale;dim=name")
				emitQ(nm+":w*", "", "src=scale;dim=name")
				emitQ(`"`+nm+`":[1 TO 5]`, "", "src=scale;dim=name")
				pair("C11", "x AND k:v", "x AND k:v", "", nm)
				pair("C11", "k:(x OR y) z", "k:(x OR y) z", "", nm)
				doc := `{"left":"` + nm + `","operator":"EQUALS","right":"v"}`
				emitJ(doc, "src=scale")
				emitD("J:"+doc, "rm=;ov=", "src=scale")
				emitJ(`{"left":"`+nm+`","operator":"RANGE","right":{"min":1,"max":5,"inclusive":true}}`, "src=scale")
			}
		}

	}
	if dim == "values" {
		// ---- values of n bytes ----
		valSizes := ladder(maxExp)
		valGiants := []int{32765, 32766, 32767, 32768, 65537}
		for _, n := range append(valSizes, valGiants...) {
			giant := n > 1<<maxExp+1
			texts := []string{strings.Repeat("x", n), strings.Repeat("'", n)}
			if !giant {
				texts = append(texts, strings.Repeat("x y ", n/4)+strings.Repeat("z", n%4), strings.Repeat("é", n/2)+strings.Repeat("x", n%2), strings.Repeat(`\`, n), strings.Repeat("%_", n/2)+strings.Repeat("x", n%2))
			}
			for _, w := range texts {
				emitQ(`f:"`+w+`"`, "", "rel=C08q;f="+hx("f")+";w="+hx(w))
				if !giant {
					emitQ("f:"+esc(w), "", "rel=C08e;f="+hx("f")+";w="+hx(w))
					emitQ(`f:["`+w+`" TO "`+w+`"]`, "", "rel=C08c;w="+hx(w))
				}
			}
			if !giant {
				w := strings.Repeat("a", n)
				emitQ("f:"+w, "", "src=scale;dim=value")
				emitQ("f:"+w+"*", "", "src=scale;dim=value")
				emitQ("f:/"+w+"/", "", "src=scale;dim=value")
				emitQ(w, "d", "src=scale;dim=value")
				emitJ(`{"left":"f","operator":"EQUALS","right":"`+w+`"}`, "src=scale")
			}
		}

	}
	if dim == "digits" {
		// ---- numbers of n digits ----
		digs := []int{}
		for i := 1; i <= 25; i++ {
			digs = append(digs, i)
		}
		digs = append(digs, 31, 32, 33, 63, 64, 65, 308, 309, 310, 400)
		for _, n := range digs {
			nums := []string{"1" + strings.Repeat("0", n-1), strings.Repeat("9", n), "-" + strings.Repeat("9", n), "0." + strings.Repeat("0", n-1) + "1", "1." + strings.Repeat("0", n-1) + "1",
				"0." + strings.Repeat("9", n), strings.Repeat("0", n) + "7", "1e" + strconv.Itoa(n), "1e-" + strconv.Itoa(n)}
			for _, x := range nums {
				emitQ("n:"+x, "", "src=scale;dim=digits")
				emitQ("n:[1 TO "+x+"]", "", "src=scale;dim=digits")
				emitQ("a^"+x, "d", "src=scale;dim=digits")
				emitQ("a~"+x, "d", "src=scale;dim=digits")
				pair("C04d", "n:"+x+" OR n:>1", "n:"+x+" OR n:>2", "", "")
			}
		}
	}
}

// the words of a tree with the keywords in their canonical spelling (the tree printers pick random case otherwise)
func canonWords(t *qt) []string {
	ws := t.words(nil)
	for i, w := range ws {
		switch strings.ToUpper(w) {
		case "AND", "OR", "NOT", "TO":
			if !strings.HasPrefix(w, `"`) {
				ws[i] = strings.ToUpper(w)
			}
		}
	}
	return ws
}

// C11: default-field names that are close to the query's own field names, or that contain punctuation
func relatedName(t *qt) string {
	fields := []string{}
	var walk func(*qt)
	walk = func(x *qt) {
		switch x.kind {
		case "fv", "cmp", "range", "fe":
			fields = append(fields, x.toks[0])
		}
		for _, k := range x.kids {
			walk(k)
		}
	}
	walk(t)
	punct := []string{"title,body", "a b", "a.b", "a:b", "a;b", "x-y", "f*", "f?", "1", "1.5", "AND", "or", `a\b`, "a,", ",", "*", "a/b", "(a)", "a+b", "é,ü", strings.Repeat("n", 63), strings.Repeat("n", 64), strings.Repeat("é", 40)}
	if len(fields) == 0 || rng.Intn(3) == 0 {
		return pick(punct)
	}
	f := pick(fields)
	f = strings.Trim(f, `"`)
	f = strings.ReplaceAll(f, `\`, "")
	if f == "" {
		return "zz"
	}
	switch rng.Intn(6) {
	case 0:
		return strings.ToUpper(f)
	case 1:
		return strings.ToLower(f)
	case 2:
		return strings.Title(f)
	case 3:
		return f + "x"
	case 4:
		r := []rune(f)
		return string(r[:len(r)-1]) + "Z"
	}
	return swapCase(f)
}

// values in the shapes of neighbouring notations: numbers with exponents and signs, dates and times, addresses, versions. Split
// into tokens by the documented rule (a word is a maximal run of letters, digits, _ . - * ? ; every other character stands alone),
// not by the lexer under test.
var valueShapes = []string{"1e+5", "1E+5", "2.5e+10", "1e-5", "-1e+5", "2024-05-01T10:30", "2024-05-01T10:30:00Z", "2024-05-01", "10:30", "10:30:59.5", "1.2.3", "10.0.0.1",
	"a-b-c", "x+y", "a+1", "1+1", "k=v", "a=b=c", "50%", "a>b", "a<=b", "1<2", "x~y", "x^y", "2^10", "a~1", "a:b:c", "f(x)", "f[0]", "m{k}", "a+b-c", "-x", "+x", "--x", "+-x", "x-", "x+",
	"1e+", "1e+x", "e+5", "0x1F", "1_000", "T10:30", "Z", "2024-05-01T10:3", "3e+5e+7"}

func splitShape(s string) []string {
	out := []string{}
	cur := ""
	for _, r := range s {
		if r == '_' || r == '.' || r == '-' || r == '*' || r == '?' || (r >= '0' && r <= '9') || (r >= 'a' && r <= 'z') || (r >= 'A' && r <= 'Z') {
			if cur == "" && r == '-' { // a leading minus is its own token unless a digit follows (the documented negative number)
				cur = "-"
				continue
			}
			cur += string(r)
			continue
		}
		if cur != "" {
			out = append(out, cur)
			cur = ""
		}
		out = append(out, string(r))
	}
	if cur != "" {
		out = append(out, cur)
	}
	// a lone "-" directly followed by a non-digit word is the operator followed by the word
	res := []string{}
	for _, w := range out {
		if len(w) > 1 && w[0] == '-' && !(w[1] >= '0' && w[1] <= '9') {
			res = append(res, "-", w[1:])
		} else {
			res = append(res, w)
		}
	}
	return res
}
