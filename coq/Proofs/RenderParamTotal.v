(* Scratch: C01 clause 3 for the parameterized renderer — RenderParam never reaches a panic site
   (rparams[0], .(string), params[0], right[1:len-1]) on strictly well-formed trees *)
Require Import Parser ParserShape Render RenderStr RenderStr2 RenderTotal RenderWfOk RenderInline.
From Coq Require Import List Ascii String ZArith Bool Lia Arith.
Import ListNotations.

Section R.
Variable o2 : oracle2.

(* the part of RenderParam that runs once both operands are serialized *)
Definition rp_node (l : value) (op : operator) (r : value) (lf : string) (lparams : list value) (rt : string) (rparams : list value) : out pres :=
        let fixup : out (string * list value) :=
          match op with
          | Like =>
              let '(rt, rparams) := match rparams with [] => if String.eqb rt "'*'" then ("?"%string, [VStr "*"]) else (rt, rparams) | _ => (rt, rparams) end in
              match rparams with
              | VStr rval :: rest =>
                  if is_regex_text rval then Ret (rt, rparams)
                  else Ret (rt, VStr (replace_char "?"%char "_" (replace_char "*"%char "%" rval)) :: rest)
              | [] => Panic "RenderParam: rparams[0]"
              | _ => Panic "RenderParam: rparams[0].(string)"
              end
          | _ => Ret (rt, rparams)
          end in
        do fx <- fixup;
        let '(rt, rparams) := fx in
        let params := (lparams ++ rparams)%list in
        let lf := wrap_if (negb (no_wrap_op op) && negb (is_simple l)) lf in
        let rt := wrap_if (negb (no_wrap_op op) && negb (is_simple r)) rt in
        match op with
        | Like =>
            match rparams with
            | [VStr p] => Ret ((if is_regex_text p then lf ++ " ~ " ++ rt else lf ++ " SIMILAR TO " ++ rt)%string, params, None)
            | [_] => Panic "likeParam: params[0].(string)"
            | _ => Ret ((lf ++ " SIMILAR TO " ++ rt)%string, params, None)
            end
        | Range =>
            do x <- fn_rang_param o2 lf rt rparams;
            Ret (fst x, params, snd x)
        | _ =>
            match pg_fn o2 op with
            | None => Ret (""%string, params, Some "unable to render operator"%string)
            | Some fn => do x <- fn lf rt; Ret (fst x, params, snd x)
            end
        end.

Lemma render_param_eq l op r bo fu :
  render_param o2 (E l op r bo fu) =
  bind (ser_param o2 l) (fun ls => match ls with
    | (_, _, Some er) => Ret (""%string, [], Some er)
    | (lf, lparams, None) =>
      bind (ser_param o2 r) (fun rs_ => match rs_ with
        | (_, _, Some er) => Ret (""%string, [], Some er)
        | (rt, rparams, None) => rp_node l op r lf lparams rt rparams end) end).
Proof. reflexivity. Qed.
Lemma ser_param_exp e : ser_param o2 (VExp e) = render_param o2 e.
Proof. reflexivity. Qed.

(* outcomes of serializing a leaf *)
Definition nonparam (t : string) : Prop :=
  exists q m, (q = "'"%char \/ q = """"%char) /\ t = String q (m ++ String q "").
Definition leaf_out (x : pres) : Prop :=
  match x with
  | (t, ps, None) => (exists v, ps = [v] /\ t = "?"%string) \/ (ps = [] /\ nonparam t)
  | (_, _, Some _) => True
  end.
Definition pat_out (x : pres) : Prop :=
  match x with
  | (t, ps, None) => (exists s, ps = [VStr s]) \/ (ps = [] /\ t = "'*'"%string)
  | (_, _, Some _) => True
  end.

Lemma star_nonparam : nonparam "'*'".
Proof. exists "'"%char, "*"%string. split; [left; reflexivity|reflexivity]. Qed.

Lemma leaf_render e : Shape.is_leaf e = true -> exists x, render_param o2 e = Ret x /\ leaf_out x /\ (is_pattern e = true -> pat_out x).
Proof.
  destruct e as [l op r bo fu]. intros H.
  assert (Hr : r = VNil) by (destruct op, l, r; cbn in H; try discriminate; reflexivity). subst r.
  assert (Hop : op = Literal \/ op = Wild \/ op = Regexp). { destruct op; auto; destruct l; cbn in H; discriminate. }
  assert (Hl : leaf_val l = true) by (destruct op, l; cbn in H |- *; try discriminate; reflexivity).
  rewrite render_param_eq.
  destruct l as [|z|f|s| |c| | |]; try discriminate.
  - (* VInt *) destruct Hop as [ -> | [ -> | -> ] ]; try discriminate. cbn. unfold fn_literal.
    destruct (negb (valid_utf8 o2 "?")); [eexists; split; [reflexivity|split; [exact I|discriminate]]|].
    cbn. eexists; split; [reflexivity|split; [left; eexists; split; reflexivity|discriminate]].
  - (* VFloat *) destruct Hop as [ -> | [ -> | -> ] ]; try discriminate. cbn. unfold fn_literal.
    destruct (negb (valid_utf8 o2 "?")); [eexists; split; [reflexivity|split; [exact I|discriminate]]|].
    cbn. eexists; split; [reflexivity|split; [left; eexists; split; reflexivity|discriminate]].
  - (* VStr *)
    cbn [ser_param]. destruct (String.eqb s "*") eqn:Es.
    + apply String.eqb_eq in Es. subst s.
      destruct Hop as [ -> | [ -> | -> ] ]; cbn; unfold fn_literal;
      (destruct (negb (valid_utf8 o2 "'*'")); [eexists; split; [reflexivity|split; [exact I|intros; exact I]]|]);
      cbn; eexists; (split; [reflexivity|split; [right; split; [reflexivity|apply star_nonparam]|intros _; right; split; reflexivity]]).
    + destruct Hop as [ -> | [ -> | -> ] ]; cbn; unfold fn_literal;
      (destruct (negb (valid_utf8 o2 "?")); [eexists; split; [reflexivity|split; [exact I|intros; exact I]]|]);
      cbn; eexists; (split; [reflexivity|split; [left; eexists; split; reflexivity|intros _; left; eexists; reflexivity]]).
  - (* VCol *) destruct Hop as [ -> | [ -> | -> ] ]; try discriminate.
    cbn [ser_param]. unfold ser_column.
    destruct (String.eqb c ""); [cbn; eexists; split; [reflexivity|split; [exact I|discriminate]]|].
    destruct (contains_char """"%char c); [cbn; eexists; split; [reflexivity|split; [exact I|discriminate]]|].
    cbn. unfold fn_literal.
    match goal with |- context [negb ?b] => destruct (negb b) end; [eexists; split; [reflexivity|split; [exact I|discriminate]]|].
    match goal with |- context [contains_char ?a ?b] => destruct (contains_char a b) end; [eexists; split; [reflexivity|split; [exact I|discriminate]]|].
    eexists; split; [reflexivity|split; [|discriminate]]. right. split; [reflexivity|].
    exists """"%char, c. split; [right; reflexivity|reflexivity].
Qed.

Lemma rp_node_simple l op r lf lp rt rp : op <> Like -> op <> Range -> is_ret (rp_node l op r lf lp rt rp).
Proof. intros H1 H2. destruct op; try contradiction; unfold rp_node; cbn; eexists; reflexivity. Qed.

Lemma rp_node_like l r lf lp rt rp : pat_out (rt, rp, None) -> is_ret (rp_node l Like r lf lp rt rp).
Proof.
  intros [[s ->]|[-> ->]]; unfold rp_node.
  - cbn. destruct (is_regex_text s) eqn:E; cbn; [rewrite E|]; try (eexists; reflexivity).
  - lazy. eexists; reflexivity.
Qed.

(* the range node: the rendered bounds "[smin, smax]" split back into two parts, and a "?" part always
   comes with a parameter *)
Definition bound_text (incl : bool) (smin smax : string) : string :=
  (if incl then "[" ++ smin ++ ", " ++ smax ++ "]" else "(" ++ smin ++ ", " ++ smax ++ ")")%string.

Lemma bound_text_shape incl smin smax : exists o c, bound_text incl smin smax = String o ((smin ++ ", " ++ smax) ++ String c "").
Proof.
  destruct incl; [exists "["%char, "]"%char|exists "("%char, ")"%char]; unfold bound_text; cbn [append];
    rewrite !append_assoc; reflexivity.
Qed.

Lemma nonparam_first t r : nonparam t -> forall a l, split_comma (t ++ r) "" = a :: l -> trim a <> "?"%string.
Proof.
  intros [q [m [Hq ->]]] a l E. cbn [append split_comma] in E.
  assert (Hc : Ascii.eqb q ","%char = false) by (destruct Hq as [-> | ->]; reflexivity).
  rewrite Hc in E. destruct (split_first ((m ++ String q "") ++ r) (String q "")) as [t [l' E']].
  rewrite E' in E. assert (Ea : a = (String q "" ++ t)%string) by congruence. subst a. cbn [append].
  apply trim_first_ne; destruct Hq as [-> | ->]; [reflexivity|reflexivity|discriminate|discriminate].
Qed.
Lemma nonparam_last t p : nonparam t -> forall a b, split_comma (p ++ t) "" = [a; b] -> trim b <> "?"%string.
Proof.
  intros [q [m [Hq ->]]] a b E.
  assert (Hc : Ascii.eqb q ","%char = false) by (destruct Hq as [-> | ->]; reflexivity).
  replace (p ++ String q (m ++ String q ""))%string with ((p ++ String q m) ++ String q "")%string in E
    by (rewrite append_assoc; reflexivity).
  destruct (split_last q Hc (p ++ String q m) "") as [l [t E']]. rewrite E' in E.
  change [a; b] with ([a] ++ [b])%list in E. apply app_inj_tail in E. destruct E as [_ Eb]. subst b.
  apply trim_last_ne; destruct Hq as [-> | ->]; [reflexivity|reflexivity|discriminate|discriminate].
Qed.

Lemma rang_param_ret lf incl smin pmin smax pmax :
  leaf_out (smin, pmin, None) -> leaf_out (smax, pmax, None) ->
  is_ret (fn_rang_param o2 lf (bound_text incl smin smax) (pmin ++ pmax)).
Proof.
  intros Hmin Hmax. destruct (bound_text_shape incl smin smax) as [o [c E]]. rewrite E.
  unfold fn_rang_param, fn_rang_core. rewrite strip_ends_brackets.
  assert (HL : exists n, String.length (String o ((smin ++ ", " ++ smax) ++ String c "")) = S (S n)).
  { cbn [String.length]. rewrite length_app_str. cbn [String.length]. eexists. rewrite Nat.add_1_r. reflexivity. }
  destruct HL as [n HL]. rewrite HL.
  destruct (split_comma (smin ++ ", " ++ smax) "") as [|a [|b [|x l]]] eqn:S; try (eexists; reflexivity).
  destruct (pmin ++ pmax)%list as [|p ps] eqn:P.
  - apply app_eq_nil in P. destruct P as [-> ->].
    destruct Hmin as [[v [Hv _]]|[_ Nmin]]; [discriminate|]. destruct Hmax as [[v [Hv _]]|[_ Nmax]]; [discriminate|].
    pose proof (nonparam_first _ _ Nmin _ _ S) as Ha.
    pose proof (nonparam_last smax (smin ++ ", ") Nmax a b) as Hb.
    rewrite append_assoc in Hb. specialize (Hb S).
    apply String.eqb_neq in Ha, Hb. rewrite Ha, Hb. eexists; reflexivity.
  - destruct (_ || _); [destruct p|]; eexists; reflexivity.
Qed.

Lemma ser_param_nil : ser_param o2 VNil = Ret (""%string, [], None).
Proof. reflexivity. Qed.
Lemma ser_param_bound_eq mn mx incl :
  ser_param o2 (VBound mn mx incl) =
  bind (ser_param o2 mn) (fun a => match a with
    | (_, _, Some er) => Ret (""%string, [], Some er)
    | (smin, pmin, None) =>
      bind (ser_param o2 mx) (fun b => match b with
        | (_, _, Some er) => Ret (""%string, [], Some er)
        | (smax, pmax, None) => Ret (bound_text incl smin smax, (pmin ++ pmax)%list, None) end) end).
Proof. reflexivity. Qed.

Fixpoint serp_list (l : list expr) (acc : list string) (ps : list value) : out pres :=
  match l with
  | [] => Ret (join ", " (rev acc), ps, None)
  | x :: rest => bind (render_param o2 x) (fun s => match s with
      | (s', _, Some er) => Ret (s', ps, Some er)
      | (s', eps, None) => serp_list rest (s' :: acc) (ps ++ eps)%list end)
  end.
Lemma serp_list_eq l : ser_param o2 (VList l) = serp_list l [] [].
Proof. destruct l; reflexivity. Qed.
Lemma serp_list_ret : forall l acc ps, forallb is_plain l = true -> is_ret (serp_list l acc ps).
Proof.
  induction l as [|x xs IH]; intros acc ps H; cbn [serp_list]; [eexists; reflexivity|].
  cbn [forallb] in H. apply andb_true_iff in H. destruct H as [Hx Hxs].
  assert (Hl : Shape.is_leaf x = true) by (destruct x as [l op r ? ?]; destruct op, l, r; cbn in Hx |- *; try discriminate; reflexivity).
  destruct (leaf_render x Hl) as [[[t p] er] [E _]]. rewrite E. cbn [bind].
  destruct er; [eexists; reflexivity|]. apply IH. exact Hxs.
Qed.

Ltac leaf_step H :=
  let x := fresh "x" in let E := fresh "E" in let LO := fresh "LO" in let PO := fresh "PO" in
  destruct (leaf_render _ H) as [[[? ?] [?|]] [E [LO PO]]]; rewrite E; cbn [bind]; [eexists; reflexivity|].

Theorem render_param_total_sz : forall n e, esize e <= n -> wf true e = true -> is_ret (render_param o2 e).
Proof.
  induction n as [|n IH]; intros e Hs W; [destruct e; cbn in Hs; lia|].
  destruct e as [l op r bo fu]. cbn in Hs.
  destruct op; cbn [wf] in W; try discriminate;
    try (destruct (leaf_render _ W) as [x [E _]]; rewrite E; eexists; reflexivity);
    destruct l as [| | | | | | a | |]; try discriminate.
  - (* And *) destruct r as [| | | | | | c | |]; try discriminate. cbn in Hs. apply andb_true_iff in W. destruct W as [Wa Wc].
    rewrite render_param_eq, !ser_param_exp.
    destruct (IH a ltac:(lia) Wa) as [[[lf lp] [er|]] Ea]; rewrite Ea; cbn [bind]; [eexists; reflexivity|].
    destruct (IH c ltac:(lia) Wc) as [[[rt rp] [er|]] Ec]; rewrite Ec; cbn [bind]; [eexists; reflexivity|].
    apply rp_node_simple; discriminate.
  - (* Or *) destruct r as [| | | | | | c | |]; try discriminate. cbn in Hs. apply andb_true_iff in W. destruct W as [Wa Wc].
    rewrite render_param_eq, !ser_param_exp.
    destruct (IH a ltac:(lia) Wa) as [[[lf lp] [er|]] Ea]; rewrite Ea; cbn [bind]; [eexists; reflexivity|].
    destruct (IH c ltac:(lia) Wc) as [[[rt rp] [er|]] Ec]; rewrite Ec; cbn [bind]; [eexists; reflexivity|].
    apply rp_node_simple; discriminate.
  - (* Equals *) destruct r as [| | | | | | c | |]; try discriminate. cbn in Hs.
    apply andb_true_iff in W. destruct W as [W _]. apply andb_true_iff in W. destruct W as [Wa Wc].
    rewrite render_param_eq, !ser_param_exp. leaf_step Wa.
    destruct (IH c ltac:(lia) Wc) as [[[rt rp] [er|]] Ec]; rewrite Ec; cbn [bind]; [eexists; reflexivity|].
    apply rp_node_simple; discriminate.
  - (* Like *) destruct r as [| | | | | | c | |]; try discriminate. cbn in Hs. apply andb_true_iff in W. destruct W as [Wa Wc].
    rewrite render_param_eq, !ser_param_exp. leaf_step Wa.
    assert (Lc : Shape.is_leaf c = true) by (destruct c as [cl co cr ? ?]; destruct co, cl, cr; cbn in Wc |- *; try discriminate; reflexivity).
    destruct (leaf_render _ Lc) as [[[rt rp] [er|]] [Ec [_ POc]]]; rewrite Ec; cbn [bind]; [eexists; reflexivity|].
    apply rp_node_like. apply POc. exact Wc.
  - (* Not *) destruct r; try discriminate. cbn in Hs. rewrite render_param_eq, ser_param_exp, ser_param_nil.
    destruct (IH a ltac:(lia) W) as [[[lf lp] [er|]] Ea]; rewrite Ea; cbn [bind]; [eexists; reflexivity|].
    apply rp_node_simple; discriminate.
  - (* Range *)
    destruct r as [| | | | | | | |mn mx incl]; try discriminate.
    destruct mn as [| | | | | | x1 | |]; try discriminate; destruct mx as [| | | | | | x2 | |]; try discriminate.
    apply andb_true_iff in W. destruct W as [W W2]. apply andb_true_iff in W. destruct W as [Wa W1].
    rewrite render_param_eq, ser_param_bound_eq, !ser_param_exp. leaf_step Wa.
    destruct (leaf_render _ W1) as [[[smin pmin] [er|]] [E1 [LO1 _]]]; rewrite E1; cbn [bind]; [eexists; reflexivity|].
    destruct (leaf_render _ W2) as [[[smax pmax] [er|]] [E2 [LO2 _]]]; rewrite E2; cbn [bind]; [eexists; reflexivity|].
    unfold rp_node. cbn [bind no_wrap_op negb andb wrap_if].
    destruct (rang_param_ret s incl smin pmin smax pmax LO1 LO2) as [x Ex]. rewrite Ex. eexists; reflexivity.
  - (* Must *) destruct r; try discriminate. cbn in Hs. rewrite render_param_eq, ser_param_exp, ser_param_nil.
    destruct (IH a ltac:(lia) W) as [[[lf lp] [er|]] Ea]; rewrite Ea; cbn [bind]; [eexists; reflexivity|].
    apply rp_node_simple; discriminate.
  - (* MustNot *) destruct r; try discriminate. cbn in Hs. rewrite render_param_eq, ser_param_exp, ser_param_nil.
    destruct (IH a ltac:(lia) W) as [[[lf lp] [er|]] Ea]; rewrite Ea; cbn [bind]; [eexists; reflexivity|].
    apply rp_node_simple; discriminate.
  - (* Boost *) destruct r; try discriminate. cbn in Hs. rewrite render_param_eq, ser_param_exp, ser_param_nil.
    destruct (IH a ltac:(lia) W) as [[[lf lp] [er|]] Ea]; rewrite Ea; cbn [bind]; [eexists; reflexivity|].
    apply rp_node_simple; discriminate.
  - (* Fuzzy *) destruct r; try discriminate. cbn in Hs. rewrite render_param_eq, ser_param_exp, ser_param_nil.
    destruct (IH a ltac:(lia) W) as [[[lf lp] [er|]] Ea]; rewrite Ea; cbn [bind]; [eexists; reflexivity|].
    apply rp_node_simple; discriminate.
  - (* Greater *) destruct r as [| | | | | | c | |]; try discriminate. cbn in Hs.
    apply andb_true_iff in W. destruct W as [W _]. apply andb_true_iff in W. destruct W as [Wa Wc].
    rewrite render_param_eq, !ser_param_exp. leaf_step Wa.
    destruct (IH c ltac:(lia) Wc) as [[[rt rp] [er|]] Ec]; rewrite Ec; cbn [bind]; [eexists; reflexivity|].
    apply rp_node_simple; discriminate.
  - (* Less *) destruct r as [| | | | | | c | |]; try discriminate. cbn in Hs.
    apply andb_true_iff in W. destruct W as [W _]. apply andb_true_iff in W. destruct W as [Wa Wc].
    rewrite render_param_eq, !ser_param_exp. leaf_step Wa.
    destruct (IH c ltac:(lia) Wc) as [[[rt rp] [er|]] Ec]; rewrite Ec; cbn [bind]; [eexists; reflexivity|].
    apply rp_node_simple; discriminate.
  - (* GreaterEq *) destruct r as [| | | | | | c | |]; try discriminate. cbn in Hs.
    apply andb_true_iff in W. destruct W as [W _]. apply andb_true_iff in W. destruct W as [Wa Wc].
    rewrite render_param_eq, !ser_param_exp. leaf_step Wa.
    destruct (IH c ltac:(lia) Wc) as [[[rt rp] [er|]] Ec]; rewrite Ec; cbn [bind]; [eexists; reflexivity|].
    apply rp_node_simple; discriminate.
  - (* LessEq *) destruct r as [| | | | | | c | |]; try discriminate. cbn in Hs.
    apply andb_true_iff in W. destruct W as [W _]. apply andb_true_iff in W. destruct W as [Wa Wc].
    rewrite render_param_eq, !ser_param_exp. leaf_step Wa.
    destruct (IH c ltac:(lia) Wc) as [[[rt rp] [er|]] Ec]; rewrite Ec; cbn [bind]; [eexists; reflexivity|].
    apply rp_node_simple; discriminate.
  - (* In *)
    destruct r as [| | | | | | c | |]; try discriminate.
    destruct c as [cl co cr cb cf]. destruct cl as [| | | | | | |lits|]; try discriminate. destruct co; try discriminate. destruct cr; try discriminate.
    apply andb_true_iff in W. destruct W as [W Wp]. apply andb_true_iff in W. destruct W as [Wa _].
    rewrite render_param_eq, !ser_param_exp. leaf_step Wa.
    rewrite render_param_eq, serp_list_eq, ser_param_nil.
    destruct (serp_list_ret lits [] [] Wp) as [[[lt lps] [er|]] El]; rewrite El; cbn [bind]; [eexists; reflexivity|].
    destruct (rp_node_simple (VList lits) Tables.List VNil lt lps ""%string [] ltac:(discriminate) ltac:(discriminate)) as [[[t2 p2] e2] E2].
    rewrite E2. cbn [bind]. destruct e2; [eexists; reflexivity|]. apply rp_node_simple; discriminate.
Qed.

Theorem render_param_total e : wf true e = true -> is_ret (render_param o2 e).
Proof. intros W. exact (render_param_total_sz (esize e) e (le_n _) W). Qed.
End R.
Print Assumptions render_param_total.
