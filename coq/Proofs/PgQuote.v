(* Scratch: the injection lemma — Go's '...' quoting with doubled quotes is read back verbatim by the PG scanner model *)
Require Import PgModel.
From Coq Require Import List Ascii String NArith Bool Arith Lia.
Import ListNotations.

Notation q := "'"%char.

(* strings.ReplaceAll(v, "'", "''") *)
Fixpoint double (v : bytes) : bytes :=
  match v with [] => [] | c :: r => if Ascii.eqb c q then c :: c :: double r else c :: double r end.

Lemma double_length v : List.length (double v) <= 2 * List.length v.
Proof. induction v as [|c r IH]; cbn; auto. destruct (Ascii.eqb c q); cbn; lia. Qed.

(* reading the body: whatever was accumulated, the doubled text gives back v and stops at the closing quote *)
Lemma qq : Ascii.eqb q q = true. Proof. reflexivity. Qed.

Lemma quoted_body_double : forall v fuel rest acc,
  List.length (double v) + 2 <= fuel ->
  (match rest with c :: _ => Ascii.eqb c q = false | [] => True end) ->
  quoted_body fuel q (double v ++ q :: rest) acc = Some (rev acc ++ v, rest).
Proof.
  induction v as [|c r IH]; intros fuel rest acc Hf Hr.
  - cbn [double app]. destruct fuel as [|f]; [cbn in Hf; lia|].
    unfold quoted_body; fold quoted_body. rewrite qq. destruct rest as [|c2 r2].
    + rewrite app_nil_r. reflexivity.
    + rewrite Hr. rewrite app_nil_r. reflexivity.
  - cbn [double] in *. destruct (Ascii.eqb c q) eqn:E; cbn [List.length] in Hf.
    + apply Ascii.eqb_eq in E. subst c. cbn [app].
      destruct fuel as [|f]; [cbn in Hf; lia|]. unfold quoted_body; fold quoted_body. rewrite qq.
      rewrite IH; [|cbn in Hf; lia|auto].
      cbn [rev]. rewrite <- app_assoc. reflexivity.
    + cbn [app]. destruct fuel as [|f]; [cbn in Hf; lia|]. unfold quoted_body; fold quoted_body. rewrite E.
      rewrite IH; [|cbn in Hf; lia|auto]. cbn [rev]. rewrite <- app_assoc. reflexivity.
Qed.

(* the scanner on  'doubled(v)'  followed by something that is neither a quote nor newline-continued *)
Arguments string_const : simpl never.
Arguments quoted_body : simpl never.

Theorem sq_roundtrip : forall v rest,
  (match rest with c :: _ => Ascii.eqb c q = false | [] => True end) ->
  has_newline rest = false ->
  next (q :: double v ++ q :: rest) = Some (TStr v, rest).
Proof.
  intros v rest Hr Hn.
  assert (HS : string_const (S (List.length (double v ++ q :: rest))) (double v ++ q :: rest) [] = Some (v, rest)).
  { unfold string_const; fold string_const. rewrite quoted_body_double; auto.
    - cbn [rev app]. rewrite Hn. reflexivity.
    - rewrite app_length. cbn. lia. }
  unfold next. lazy -[string_const double app List.length]. rewrite HS. reflexivity.
Qed.
Print Assumptions sq_roundtrip.
