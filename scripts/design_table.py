#!/usr/bin/env python3
"""Regenerates the table of DESIGN.md section 0.3 from scripts/propspec.py (theorem names and status texts)."""
import re, sys, os
sys.path.insert(0, os.path.dirname(__file__))
from propspec import PROPS
p = os.path.join(os.path.dirname(__file__), '..', 'DESIGN.md')
t = open(p).read().split('\n')
i = next(k for k, l in enumerate(t) if l.startswith('| property | theorems in Props/'))
j = max(k for k, l in enumerate(t) if re.match(r'\| C16 \|', l) and k > i and k < i + 30)
rows = [t[i], t[i + 1]]
for pid in sorted(PROPS):
    th = ', '.join(x[len(pid) + 1:] if x.startswith(pid + '_') else x for x in PROPS[pid]['theorems']) or '—'
    rows.append('| %s | %s | %s |' % (pid, th, PROPS[pid]['status'].replace('|', '/')))
t[i:j + 1] = rows
open(p, 'w').write('\n'.join(t))
print('table regenerated: %d rows' % (len(rows) - 2))
