(* Scratch: C12, leaf level — what the decoder makes of the encoder's leaves *)
Require Import Parser ParserShape Render RenderNum Decode.
From Coq Require Import List Ascii String ZArith Bool Lia.
Import ListNotations.
Open Scope string_scope.

Section L.
Variable o : Parser.oracle.
(* strconv.ParseFloat rejects a text that starts with a double quote (a JSON string's raw text) *)
Hypothesis parse_float_quote : forall r, parse_float o (String """"%char r) = None.

Lemma atoi_dquote r : atoi (String """"%char r) = None.
Proof. reflexivity. Qed.

(* integers: the encoder prints Itoa, the decoder's first attempt is Atoi *)
Theorem leaf_int_roundtrip z : (-9223372036854775808 <= z <= 9223372036854775807)%Z ->
  unmarshal_literal o (JNum (z_to_string z)) = DOk (lit (VInt z)).
Proof. intros H. unfold unmarshal_literal. cbn [jraw]. rewrite (atoi_itoa z H). reflexivity. Qed.

(* strings: a JSON string never looks like a number to the decoder, whatever it contains (e.g. "5", "1e6", "NaN") *)
Theorem leaf_string_decodes raw s :
  unmarshal_literal o (JStr (String """"%char raw) s) = DOk (literal_to_expr (VStr s)).
Proof. unfold unmarshal_literal. cbn [jraw]. rewrite atoi_dquote, parse_float_quote. reflexivity. Qed.

(* … and comes back as the same plain literal unless it reads as a pattern or a /regexp/ *)
Definition plain_text (s : string) : bool :=
  negb ((2 <=? String.length s)%nat &&
        match first_char s, last_char s with Some a, Some b => Ascii.eqb a "/"%char && Ascii.eqb b "/"%char | _, _ => false end) &&
  negb (contains_char "*"%char s || contains_char "?"%char s).
Theorem leaf_string_roundtrip raw s : plain_text s = true ->
  unmarshal_literal o (JStr (String """"%char raw) s) = DOk (lit (VStr s)).
Proof.
  intros H. rewrite leaf_string_decodes. unfold literal_to_expr, plain_text in *.
  apply andb_true_iff in H. destruct H as [H1 H2]. apply negb_true_iff in H1, H2. rewrite H1, H2. reflexivity.
Qed.
End L.
Print Assumptions leaf_string_roundtrip.
Print Assumptions leaf_int_roundtrip.
