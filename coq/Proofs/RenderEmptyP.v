(* Scratch: C10 — the parameterized renderer returns empty SQL whenever it returns an error *)
Require Import Parser ParserShape Render RenderStr RenderStr2 RenderTotal RenderInline RenderParamTotal RenderEmpty.
From Coq Require Import List Ascii String ZArith Bool Lia Arith.
Import ListNotations.

Section E.
Variable o2 : oracle2.

Definition eep (x : out pres) : Prop := forall s ps er, x = Ret (s, ps, Some er) -> s = ""%string.

Lemma fn_ee op fn lf rt : pg_fn o2 op = Some fn -> ee (fn lf rt).
Proof.
  intros H s er E. pose proof (rn_node_ee o2 VNil op VNil lf rt s er) as G. unfold rn_node in G. rewrite H in G.
  destruct op; cbn in G; try discriminate H; apply G; exact E.
Qed.

Lemma rang_param_ee lf rt ps : ee (fn_rang_param o2 lf rt ps).
Proof.
  unfold fn_rang_param. apply rang_core_ee. intros i a b s er.
  destruct (_ || _).
  - destruct ps as [|p ps']; [discriminate|]. destruct p; discriminate.
  - unfold rang_by_text. destruct (to_ints a b) as [[? ?]|]; [discriminate|]. destruct (to_floats o2 a b) as [[? ?]|]; discriminate.
Qed.

Lemma rp_node_eep l op r lf lp rt rp : eep (rp_node o2 l op r lf lp rt rp).
Proof.
  intros s ps er. unfold rp_node.
  match goal with |- context [bind ?F _] => destruct F as [[rt' rp']|] eqn:EF end; cbn [bind]; [|discriminate].
  destruct op; try (cbn [pg_fn]; intros H; inversion H; reflexivity);
    try (destruct (pg_fn o2 _) as [fn|] eqn:P; [|intros H; inversion H; reflexivity];
         destruct (fn _ _) as [[t e]|] eqn:F; cbn [bind fst snd]; [|discriminate];
         intros H; inversion H; subst; exact (fn_ee _ fn _ _ P _ _ F)).
  - (* Like *) destruct rp' as [|p [|q rest]]; [discriminate| |]; destruct p; discriminate.
  - (* Range *) destruct (fn_rang_param o2 _ _ _) as [[t e]|] eqn:F; cbn [bind fst snd]; [|discriminate].
    intros H; inversion H; subst. exact (rang_param_ee _ _ _ _ _ F).
Qed.

Theorem render_param_err_empty_sz : forall n,
  (forall e, esize e <= n -> eep (render_param o2 e)) /\ (forall v, vsize v <= n -> eep (ser_param o2 v)).
Proof.
  induction n as [|n [IHe IHv]].
  { split; [intros e Hs; destruct e; cbn in Hs; lia|].
    intros v Hs s ps er. destruct v; cbn in Hs; try lia; try discriminate.
    - cbn [ser_param]. destruct (String.eqb s0 "*"); discriminate.
    - cbn [ser_param]. unfold ser_column. repeat match goal with |- context [if ?b then _ else _] => destruct b end; intros H; inversion H; reflexivity.
    - destruct e; cbn in Hs; lia. }
  assert (HE : forall e, esize e <= S n -> eep (render_param o2 e)).
  { intros [l op r bo fu] Hs s ps er. cbn in Hs. rewrite render_param_eq.
    destruct (ser_param o2 l) as [[[lf lp] [el|]]|] eqn:El; cbn [bind]; try discriminate; [intros H; inversion H; reflexivity|].
    destruct (ser_param o2 r) as [[[rt rp] [er'|]]|] eqn:Er; cbn [bind]; try discriminate; [intros H; inversion H; reflexivity|].
    apply rp_node_eep. }
  split; [exact HE|].
  intros v Hs s ps er. destruct v as [| | |s0| |c|e|l|a b incl]; try discriminate.
  - cbn [ser_param]. destruct (String.eqb s0 "*"); discriminate.
  - cbn [ser_param]. unfold ser_column. repeat match goal with |- context [if ?b then _ else _] => destruct b end; intros H; inversion H; reflexivity.
  - rewrite ser_param_exp. apply HE. cbn in Hs. lia.
  - rewrite serp_list_eq. cbn in Hs. generalize (@nil string) (@nil value). revert Hs.
    induction l as [|x xs IHx]; intros Hs acc pacc; cbn [serp_list]; [discriminate|].
    destruct (render_param o2 x) as [[[s' p'] [e'|]]|] eqn:Ex; cbn [bind]; try discriminate.
    + intros H. inversion H; subst. exact (IHe x ltac:(lia) _ _ _ Ex).
    + apply IHx. lia.
  - cbn in Hs. rewrite ser_param_bound_eq.
    destruct (ser_param o2 a) as [[[s1 p1] [e1|]]|]; cbn [bind]; try discriminate; [intros H; inversion H; reflexivity|].
    destruct (ser_param o2 b) as [[[s2 p2] [e2|]]|]; cbn [bind]; try discriminate. intros H; inversion H; reflexivity.
Qed.

Theorem render_param_err_empty e s ps er : render_param o2 e = Ret (s, ps, Some er) -> s = ""%string.
Proof. exact (proj1 (render_param_err_empty_sz (esize e)) e (le_n _) s ps er). Qed.
End E.
Print Assumptions render_param_err_empty.
