(* Scratch: C08 (quote), lexer level, whole input — `f:"w"` lexes to [Literal f; Colon; Quoted "w"; EOF]
   for an ASCII word f and any text w without a double quote *)
Require Import Lex LexQuote.
From Coq Require Import List Ascii String NArith Bool Arith Lia ZifyBool ZifyN ZifyNat.
Import ListNotations.

Section F.
Variable cl : classes.
(* facts about unicode.IsLetter / IsDigit on the ASCII bytes involved *)
Hypothesis dq_not_alnum : is_letter cl 34 = false /\ is_digit cl 34 = false.
Hypothesis colon_not_alnum : is_letter cl 58 = false /\ is_digit cl 58 = false.

(* an ASCII byte the word state keeps *)
Definition wordc (c : ascii) : bool := (bval c <? 128)%N && is_alnum cl (bval c).

Lemma decode_ascii c s : (bval c <? 128)%N = true -> decode_rune (c :: s) = Some (bval c, 1).
Proof. intros H. unfold decode_rune. rewrite H. reflexivity. Qed.

Lemma lex_word_run : forall f acc rest fuel,
  forallb wordc f = true -> List.length f < fuel ->
  lex_word cl fuel (f ++ ":"%char :: rest) acc =
  Tok {| typ := word_type (rev acc ++ f); val := rev acc ++ f |} (":"%char :: rest).
Proof.
  induction f as [|c f IH]; intros acc rest fuel Hf Hl.
  - destruct fuel as [|fu]; [cbn in Hl; lia|]. cbn [app lex_word].
    change (decode_rune (":"%char :: rest)) with (Some (58%N, 1)). cbv iota beta.
    assert (A : is_alnum cl 58 = false) by (unfold is_alnum; destruct colon_not_alnum as [-> ->]; reflexivity).
    rewrite A. cbn [orb is_wildcard is_escape N.eqb Pos.eqb]. rewrite app_nil_r. reflexivity.
  - cbn [forallb] in Hf. apply andb_true_iff in Hf. destruct Hf as [Hc Hf]. unfold wordc in Hc. apply andb_true_iff in Hc. destruct Hc as [Ha Hw].
    destruct fuel as [|fu]; [cbn in Hl; lia|]. cbn [app lex_word]. rewrite (decode_ascii c _ Ha). cbv iota beta.
    rewrite Hw. cbn [orb take_onto]. rewrite IH; [|exact Hf|cbn in Hl; lia].
    cbn [rev]. rewrite <- app_assoc. reflexivity.
Qed.

Hypothesis ws_not_alnum : forall r, is_space r = true -> is_alnum cl r = false.

Lemma next_word c0 f rest :
  forallb wordc (c0 :: f) = true ->
  next_token cl ((c0 :: f) ++ ":"%char :: rest) =
  ({| typ := word_type (c0 :: f); val := c0 :: f |}, ":"%char :: rest).
Proof.
  intros Hf.
  assert (Hc0 : wordc c0 = true) by (cbn [forallb] in Hf; apply andb_true_iff in Hf; tauto).
  unfold wordc in Hc0. apply andb_true_iff in Hc0. destruct Hc0 as [Ha0 Hw0].
  assert (Hsp : is_space (ch c0) = false).
  { destruct (is_space (ch c0)) eqn:E; [|reflexivity]. apply ws_not_alnum in E. unfold ch in E. congruence. }
  unfold next_token. cbn [app skip_space]. rewrite Hsp.
  rewrite (decode_ascii c0 _ Ha0). cbv iota beta. rewrite Hw0. cbn [orb].
  change (c0 :: f ++ ":"%char :: rest) with ((c0 :: f) ++ ":"%char :: rest).
  rewrite (lex_word_run (c0 :: f) [] rest); [reflexivity|exact Hf|].
  rewrite app_length. cbn. lia.
Qed.

Lemma next_colon rest : next_token cl (":"%char :: rest) = ({| typ := TColon; val := [":"%char] |}, rest).
Proof.
  unfold next_token. cbn [skip_space]. change (is_space (ch ":"%char)) with false. cbv iota.
  change (decode_rune (":"%char :: rest)) with (Some (58%N, 1)). cbv iota beta.
  assert (A : is_alnum cl 58 = false) by (unfold is_alnum; destruct colon_not_alnum as [-> ->]; reflexivity).
  rewrite A. reflexivity.
Qed.

Lemma next_eof : next_token cl [] = (eof_tok, []).
Proof. reflexivity. Qed.

Theorem lex_field_quoted c0 f w :
  forallb wordc (c0 :: f) = true ->
  Forall (fun c => c <> """"%char) w ->
  word_type (c0 :: f) = TLiteral ->
  lex cl ((c0 :: f) ++ ":"%char :: """"%char :: w ++ [""""%char]) =
  [ {| typ := TLiteral; val := c0 :: f |}; {| typ := TColon; val := [":"%char] |};
    {| typ := TQuoted; val := """"%char :: w ++ [""""%char] |}; eof_tok ].
Proof.
  intros Hf Hw Hty. unfold lex.
  remember (List.length ((c0 :: f) ++ ":"%char :: """"%char :: w ++ [""""%char])) as n eqn:En.
  assert (Hn : 3 <= n) by (subst n; rewrite app_length; cbn; lia).
  destruct n as [|[|[|n]]]; try lia.
  cbn [lex_all]. rewrite (next_word c0 f _ Hf). cbn [typ]. rewrite Hty.
  rewrite next_colon. cbn [typ].
  destruct dq_not_alnum as [D1 D2].
  rewrite (next_token_quoted cl w [] D1 D2 Hw). cbn [typ].
  rewrite next_eof. reflexivity.
Qed.
End F.
Print Assumptions lex_field_quoted.
