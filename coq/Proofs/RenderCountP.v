(* Scratch: C04(a) — RenderParam returns exactly as many placeholders (outside quoted identifiers) as
   parameters, on strictly well-formed trees whose range fields are columns (K13 otherwise) *)
Require Import Parser ParserShape Render RenderStr RenderStr2 RenderTotal RenderWfOk RenderInline RenderParamTotal RenderCount.
From Coq Require Import List Ascii String ZArith Bool Lia Arith.
Import ListNotations.

Section C.
Variable o2 : oracle2.
(* facts about strconv.ParseFloat used below: a text starting with a quote is not a number *)
Hypothesis pfloat_quote : forall q r, (q = "'"%char \/ q = dq) -> pfloat o2 (String q r) = None.

Definition inv (x : pres) : Prop :=
  match x with (t, ps, None) => holds t (List.length ps) | (_, _, Some _) => True end.

(* the three shapes a serialized leaf can take *)
Inductive leaf3 : string -> list value -> Prop :=
| L_param v : leaf3 "?" [v]
| L_star : leaf3 "'*'" []
| L_col c : contains_char dq c = false -> leaf3 (String dq (c ++ String dq "")) [].

Lemma leaf3_holds t ps : leaf3 t ps -> holds t (List.length ps).
Proof. intros [v| |c Hc]; [split; reflexivity|split; reflexivity|apply holds_column; exact Hc]. Qed.

Lemma leaf_render3 e : Shape.is_leaf e = true ->
  exists t ps er, render_param o2 e = Ret (t, ps, er) /\ (er = None -> leaf3 t ps /\
     (is_pattern e = true -> (exists s, ps = [VStr s]) \/ (ps = [] /\ t = "'*'"%string)) /\
     (match e_left e with VCol _ => ps = [] /\ t <> "'*'"%string | _ => True end)).
Proof.
  destruct e as [l op r bo fu]. intros H.
  assert (Hr : r = VNil) by (destruct op, l, r; cbn in H; try discriminate; reflexivity). subst r.
  assert (Hop : op = Literal \/ op = Wild \/ op = Regexp). { destruct op; auto; destruct l; cbn in H; discriminate. }
  rewrite render_param_eq.
  destruct l as [|z|f|s| |c| | |]; try (destruct Hop as [ -> | [ -> | -> ] ]; discriminate).
  - destruct Hop as [ -> | [ -> | -> ] ]; try discriminate. cbn. unfold fn_literal.
    destruct (negb (valid_utf8 o2 "?")); [do 3 eexists; split; [reflexivity|discriminate]|].
    cbn. do 3 eexists; split; [reflexivity|intros _; split; [constructor|split; [discriminate|exact I]]].
  - destruct Hop as [ -> | [ -> | -> ] ]; try discriminate. cbn. unfold fn_literal.
    destruct (negb (valid_utf8 o2 "?")); [do 3 eexists; split; [reflexivity|discriminate]|].
    cbn. do 3 eexists; split; [reflexivity|intros _; split; [constructor|split; [discriminate|exact I]]].
  - cbn [ser_param]. destruct (String.eqb s "*") eqn:Es.
    + destruct Hop as [ -> | [ -> | -> ] ]; cbn; unfold fn_literal;
      (destruct (negb (valid_utf8 o2 "'*'")); [do 3 eexists; split; [reflexivity|discriminate]|]);
      cbn; do 3 eexists; (split; [reflexivity|intros _; split; [constructor|split; [intros _; right; split; reflexivity|exact I]]]).
    + destruct Hop as [ -> | [ -> | -> ] ]; cbn; unfold fn_literal;
      (destruct (negb (valid_utf8 o2 "?")); [do 3 eexists; split; [reflexivity|discriminate]|]);
      cbn; do 3 eexists; (split; [reflexivity|intros _; split; [constructor|split; [intros _; left; eexists; reflexivity|exact I]]]).
  - destruct Hop as [ -> | [ -> | -> ] ]; try discriminate.
    cbn [ser_param]. unfold ser_column.
    destruct (String.eqb c ""); [cbn; do 3 eexists; split; [reflexivity|discriminate]|].
    destruct (contains_char """"%char c) eqn:Hq; [cbn; do 3 eexists; split; [reflexivity|discriminate]|].
    cbn. unfold fn_literal.
    match goal with |- context [negb ?b] => destruct (negb b) end; [do 3 eexists; split; [reflexivity|discriminate]|].
    match goal with |- context [contains_char ?a ?b] => destruct (contains_char a b) end; [do 3 eexists; split; [reflexivity|discriminate]|].
    do 3 eexists; split; [reflexivity|intros _; split; [apply (L_col c Hq)|split; [discriminate|split; [reflexivity|discriminate]]]].
Qed.

Lemma holds_bin l sep r n m : holds sep 0 -> holds l n -> holds r m -> holds (l ++ sep ++ r) (n + m).
Proof. intros Hs Hl Hr. eapply holds_app; [exact Hl| |reflexivity]. eapply holds_app; [exact Hs|exact Hr|reflexivity]. Qed.
Lemma holds_pre_suf p l q n : holds p 0 -> holds q 0 -> holds l n -> holds (p ++ l ++ q) n.
Proof. intros Hp Hq Hl. eapply holds_app; [exact Hp| |reflexivity]. eapply holds_app; [exact Hl|exact Hq|lia]. Qed.

Ltac hconst := split; reflexivity.

(* every operator whose render function is a plain template *)
Lemma rp_node_inv_simple l op r lf lp rt rp :
  op <> Like -> op <> Range -> op <> Literal -> op <> Wild -> op <> Regexp ->
  holds lf (List.length lp) -> holds rt (List.length rp) ->
  ((op = Not \/ op = Must \/ op = MustNot \/ op = Tables.List) -> rp = []) ->
  exists x, rp_node o2 l op r lf lp rt rp = Ret x /\ inv x.
Proof.
  intros N1 N2 N3 N4 N5 Hl Hr Hnil.
  destruct op; try contradiction; unfold rp_node; cbn [bind pg_fn no_wrap_op negb andb fst snd];
    try (eexists; split; [reflexivity|exact I]);
    try (rewrite (Hnil ltac:(auto)) in *; cbn [wrap_if]).
  all: eexists; (split; [reflexivity|]); cbn [inv fst snd]; rewrite ?app_length, ?app_nil_r; cbn [List.length]; rewrite ?Nat.add_0_r.
  - (* And *) apply holds_bin; [hconst|apply holds_wrap; exact Hl|apply holds_wrap; exact Hr].
  - (* Or *) apply holds_bin; [hconst|apply holds_wrap; exact Hl|apply holds_wrap; exact Hr].
  - (* Equals *) apply holds_bin; [hconst|apply holds_wrap; exact Hl|apply holds_wrap; exact Hr].
  - (* Not *) apply (holds_pre_suf "NOT(" lf ")"); [hconst|hconst|exact Hl].
  - (* Must *) exact Hl.
  - (* MustNot *) apply (holds_pre_suf "NOT(" lf ")"); [hconst|hconst|exact Hl].
  - apply holds_bin; [hconst|apply holds_wrap; exact Hl|apply holds_wrap; exact Hr].
  - apply holds_bin; [hconst|apply holds_wrap; exact Hl|apply holds_wrap; exact Hr].
  - apply holds_bin; [hconst|apply holds_wrap; exact Hl|apply holds_wrap; exact Hr].
  - apply holds_bin; [hconst|apply holds_wrap; exact Hl|apply holds_wrap; exact Hr].
  - (* In *) apply holds_bin; [hconst|exact Hl|exact Hr].
  - (* List *) apply (holds_pre_suf "(" lf ")"); [hconst|hconst|exact Hl].
Qed.

Lemma rp_node_inv_like l r lf lp rt rp :
  holds lf (List.length lp) -> ((exists s, rp = [VStr s] /\ rt = "?"%string) \/ (rp = [] /\ rt = "'*'"%string)) ->
  exists x, rp_node o2 l Like r lf lp rt rp = Ret x /\ inv x.
Proof.
  intros Hl [[s [-> ->]]|[-> ->]]; unfold rp_node.
  - cbn -[append wrap_if is_simple holds]. destruct (is_regex_text s) eqn:E; cbn -[append wrap_if is_simple holds]; [rewrite E|].
    + eexists; split; [reflexivity|]. cbn [inv]. rewrite app_length. cbn [List.length].
      apply holds_bin; [hconst|apply holds_wrap; exact Hl|apply holds_wrap; hconst].
    + match goal with |- context [is_regex_text ?x] => destruct (is_regex_text x) end;
      (eexists; split; [reflexivity|]); cbn [inv]; rewrite app_length; cbn [List.length];
      (apply holds_bin; [hconst|apply holds_wrap; exact Hl|apply holds_wrap; hconst]).
  - lazy -[holds wrap_if is_simple List.length app append]. eexists; split; [reflexivity|]. cbn [inv]. rewrite app_length. cbn [List.length].
    apply holds_bin; [hconst|apply holds_wrap; exact Hl|apply holds_wrap; hconst].
Qed.

(* Atoi rejects a text that starts with a quote *)
Lemma atoi_quote q r : (q = "'"%char \/ q = dq) -> atoi (String q r) = None.
Proof. intros [-> | ->]; reflexivity. Qed.

Lemma leaf3_text_cases t ps : leaf3 t ps ->
  (t = "?"%string /\ exists v, ps = [v]) \/
  (ps = [] /\ exists q m, (q = "'"%char \/ q = dq) /\ t = String q (m ++ String q "")).
Proof.
  intros [v| |c Hc]; [left; split; [reflexivity|eexists; reflexivity]| |].
  - right. split; [reflexivity|]. exists "'"%char, "*"%string. split; [left; reflexivity|reflexivity].
  - right. split; [reflexivity|]. exists dq, c. split; [right; reflexivity|reflexivity].
Qed.

Lemma leaf3_trim t ps : leaf3 t ps -> trim t = t /\ trim (" " ++ t) = t.
Proof.
  intros [v| |c Hc]; [split; reflexivity|split; reflexivity|].
  split; [apply trim_id; reflexivity|apply trim_space_id; reflexivity].
Qed.

Lemma last_char_app : forall X c, last_char (X ++ String c "") = Some c.
Proof.
  induction X as [|x X IH]; intros c; cbn [append last_char]; [reflexivity|].
  rewrite IH. destruct (X ++ String c "")%string eqn:E; [destruct X; discriminate|reflexivity].
Qed.

(* rang()/rangParam() on the text serialize produced for a boundary *)
Lemma rang_core_bound left incl smin smax K :
  fn_rang_core left (bound_text incl smin smax) K =
  match split_comma (smin ++ ", " ++ smax) "" with
  | [a; b] => K incl (trim a) (trim b)
  | _ => Ret (""%string, Some "the BETWEEN operator needs a two item list"%string)
  end.
Proof.
  assert (Sh : bound_text incl smin smax =
     String (if incl then "["%char else "("%char) ((smin ++ ", " ++ smax) ++ String (if incl then "]"%char else ")"%char) "")).
  { destruct incl; unfold bound_text; cbn [append]; rewrite !append_assoc; reflexivity. }
  rewrite Sh. unfold fn_rang_core. rewrite strip_ends_brackets.
  assert (HL : exists n, String.length (String (if incl then "["%char else "("%char) ((smin ++ ", " ++ smax) ++ String (if incl then "]"%char else ")"%char) "")) = S (S n)).
  { cbn [String.length]. rewrite length_app_str. cbn [String.length]. eexists. rewrite Nat.add_1_r. reflexivity. }
  destruct HL as [n HL]. rewrite HL.
  unfold first_is, last_is. cbn [first_char].
  assert (LC : forall o X c, last_char (String o (X ++ String c "")) = Some c) by (intros o X c; exact (last_char_app (String o X) c)).
  rewrite LC.
  destruct incl; reflexivity.
Qed.

Ltac happ := eapply holds_app; [ | |reflexivity].

Lemma range_text_holds lf incl a b n m :
  holds lf 0 -> holds a n -> holds b m -> (a = "'*'"%string -> n = 0) -> (b = "'*'"%string -> m = 0) ->
  holds (range_text lf incl a b a b) (n + m).
Proof.
  intros Hl Ha Hb Sa Sb. unfold range_text.
  destruct (String.eqb a "'*'") eqn:Ea.
  - apply String.eqb_eq in Ea. rewrite (Sa Ea). cbn [Nat.add].
    eapply holds_app; [exact Hl| |reflexivity]. eapply (holds_app _ _ 0 m); [|exact Hb|reflexivity]. destruct incl; hconst.
  - destruct (String.eqb b "'*'") eqn:Eb.
    + apply String.eqb_eq in Eb. rewrite (Sb Eb), Nat.add_0_r.
      eapply holds_app; [exact Hl| |reflexivity]. eapply (holds_app _ _ 0 n); [|exact Ha|reflexivity]. destruct incl; hconst.
    + destruct incl.
      * eapply holds_app; [exact Hl| |reflexivity]. eapply holds_app; [hconst| |reflexivity].
        eapply holds_app; [exact Ha| |reflexivity]. eapply holds_app; [hconst| |reflexivity].
        eapply holds_app; [exact Hl| |reflexivity]. eapply holds_app; [hconst|exact Hb|reflexivity].
      * eapply holds_app; [exact Hl| |reflexivity]. eapply holds_app; [hconst| |reflexivity].
        eapply holds_app; [exact Ha| |reflexivity]. eapply holds_app; [hconst| |reflexivity].
        eapply holds_app; [exact Hl| |reflexivity]. eapply holds_app; [hconst|exact Hb|reflexivity].
Qed.

Lemma between_holds lf a b n m : holds lf 0 -> holds a n -> holds b m -> holds (lf ++ " BETWEEN " ++ a ++ " AND " ++ b) (n + m).
Proof.
  intros Hl Ha Hb. eapply holds_app; [exact Hl| |reflexivity]. eapply holds_app; [hconst| |reflexivity].
  eapply holds_app; [exact Ha| |reflexivity]. eapply holds_app; [hconst|exact Hb|reflexivity].
Qed.

(* the range node, field rendered as a column (no parameter): K13 is the case where it is not *)
Lemma rang_param_inv lf incl smin pmin smax pmax :
  holds lf 0 -> leaf3 smin pmin -> leaf3 smax pmax ->
  exists x, fn_rang_param o2 lf (bound_text incl smin smax) (pmin ++ pmax) = Ret x /\
            (snd x = None -> holds (fst x) (List.length (pmin ++ pmax))).
Proof.
  intros Hl Lmin Lmax. unfold fn_rang_param. rewrite rang_core_bound.
  destruct (split_comma (smin ++ ", " ++ smax) "") as [|a [|b [|x l]]] eqn:S; try (eexists; split; [reflexivity|discriminate]).
  destruct (split_two_exact _ _ _ _ S) as [-> ->].
  destruct (leaf3_trim _ _ Lmin) as [T1 _]. destruct (leaf3_trim _ _ Lmax) as [_ T2]. rewrite T1, T2.
  pose proof (leaf3_holds _ _ Lmin) as Hmin. pose proof (leaf3_holds _ _ Lmax) as Hmax.
  rewrite app_length.
  assert (Smin : smin = "'*'"%string -> List.length pmin = 0) by (intros ->; inversion Lmin; reflexivity).
  assert (Smax : smax = "'*'"%string -> List.length pmax = 0) by (intros ->; inversion Lmax; reflexivity).
  destruct (String.eqb smin "?" || String.eqb smax "?") eqn:Q.
  - destruct (pmin ++ pmax)%list as [|p ps] eqn:P.
    + exfalso. apply app_eq_nil in P. destruct P as [-> ->].
      apply orb_true_iff in Q. destruct Q as [Q|Q]; apply String.eqb_eq in Q; subst; [inversion Lmin|inversion Lmax].
    + assert (Num : forall t : unit, exists x, Ret (range_text lf incl smin smax smin smax, @None string) = Ret x /\ (snd x = None -> holds (fst x) (List.length pmin + List.length pmax)) ).
      { intros _. eexists; split; [reflexivity|intros _; cbn [fst]; apply range_text_holds; assumption]. }
      assert (Btw : exists x, Ret ((lf ++ " BETWEEN " ++ smin ++ " AND " ++ smax)%string, @None string) = Ret x /\ (snd x = None -> holds (fst x) (List.length pmin + List.length pmax))).
      { eexists; split; [reflexivity|intros _; cbn [fst]; apply between_holds; assumption]. }
      destruct p; try exact Btw; exact (Num tt).
  - apply orb_false_iff in Q. destruct Q as [Q1 Q2]. apply String.eqb_neq in Q1, Q2.
    destruct (leaf3_text_cases _ _ Lmin) as [[Emin _]|[Pmin [q1 [m1 [Hq1 Emin]]]]]; [contradiction|].
    destruct (leaf3_text_cases _ _ Lmax) as [[Emax _]|[Pmax [q2 [m2 [Hq2 Emax]]]]]; [contradiction|].
    subst pmin pmax. cbn [List.length Nat.add] in *.
    eexists; split; [reflexivity|intros _]. cbn [fst]. unfold rang_by_text, to_ints, to_floats.
    rewrite Emin, Emax. rewrite !(atoi_quote _ _ Hq1), !(atoi_quote _ _ Hq2), !(pfloat_quote _ _ Hq1), !(pfloat_quote _ _ Hq2).
    rewrite <- Emin, <- Emax.
    destruct (String.eqb smin "'*'" && String.eqb smax "'*'") eqn:St.
    + cbn [fst]. unfold range_text. apply andb_true_iff in St. destruct St as [St1 _]. rewrite St1.
      eapply holds_app; [exact Hl| |reflexivity]. destruct incl; hconst.
    + cbn [fst]. apply (between_holds lf smin smax 0 0); assumption.
Qed.

Lemma join_snoc sep : forall L x, join sep (L ++ [x]) = match L with [] => x | _ => (join sep L ++ sep ++ x)%string end.
Proof.
  induction L as [|y L IH]; intros x; [reflexivity|].
  cbn [app]. destruct L as [|z L]; [reflexivity|].
  change (join sep (y :: (z :: L) ++ [x])) with (y ++ sep ++ join sep ((z :: L) ++ [x]))%string.
  rewrite IH. change (join sep (y :: z :: L)) with (y ++ sep ++ join sep (z :: L))%string.
  rewrite !append_assoc. reflexivity.
Qed.

Lemma serp_list_inv : forall l acc ps, forallb is_plain l = true ->
  holds (join ", " (rev acc)) (List.length ps) -> exists x, serp_list o2 l acc ps = Ret x /\ inv x.
Proof.
  induction l as [|x xs IH]; intros acc ps H Hacc; cbn [serp_list]; [eexists; split; [reflexivity|exact Hacc]|].
  cbn [forallb] in H. apply andb_true_iff in H. destruct H as [Hx Hxs].
  assert (Hl : Shape.is_leaf x = true) by (destruct x as [l op r ? ?]; destruct op, l, r; cbn in Hx |- *; try discriminate; reflexivity).
  destruct (leaf_render3 x Hl) as [t [p [er [E HL]]]]. rewrite E. cbn [bind].
  destruct er; [eexists; split; [reflexivity|exact I]|].
  destruct (HL eq_refl) as [L3 _]. apply IH; [exact Hxs|].
  cbn [rev]. rewrite join_snoc, app_length.
  destruct (rev acc) as [|y L] eqn:R.
  - destruct ps; [|destruct Hacc as [_ Hc]; cbn in Hc; discriminate]. apply (leaf3_holds _ _ L3).
  - apply holds_bin; [hconst|exact Hacc|apply (leaf3_holds _ _ L3)].
Qed.

(* K13's premise: the field of every range is a column *)
Fixpoint rfield_ok (e : expr) : bool :=
  match e with
  | E l op r _ _ =>
    (match op with Range => match l with VExp (E (VCol _) Literal VNil _ _) => true | _ => false end | _ => true end) &&
    (match l with VExp a => rfield_ok a | _ => true end) && (match r with VExp c => rfield_ok c | _ => true end)
  end.

Ltac ih_step IH a Wa Ra :=
  let lf := fresh "lf" in let lp := fresh "lp" in let Ea := fresh "Ea" in let Ia := fresh "Ia" in
  destruct (IH a ltac:(lia) Wa Ra) as [[[lf lp] [?|]] [Ea Ia]]; rewrite Ea; cbn [bind]; [eexists; split; [reflexivity|exact I]|].
Ltac leaf_step3 H :=
  let t := fresh "t" in let p := fresh "p" in let E := fresh "E" in let HL := fresh "HL" in
  destruct (leaf_render3 _ H) as [t [p [[?|] [E HL]]]]; rewrite E; cbn [bind]; [eexists; split; [reflexivity|exact I]|];
  specialize (HL eq_refl).

Theorem render_param_count_sz : forall n e, esize e <= n -> wf true e = true -> rfield_ok e = true ->
  exists x, render_param o2 e = Ret x /\ inv x.
Proof.
  induction n as [|n IH]; intros e Hs W RF; [destruct e; cbn in Hs; lia|].
  destruct e as [l op r bo fu]. cbn in Hs. cbn [rfield_ok] in RF.
  apply andb_true_iff in RF. destruct RF as [RF RFr]. apply andb_true_iff in RF. destruct RF as [RFo RFl].
  destruct op; cbn [wf] in W; try discriminate;
    try (destruct (leaf_render3 _ W) as [t [p [[er|] [E HL]]]]; rewrite E; eexists; (split; [reflexivity|]);
         [exact I|destruct (HL eq_refl) as [L3 _]; exact (leaf3_holds _ _ L3)]);
    destruct l as [| | | | | | a | |]; try discriminate.
  - (* And *) destruct r as [| | | | | | c | |]; try discriminate. cbn in Hs. apply andb_true_iff in W. destruct W as [Wa Wc].
    rewrite render_param_eq, !ser_param_exp. ih_step IH a Wa RFl. ih_step IH c Wc RFr.
    apply rp_node_inv_simple; try discriminate; auto. intros [H|[H|[H|H]]]; discriminate.
  - (* Or *) destruct r as [| | | | | | c | |]; try discriminate. cbn in Hs. apply andb_true_iff in W. destruct W as [Wa Wc].
    rewrite render_param_eq, !ser_param_exp. ih_step IH a Wa RFl. ih_step IH c Wc RFr.
    apply rp_node_inv_simple; try discriminate; auto. intros [H|[H|[H|H]]]; discriminate.
  - (* Equals *) destruct r as [| | | | | | c | |]; try discriminate. cbn in Hs.
    apply andb_true_iff in W. destruct W as [W _]. apply andb_true_iff in W. destruct W as [Wa Wc].
    rewrite render_param_eq, !ser_param_exp. leaf_step3 Wa. destruct HL as [L3 _]. ih_step IH c Wc RFr.
    apply rp_node_inv_simple; try discriminate; auto; [exact (leaf3_holds _ _ L3)|]. intros [H|[H|[H|H]]]; discriminate.
  - (* Like *) destruct r as [| | | | | | c | |]; try discriminate. cbn in Hs. apply andb_true_iff in W. destruct W as [Wa Wc].
    rewrite render_param_eq, !ser_param_exp. leaf_step3 Wa. destruct HL as [L3 _].
    assert (Lc : Shape.is_leaf c = true) by (destruct c as [cl co cr ? ?]; destruct co, cl, cr; cbn in Wc |- *; try discriminate; reflexivity).
    destruct (leaf_render3 _ Lc) as [rt [rp [[er|] [Ec HLc]]]]; rewrite Ec; cbn [bind]; [eexists; split; [reflexivity|exact I]|].
    destruct (HLc eq_refl) as [L3c [PO _]].
    apply rp_node_inv_like; [exact (leaf3_holds _ _ L3)|].
    destruct (PO Wc) as [[s ->]|[-> ->]]; [left; exists s; split; [reflexivity|inversion L3c; reflexivity]|right; split; reflexivity].
  - (* Not *) destruct r; try discriminate. cbn in Hs. rewrite render_param_eq, ser_param_exp, ser_param_nil.
    ih_step IH a W RFl. cbn [bind]. apply rp_node_inv_simple; try discriminate; auto. hconst.
  - (* Range *)
    destruct r as [| | | | | | | |mn mx incl]; try discriminate.
    destruct mn as [| | | | | | x1 | |]; try discriminate; destruct mx as [| | | | | | x2 | |]; try discriminate.
    apply andb_true_iff in W. destruct W as [W W2]. apply andb_true_iff in W. destruct W as [Wa W1].
    rewrite render_param_eq, ser_param_bound_eq, !ser_param_exp. leaf_step3 Wa. destruct HL as [L3 [_ HC]].
    destruct a as [al aop ar ? ?]. destruct al; try discriminate. destruct aop; try discriminate. destruct ar; try discriminate.
    cbn [e_left] in HC. destruct HC as [-> _].
    destruct (leaf_render3 _ W1) as [smin [pmin [[er|] [E1 H1]]]]; rewrite E1; cbn [bind]; [eexists; split; [reflexivity|exact I]|].
    destruct (leaf_render3 _ W2) as [smax [pmax [[er|] [E2 H2]]]]; rewrite E2; cbn [bind]; [eexists; split; [reflexivity|exact I]|].
    destruct (H1 eq_refl) as [M1 _]. destruct (H2 eq_refl) as [M2 _].
    unfold rp_node. cbn [bind no_wrap_op negb andb wrap_if].
    pose proof (leaf3_holds _ _ L3) as Hlf. cbn [List.length] in Hlf.
    destruct (rang_param_inv t incl smin pmin smax pmax Hlf M1 M2) as [[x ex] [Ex Hx]]. rewrite Ex. cbn [bind fst snd app].
    eexists; split; [reflexivity|]. destruct ex; [exact I|]. exact (Hx eq_refl).
  - (* Must *) destruct r; try discriminate. cbn in Hs. rewrite render_param_eq, ser_param_exp, ser_param_nil.
    ih_step IH a W RFl. cbn [bind]. apply rp_node_inv_simple; try discriminate; auto. hconst.
  - (* MustNot *) destruct r; try discriminate. cbn in Hs. rewrite render_param_eq, ser_param_exp, ser_param_nil.
    ih_step IH a W RFl. cbn [bind]. apply rp_node_inv_simple; try discriminate; auto. hconst.
  - (* Boost *) destruct r; try discriminate. cbn in Hs. rewrite render_param_eq, ser_param_exp, ser_param_nil.
    ih_step IH a W RFl. cbn [bind]. apply rp_node_inv_simple; try discriminate; auto. hconst.
  - (* Fuzzy *) destruct r; try discriminate. cbn in Hs. rewrite render_param_eq, ser_param_exp, ser_param_nil.
    ih_step IH a W RFl. cbn [bind]. apply rp_node_inv_simple; try discriminate; auto. hconst.
  - (* Greater *) destruct r as [| | | | | | c | |]; try discriminate. cbn in Hs.
    apply andb_true_iff in W. destruct W as [W _]. apply andb_true_iff in W. destruct W as [Wa Wc].
    rewrite render_param_eq, !ser_param_exp. leaf_step3 Wa. destruct HL as [L3 _]. ih_step IH c Wc RFr.
    apply rp_node_inv_simple; try discriminate; auto; [exact (leaf3_holds _ _ L3)|]. intros [H|[H|[H|H]]]; discriminate.
  - (* Less *) destruct r as [| | | | | | c | |]; try discriminate. cbn in Hs.
    apply andb_true_iff in W. destruct W as [W _]. apply andb_true_iff in W. destruct W as [Wa Wc].
    rewrite render_param_eq, !ser_param_exp. leaf_step3 Wa. destruct HL as [L3 _]. ih_step IH c Wc RFr.
    apply rp_node_inv_simple; try discriminate; auto; [exact (leaf3_holds _ _ L3)|]. intros [H|[H|[H|H]]]; discriminate.
  - (* GreaterEq *) destruct r as [| | | | | | c | |]; try discriminate. cbn in Hs.
    apply andb_true_iff in W. destruct W as [W _]. apply andb_true_iff in W. destruct W as [Wa Wc].
    rewrite render_param_eq, !ser_param_exp. leaf_step3 Wa. destruct HL as [L3 _]. ih_step IH c Wc RFr.
    apply rp_node_inv_simple; try discriminate; auto; [exact (leaf3_holds _ _ L3)|]. intros [H|[H|[H|H]]]; discriminate.
  - (* LessEq *) destruct r as [| | | | | | c | |]; try discriminate. cbn in Hs.
    apply andb_true_iff in W. destruct W as [W _]. apply andb_true_iff in W. destruct W as [Wa Wc].
    rewrite render_param_eq, !ser_param_exp. leaf_step3 Wa. destruct HL as [L3 _]. ih_step IH c Wc RFr.
    apply rp_node_inv_simple; try discriminate; auto; [exact (leaf3_holds _ _ L3)|]. intros [H|[H|[H|H]]]; discriminate.
  - (* In *)
    destruct r as [| | | | | | c | |]; try discriminate.
    destruct c as [cl co cr cb cf]. destruct cl as [| | | | | | |lits|]; try discriminate. destruct co; try discriminate. destruct cr; try discriminate.
    apply andb_true_iff in W. destruct W as [W Wp]. apply andb_true_iff in W. destruct W as [Wa _].
    rewrite render_param_eq, !ser_param_exp. leaf_step3 Wa. destruct HL as [L3 _].
    rewrite render_param_eq, serp_list_eq, ser_param_nil.
    destruct (serp_list_inv lits [] [] Wp ltac:(hconst)) as [[[lt lps] [er|]] [El Il]]; rewrite El; cbn [bind]; [eexists; split; [reflexivity|exact I]|].
    destruct (rp_node_inv_simple (VList lits) Tables.List VNil lt lps ""%string [] ltac:(discriminate) ltac:(discriminate) ltac:(discriminate) ltac:(discriminate) ltac:(discriminate) Il ltac:(hconst) ltac:(auto)) as [[[t2 p2] e2] [E2 I2]].
    rewrite E2. cbn [bind]. destruct e2; [eexists; split; [reflexivity|exact I]|].
    apply rp_node_inv_simple; try discriminate; auto; [exact (leaf3_holds _ _ L3)|]. intros [H|[H|[H|H]]]; discriminate.
Qed.

Theorem C04_count e t ps : wf true e = true -> rfield_ok e = true ->
  render_param o2 e = Ret (t, ps, None) -> qcnt false t = List.length ps.
Proof.
  intros W R E. destruct (render_param_count_sz (esize e) e (le_n _) W R) as [x [Ex Ix]].
  rewrite E in Ex. inversion Ex; subst. exact (proj2 Ix).
Qed.
End C.
Print Assumptions C04_count.
