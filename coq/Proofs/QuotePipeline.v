(* C08: the whole way of a quoted value: tokens f : "w" -> tree -> inline SQL text / parameter list *)
Require Import Parser ParserShape ParserLay ParserRoundTrip ParserRoundTripV Render.
Require Import Shape Build Printer.
From Coq Require Import List Ascii String ZArith Bool Lia Arith.
Import ListNotations.
Open Scope string_scope.

Notation dqc := (""""%char) (only parsing).
Definition quoted (w : string) : token := {| typ := TQuoted; val := String dqc (w ++ String dqc "") |}.
Definition colon_tok : token := {| typ := TColon; val := ":" |}.

Lemma remove_char_app c a b : remove_char c (a ++ b) = remove_char c a ++ remove_char c b.
Proof. induction a as [|x a IH]; [reflexivity|]. cbn. destruct (Ascii.eqb x c); [exact IH|cbn; rewrite IH; reflexivity]. Qed.
Lemma remove_char_absent c w : contains_char c w = false -> remove_char c w = w.
Proof.
  induction w as [|x w IH]; [reflexivity|]. cbn. destruct (Ascii.eqb x c); [discriminate|]. cbn. intros H. rewrite (IH H). reflexivity.
Qed.

Lemma append_empty_r s : (s ++ "")%string = s.
Proof. induction s as [|c s IH]; [reflexivity|]. cbn. rewrite IH. reflexivity. Qed.

Lemma parse_literal_quoted o w : contains_char dqc w = false -> parse_literal o (quoted w) = lit (VStr w).
Proof.
  intros H. unfold parse_literal, quoted. cbn [typ val].
  change (String dqc (w ++ String dqc "")) with (String dqc "" ++ w ++ String dqc "").
  rewrite !remove_char_app, (remove_char_absent _ w H). cbn. rewrite append_empty_r. reflexivity.
Qed.

Section P.
Variable o : oracle.

(* the tree: field f (any term token whose text is a plain word fs) and the value w, verbatim, as ONE string literal *)
Theorem quoted_value_tree ftok fs w :
  is_term_tok ftok = true -> parse_literal o ftok = lit (VStr fs) -> contains_char dqc w = false ->
  parse_toks o "" [ftok; colon_tok; quoted w; eof] =
  PTree (E (VExp (lit (VCol fs))) Equals (VExp (lit (VStr w))) one_bits 1%Z).
Proof.
  intros Hf Pf Hw.
  pose proof (printed_tree_parses o (QFv ftok colon_tok (quoted w))) as R.
  cbn [pr want app] in R. rewrite R; [|cbn [wfq]; repeat split; auto].
  rewrite Pf, (parse_literal_quoted o w Hw). reflexivity.
Qed.

(* the inline SQL text and the parameter list of that tree *)
Variable o2 : oracle2.
Definition col_text (fs : string) : string := String dqc (fs ++ String dqc "").
Definition sql_text (w : string) : string := "'" ++ replace_char "'"%char "''" w ++ "'".

Theorem quoted_value_inline fs w :
  String.eqb fs "" = false -> contains_char dqc fs = false ->
  valid_utf8 o2 (col_text fs) = true -> contains_char (ascii_of_nat 0) (col_text fs) = false ->
  valid_utf8 o2 (sql_text w) = true -> contains_char (ascii_of_nat 0) (sql_text w) = false ->
  render o2 (E (VExp (lit (VCol fs))) Equals (VExp (lit (VStr w))) one_bits 1%Z) = Ret (col_text fs ++ " = " ++ sql_text w, None).
Proof.
  intros Hne Hq Vc Nc Vw Nw.
  cbn [render serialize lit empty_e bind]. unfold ser_column. rewrite Hne, Hq. cbn [bind pg_fn].
  unfold fn_literal. cbn [no_wrap_op is_simple negb andb wrap_if e_op lit empty_e].
  change ("""" ++ fs ++ """")%string with (col_text fs).
  change ("'" ++ replace_char "'"%char "''" w ++ "'")%string with (sql_text w).
  rewrite Vc, Nc, Vw, Nw. cbn [negb]. reflexivity.
Qed.

Theorem quoted_value_parameter fs w :
  String.eqb fs "" = false -> contains_char dqc fs = false -> String.eqb w "*" = false ->
  valid_utf8 o2 (col_text fs) = true -> contains_char (ascii_of_nat 0) (col_text fs) = false ->
  valid_utf8 o2 "?" = true ->
  render_param o2 (E (VExp (lit (VCol fs))) Equals (VExp (lit (VStr w))) one_bits 1%Z) = Ret (col_text fs ++ " = ?", [VStr w], None).
Proof.
  intros Hne Hq Hs Vc Nc Vq.
  cbn [render_param ser_param lit empty_e bind]. unfold ser_column. rewrite Hne, Hq, Hs. cbn [bind pg_fn].
  unfold fn_literal. cbn [no_wrap_op is_simple negb andb wrap_if e_op lit empty_e].
  change ("""" ++ fs ++ """")%string with (col_text fs).
  rewrite Vc, Nc, Vq. cbn. reflexivity.
Qed.

End P.
