(* Scratch: C13 second half / C01 clause 3 restated over a guard predicate that both the parser's
   output shape and (decoded shape + Validate) imply *)
Require Import Parser ParserShape Render RenderStr RenderStr2 RenderTotal RenderWfOk RenderInline RenderParamTotal.
Require Export Guard.
From Coq Require Import List Ascii String ZArith Bool Lia Arith.
Import ListNotations.

Section G.
Variable o2 : oracle2.

Lemma serp_list_gen : forall l acc ps, (forall x, In x l -> is_ret (render_param o2 x)) -> is_ret (serp_list o2 l acc ps).
Proof.
  induction l as [|x xs IH]; intros acc ps H; cbn [serp_list]; [eexists; reflexivity|].
  destruct (H x (or_introl eq_refl)) as [[[t p] er] E]. rewrite E. cbn [bind].
  destruct er; [eexists; reflexivity|]. apply IH. intros y Hy. apply H. right. exact Hy.
Qed.

Lemma all_in (l : list expr) :
  (fix all (l : list expr) : bool := match l with [] => true | x :: r => gok x && all r end) l = true ->
  forall x, In x l -> gok x = true.
Proof.
  induction l as [|y ys IH]; intros H x Hx; [destruct Hx|]. apply andb_true_iff in H. destruct H as [Hy Hys].
  destruct Hx as [<-|Hx]; [exact Hy|apply IH; assumption].
Qed.
Lemma in_size (l : list expr) x : In x l ->
  esize x <= (fix ls (l : list expr) : nat := match l with [] => 0 | x :: r => esize x + ls r end) l.
Proof. induction l as [|y ys IH]; intros H; [destruct H|]. destruct H as [<-|H]; [lia|specialize (IH H); lia]. Qed.

Theorem render_param_guard_sz : forall n,
  (forall e, esize e <= n -> gok e = true -> is_ret (render_param o2 e)) /\
  (forall v, vsize v <= n -> gv v = true -> is_ret (ser_param o2 v)).
Proof.
  induction n as [|n [IHe IHv]].
  { split; [intros e Hs; destruct e; cbn in Hs; lia|].
    intros v Hs Hv. destruct v; cbn in Hs; try lia; try (eexists; reflexivity).
    - cbn [ser_param]. destruct (String.eqb s "*"); eexists; reflexivity.
    - cbn [ser_param]. destruct (ser_column s); eexists; reflexivity.
    - destruct e; cbn in Hs; lia. }
  assert (HE : forall e, esize e <= S n -> gok e = true -> is_ret (render_param o2 e)).
  { intros [l op r bo fu] Hs G. cbn in Hs. cbn [gok] in G.
    apply andb_true_iff in G. destruct G as [G Gr]. apply andb_true_iff in G. destruct G as [Gop Gl].
    rewrite render_param_eq.
    destruct (IHv l ltac:(lia) Gl) as [[[lf lp] [er|]] El]; rewrite El; cbn [bind]; [eexists; reflexivity|].
    destruct (IHv r ltac:(lia) Gr) as [[[rt rp] [er|]] Er]; rewrite Er; cbn [bind]; [eexists; reflexivity|].
    destruct op; try (apply rp_node_simple; discriminate).
    - (* Like *) destruct r as [| | | | | | x | |]; try discriminate.
      assert (Lx : Shape.is_leaf x = true) by (destruct x as [xl xo xr ? ?]; destruct xo, xl, xr; cbn in Gop |- *; try discriminate; reflexivity).
      destruct (leaf_render o2 x Lx) as [y [Ey [_ PO]]]. rewrite ser_param_exp, Ey in Er. inversion Er; subst.
      apply rp_node_like. exact (PO Gop).
    - (* Range *) destruct r as [| | | | | | | |mn mx incl]; try discriminate.
      destruct mn as [| | | | | | a | |]; try discriminate. destruct mx as [| | | | | | b | |]; try discriminate.
      apply andb_true_iff in Gop. destruct Gop as [La Lb].
      rewrite ser_param_bound_eq, !ser_param_exp in Er.
      destruct (leaf_render o2 a La) as [[[smin pmin] [e1|]] [E1 [LO1 _]]]; rewrite E1 in Er; cbn [bind] in Er; [discriminate|].
      destruct (leaf_render o2 b Lb) as [[[smax pmax] [e2|]] [E2 [LO2 _]]]; rewrite E2 in Er; cbn [bind] in Er; [discriminate|].
      inversion Er; subst.
      unfold rp_node. cbn [bind no_wrap_op negb andb wrap_if].
      destruct (rang_param_ret o2 lf incl smin pmin smax pmax LO1 LO2) as [x Ex]. rewrite Ex. eexists; reflexivity. }
  split; [exact HE|].
  intros v Hs Hv. destruct v as [| | |s| |c|e|l|a b incl]; try (eexists; reflexivity).
  - cbn [ser_param]. destruct (String.eqb s "*"); eexists; reflexivity.
  - cbn [ser_param]. destruct (ser_column c); eexists; reflexivity.
  - rewrite ser_param_exp. apply HE; [cbn in Hs; lia|exact Hv].
  - rewrite serp_list_eq. apply serp_list_gen. intros x Hx. apply IHe; [|exact (all_in l Hv x Hx)].
    pose proof (in_size l x Hx). cbn in Hs. lia.
  - cbn in Hs, Hv. apply andb_true_iff in Hv. destruct Hv as [Ha Hb]. rewrite ser_param_bound_eq.
    destruct (IHv a ltac:(lia) Ha) as [[[s1 p1] [e1|]] E1]; rewrite E1; cbn [bind]; [eexists; reflexivity|].
    destruct (IHv b ltac:(lia) Hb) as [[[s2 p2] [e2|]] E2]; rewrite E2; cbn [bind]; eexists; reflexivity.
Qed.

Theorem render_param_guard e : gok e = true -> is_ret (render_param o2 e).
Proof. intros G. exact (proj1 (render_param_guard_sz (esize e)) e (le_n _) G). Qed.
End G.
Print Assumptions render_param_guard.
