package main

import (
	"bufio"
	"encoding/json"
	"flag"
	"fmt"
	"math/rand"
	"os"
	"runtime"
	"strings"
	"sync"
	"time"

	lucene "github.com/grindlemire/go-lucene"
	"github.com/grindlemire/go-lucene/pkg/lucene/expr"
)

// race: C14. N goroutines run every entry point on shared and on private expressions; every result is compared
// with the result of a sequential run made before, every shared tree is snapshot before and after.
// Built with -race by the check; a data race makes the process exit with GORACE's exit code.

type rcase struct{ q, df string }

// runLight: Parse, Validate, String, Render, RenderParam and the two public SQL entry points, on a private and on the shared tree
func runLight(c rcase, shared *expr.Expression) []string {
	res := []string{}
	var e *expr.Expression
	res = append(res, guard(func() string {
		ex, err := parseWith(c.q, c.df)
		if err == nil {
			e = ex
		}
		if ex == nil {
			return "nil" + errflag(err)
		}
		return "tree" + errflag(err)
	}))
	for _, x := range []*expr.Expression{e, shared} {
		if x == nil {
			continue
		}
		x := x
		res = append(res, guard(func() string {
			if err := expr.Validate(x); err != nil {
				return "invalid:" + err.Error()
			}
			return "ok"
		}), guard(func() string { return fmt.Sprint(len(x.String())) }),
			guard(func() string { s, err := pg.Render(x); return fmt.Sprint(len(s)) + errflag(err) }),
			guard(func() string { s, ps, err := pg.RenderParam(x); return fmt.Sprint(len(s), len(ps)) + errflag(err) }))
	}
	res = append(res, guard(func() string { s, err := lucene.ToPostgres(c.q); return fmt.Sprint(len(s)) + errflag(err) }),
		guard(func() string {
			s, ps, err := lucene.ToParameterizedPostgres(c.q)
			return fmt.Sprint(len(s), len(ps)) + errflag(err)
		}))
	return res
}

// the error VALUE is part of a result: a call that fails must fail the same way every time
func errText(err error) string {
	if err == nil {
		return "|0"
	}
	return "|1:" + err.Error()
}

func errorTexts(c rcase) string {
	return guard(func() string {
		_, e1 := parseWith(c.q, c.df)
		_, e2 := lucene.ToPostgres(c.q)
		_, _, e3 := lucene.ToParameterizedPostgres(c.q)
		return errText(e1) + errText(e2) + errText(e3)
	})
}

func runAll(c rcase, shared *expr.Expression) []string {
	res := observeQuery(c.q, c.df)[1:10] // parse, validate, String, GoString, Render, RenderParam, Marshal, ToPostgres, ToParameterizedPostgres
	res = append(res, errorTexts(c))
	if shared != nil {
		res = append(res, renderAll(shared)...)
		res = append(res, guard(func() string {
			if expr.Validate(shared) != nil {
				return "invalid"
			}
			return "ok"
		}))
	}
	return res
}

func run(i, nLight int, c rcase, shared *expr.Expression) []string {
	if i >= nLight {
		return runLight(c, shared)
	}
	return runAll(c, shared)
}

func raceMain(args []string) {
	fs := flag.NewFlagSet("race", flag.ExitOnError)
	seed := fs.Int64("seed", 1, "seed")
	n := fs.Int("n", 300, "random queries besides the corpus")
	g := fs.Int("g", 16, "goroutines")
	rounds := fs.Int("rounds", 3, "rounds per goroutine")
	fs.Parse(args)
	rng = rand.New(rand.NewSource(*seed))
	if s := os.Getenv("OBSERVE_TIMEOUT_MS"); s != "" {
		var ms int
		fmt.Sscan(s, &ms)
		caseTimeout = time.Duration(ms) * time.Millisecond
	}
	out = bufio.NewWriter(os.Stdout)
	defer out.Flush()
	cases := []rcase{}
	for _, q := range corpusQueries {
		cases = append(cases, rcase{q, ""}, rcase{q, "d"})
	}
	for _, q := range []string{`a\"b:1 AND c\"d:2`, `a\"b:1 OR c\"d:2 OR e\"f:[1 TO 2]`, `NOT x\"y:w* AND (p\"q:1 OR r\"s:(u OR v))`, `a:b~ AND c:d^2`, `a:b^2 OR c:d~1 OR e\"f:1`} {
		cases = append(cases, rcase{q, ""})
	}
	for i := 0; i < *n; i++ {
		t := genTree(1+rng.Intn(3), rng.Intn(3) != 0)
		cases = append(cases, rcase{join(t.words(func() bool { return rng.Intn(3) == 0 }), rng.Intn(3)), pick(dfChoices)})
	}
	// sizes: deep operator chains, deep parentheses, long chains, long value lists (with repeated values)
	nScale := len(cases)
	for _, d := range []int{65, 257} {
		cases = append(cases, rcase{strings.Repeat("NOT ", d) + "a:b", ""}, rcase{strings.Repeat("(", d) + "a:b" + strings.Repeat(")", d), "d"},
			rcase{strings.Repeat("-", d) + "x", "d"})
	}
	for _, n := range []int{65, 257} {
		cases = append(cases, rcase{join(canonWords(listTree("f", listValues("int", n, 0))), 0), ""}, rcase{join(canonWords(listTree("f", listValues("pairs", n, 0))), 0), "d"})
		parts := make([]string, n)
		for i := range parts {
			parts[i] = fmt.Sprintf("f%d:v%d", i, i)
		}
		cases = append(cases, rcase{strings.Join(parts, " AND "), ""}, rcase{strings.Join(parts, " "), ""})
	}
	scaleCases := []int{}
	for i := nScale; i < len(cases); i++ {
		scaleCases = append(scaleCases, i)
	}
	// heavy cases: only in the contention phase, and only through the entry points whose cost is linear in the size
	// (the encoder and the %#v printer are not)
	nLight := len(cases)
	cases = append(cases, rcase{strings.Repeat("NOT ", 4097) + "a:b", ""}, rcase{strings.Repeat("(", 4097) + "a:b" + strings.Repeat(")", 4097), ""},
		rcase{strings.Repeat("(", 8193) + "a:b" + strings.Repeat(")", 8193), ""})
	cases = append(cases, rcase{join(canonWords(listTree("f", listValues("pairs", 70001, 0))), 0), ""})
	// shared expressions and their snapshots
	shared := make([]*expr.Expression, len(cases))
	snap := make([]string, len(cases))
	for i, c := range cases {
		e, err := parseWith(c.q, c.df)
		if err == nil && e != nil {
			shared[i] = e
			snap[i] = showExpr(e)
		}
	}
	tPhase := time.Now()
	phase := func(name string) {
		fmt.Fprintf(os.Stderr, "phase %s: %v\n", name, time.Since(tPhase))
		tPhase = time.Now()
	}
	// cold start: the very first time the process sees these inputs it sees them concurrently (state that is filled in lazily on
	// first use - a memo table, a cache - is written here or never); results are compared with the sequential baseline below
	cold := make([][][]string, *g)
	{
		var wg0 sync.WaitGroup
		for w := 0; w < *g; w++ {
			w := w
			cold[w] = make([][]string, nScale)
			wg0.Add(1)
			lr := rand.New(rand.NewSource(*seed*7919 + int64(w)))
			go func() {
				defer wg0.Done()
				for _, i := range lr.Perm(nScale) {
					if i%(*g) == w%4 || i%7 == w%7 { // each case on a few goroutines
						cold[w][i] = runAll(cases[i], shared[i])
					}
				}
			}()
		}
		wg0.Wait()
	}
	phase("cold-start")
	// sequential baseline
	mismPre := []string{}
	base := make([][]string, len(cases))
	for i, c := range cases {
		t0 := time.Now()
		base[i] = run(i, nLight, c, shared[i])
		if d := time.Since(t0); d > 2*time.Second {
			fmt.Fprintf(os.Stderr, "slow case %d (%d bytes): %v\n", i, len(c.q), d)
		}
	}
	// the relations between calls of the public API that the observer decides on every case (arguments left as they were, options
	// slice untouched, expression unchanged by use): the ones that belong to this property are reported here
	for i := 0; i < nScale; i++ {
		c := cases[i]
		if r := guard(func() string { return apiRelations(c.q, c.df, shared[i]) }); strings.HasPrefix(r, "DIFF:C14:") {
			mismPre = append(mismPre, fmt.Sprintf("%s case=%d query=%.300q df=%q", strings.TrimPrefix(r, "DIFF:C14:"), i, c.q, c.df))
		}
	}
	phase("baseline")
	// a second sequential pass in another order must agree already (state leaking between calls)
	mism := append([]string{}, mismPre...)
	var mu sync.Mutex
	report := func(kind string, i int, k int, got, want string) {
		mu.Lock()
		if len(mism) < 20 {
			mism = append(mism, fmt.Sprintf("%s case=%d query=%.300q (%d bytes) df=%q field=%d got=%.200s want=%.200s", kind, i, cases[i].q, len(cases[i].q), cases[i].df, k, got, want))
		}
		mu.Unlock()
	}
	for w := range cold {
		for i, r := range cold[w] {
			for k := range r {
				if r[k] != base[i][k] {
					report("concurrent-first-use-differs", i, k, r[k], base[i][k])
				}
			}
		}
	}
	order := rng.Perm(len(cases))
	for _, i := range order {
		r := run(i, nLight, cases[i], shared[i])
		for k := range r {
			if r[k] != base[i][k] {
				report("sequential-rerun-differs", i, k, r[k], base[i][k])
			}
		}
	}
	phase("rerun")
	var wg sync.WaitGroup
	calls := 0
	for w := 0; w < *g; w++ {
		wg.Add(1)
		lr := rand.New(rand.NewSource(*seed*1000 + int64(w)))
		go func() {
			defer wg.Done()
			for r := 0; r < *rounds; r++ {
				for _, i := range lr.Perm(nScale) {
					if lr.Intn(4) == 0 {
						runtime.Gosched()
					}
					res := runAll(cases[i], shared[i])
					for k := range res {
						if res[k] != base[i][k] {
							report("concurrent-result-differs", i, k, res[k], base[i][k])
						}
					}
				}
			}
		}()
		calls += *rounds * len(cases)
	}
	wg.Wait()
	phase("random-order")
	// contention: all goroutines on the same case at the same moment, for every size case and a sample of the others
	contended := append([]int{}, scaleCases...)
	for i := nLight; i < len(cases); i++ {
		if len(cases[i].q) < 100000 { // the giant list is run sequentially only (twice, on the shared tree)
			contended = append(contended, i)
		}
	}
	for i := 0; i < 40 && i < nScale; i++ {
		contended = append(contended, rng.Intn(nScale))
	}
	for _, i := range contended {
		tc := time.Now()
		var wg2 sync.WaitGroup
		start := make(chan struct{})
		for w := 0; w < *g; w++ {
			wg2.Add(1)
			go func() {
				defer wg2.Done()
				<-start
				iters := 1
				if i < nScale {
					iters = 2
				} else if i >= nLight {
					iters = 3
				}
				for r := 0; r < iters; r++ {
					res := run(i, nLight, cases[i], shared[i])
					for k := range res {
						if res[k] != base[i][k] {
							report("concurrent-result-differs(same-case)", i, k, res[k], base[i][k])
						}
					}
				}
			}()
		}
		close(start)
		wg2.Wait()
		if d := time.Since(tc); d > 3*time.Second {
			fmt.Fprintf(os.Stderr, "slow contended case %d (%d bytes): %v\n", i, len(cases[i].q), d)
		}
		calls += 2 * *g
	}
	phase("contention")
	mutated := 0
	for i, e := range shared {
		if e != nil && showExpr(e) != snap[i] {
			mutated++
			report("shared-expression-modified", i, -1, showExpr(e), snap[i])
		}
	}
	for _, bt := range builtTrees() {
		before := showExpr(bt.e)
		guard(func() string { expr.Validate(bt.e); return "" })
		guard(func() string { _ = bt.e.String(); _ = fmt.Sprintf("%#v", bt.e); return "" })
		guard(func() string { pg.Render(bt.e); pg.RenderParam(bt.e); json.Marshal(bt.e); return "" })
		if after := showExpr(bt.e); after != before {
			mutated++
			mu.Lock()
			if len(mism) < 20 {
				mism = append(mism, fmt.Sprintf("built-expression-modified tree=%s got=%.200s want=%.200s", bt.name, after, before))
			}
			mu.Unlock()
		}
	}
	b, _ := json.Marshal(map[string]any{"cases": len(cases), "goroutines": *g, "calls": calls, "shared": len(shared), "mismatches": mism, "mutated": mutated,
		"samples": []string{cases[0].q, cases[len(cases)-1].q}})
	fmt.Fprintln(out, strings.TrimSpace(string(b)))
}

type built struct {
	name string
	e    *expr.Expression
}

// trees a program builds itself: constructors with raw values (a pattern under EQUALS, a number as a field), struct literals,
// documents written by hand - shapes the parser never returns
func builtTrees() []built {
	out := []built{}
	// a constructor that rejects its arguments (it panics on a value list of raw strings, say) builds nothing: that is its
	// contract with the caller, not a matter of this property
	add := func(name string, mk func() *expr.Expression) {
		defer func() { recover() }()
		if e := mk(); e != nil {
			out = append(out, built{name, e})
		}
	}
	for _, b := range []struct {
		name string
		mk   func() *expr.Expression
	}{
		{`Eq("a","b*")`, func() *expr.Expression { return expr.Eq("a", "b*") }},
		{`Eq("a","/re/")`, func() *expr.Expression { return expr.Eq("a", "/re/") }},
		{`Eq("a",5)`, func() *expr.Expression { return expr.Eq("a", 5) }},
		{`Eq("a","b?c")`, func() *expr.Expression { return expr.Eq("a", "b?c") }},
		{`LIKE("a","b*")`, func() *expr.Expression { return expr.LIKE("a", "b*") }},
		{`LIKE("a","plain")`, func() *expr.Expression { return expr.LIKE("a", "plain") }},
		{`IN("a",LIST("x","y"))`, func() *expr.Expression { return expr.IN("a", expr.LIST(expr.Lit("x"), expr.Lit("y"))) }},
		{`Rang("a",1,5,true)`, func() *expr.Expression { return expr.Rang("a", 1, 5, true) }},
		{`Rang("a",5,1,false)`, func() *expr.Expression { return expr.Rang("a", 5, 1, false) }},
		{`Rang("a","*","z",true)`, func() *expr.Expression { return expr.Rang("a", "*", "z", true) }},
		{`AND(Eq,NOT(Eq))`, func() *expr.Expression { return expr.AND(expr.Eq("a", "b*"), expr.NOT(expr.Eq("c", "d?"))) }},
		{`OR(GREATER,LESSEQ)`, func() *expr.Expression { return expr.OR(expr.GREATER("a", 1), expr.LESSEQ("a", 5)) }},
		{`MUST(MUSTNOT)`, func() *expr.Expression { return expr.MUST(expr.MUSTNOT(expr.Eq("a", "b"))) }},
		{`BOOST(Eq,2)`, func() *expr.Expression { return expr.BOOST(expr.Eq("a", "b*"), 2) }},
		{`FUZZY(Eq)`, func() *expr.Expression { return expr.FUZZY(expr.Eq("a", "b")) }},
		{`Expr("a",Equals,"b*")`, func() *expr.Expression { return expr.Expr("a", expr.Equals, "b*") }},
		{`Expr("a",Like,"b")`, func() *expr.Expression { return expr.Expr("a", expr.Like, "b") }},
		{`literal{Equals, Column a, WILD b*}`, func() *expr.Expression { return &expr.Expression{Left: expr.Lit(expr.Column("a")), Op: expr.Equals, Right: expr.WILD("b*")} }},
		{`literal{Like, Column a, Lit b}`, func() *expr.Expression { return &expr.Expression{Left: expr.Lit(expr.Column("a")), Op: expr.Like, Right: expr.Lit("b")} }},
	} {
		add(b.name, b.mk)
	}
	for _, doc := range []string{
		`{"left":"a","operator":"EQUALS","right":"b*"}`,
		`{"left":"a","operator":"EQUALS","right":"/re/"}`,
		`{"left":"a","operator":"LIKE","right":"plain"}`,
		`{"left":{"left":"a","operator":"EQUALS","right":"b?"},"operator":"AND","right":{"left":"c","operator":"EQUALS","right":5}}`,
		`{"left":5,"operator":"LIKE","right":"*"}`,
		`{"left":"a","operator":"IN","right":["x","x","y"]}`,
	} {
		var d expr.Expression
		if json.Unmarshal([]byte(doc), &d) == nil {
			dd := d
			out = append(out, built{"json " + doc, &dd})
		}
	}
	return out
}
