(* Probe values for the C03/C04 search (a search device, not part of any theorem): numbers hitting every region cut out
   by a set of numeric constants. *)
Require Import QuerySem.
From Coq Require Import List ZArith QArith.
Import ListNotations.
Close Scope Q_scope.

Definition mid (a b : Q) : Q := Qred (Qdiv (Qplus a b) (inject_Z 2)).

Definition num_probes (cs : list Q) : list Q :=
  cs ++ map (fun c => Qred (Qplus c (inject_Z 1))) cs ++ map (fun c => Qred (Qminus c (inject_Z 1))) cs ++
  flat_map (fun a => map (mid a) cs) cs ++ [inject_Z 0].

Definition q_lt (a b : Q) : bool := match Qcompare a b with Lt => true | _ => false end.
Definition q_eq (a b : Q) : bool := match Qcompare a b with Eq => true | _ => false end.
