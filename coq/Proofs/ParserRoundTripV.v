(* C05: the tree a printed spec tree parses to also passes Validate, hence parse_toks (the parser loop followed by Validate)
   returns exactly `want t` *)
Require Import Parser ParserShape ParserShape2 ParserLay ParserTotal ParserRoundTrip ParserRun.
Require Import Shape Build Printer.
From Coq Require Import List String ZArith Bool Lia Arith.
Import ListNotations.

Section V.
Variable o : oracle.

Lemma leaf_validate e : is_leaf e = true -> validate e = true /\ is_literal_expr (VExp e) = true.
Proof.
  destruct e as [l op r b f]. intros H.
  destruct op; try (destruct l; discriminate); destruct l; try discriminate; destruct r; try discriminate; split; reflexivity.
Qed.

Lemma colwrap_leaf e : is_leaf e = true -> is_leaf (colwrap e) = true.
Proof. destruct e as [l op r b f]. intros H. unfold colwrap. cbn [e_left]. destruct l; try exact H; reflexivity. Qed.

Lemma validate_eqx f v : is_leaf f = true -> validate v = true -> validate (eqx f v) = true.
Proof.
  intros Hf Hv. destruct (leaf_validate _ (colwrap_leaf f Hf)) as [Vc Lc].
  unfold eqx. destruct (should_use_like (VExp v)) eqn:S.
  - cbn [validate empty_e]; unfold validate_node; cbn [e_op e_left e_right is_bound is_nil negb andb op_eqb]. rewrite Lc, Vc, Hv. cbn [is_bound is_nil negb andb].
    unfold should_use_like in S. destruct v as [vl vop vr vb vf]. cbn [e_op] in *. destruct vop; try discriminate; reflexivity.
  - cbn [validate empty_e]; unfold validate_node; cbn [e_op e_left e_right is_bound is_nil negb andb op_eqb]. rewrite Lc, Vc, Hv. reflexivity.
Qed.

Lemma validate_cmpx op f v : (op = Greater \/ op = Less \/ op = GreaterEq \/ op = LessEq) ->
  is_leaf f = true -> validate v = true -> validate (cmpx op f v) = true.
Proof.
  intros Ho Hf Hv. destruct (leaf_validate _ (colwrap_leaf f Hf)) as [Vc Lc].
  unfold cmpx. destruct Ho as [-> | [-> | [-> | ->]]];
    cbn [validate empty_e]; unfold validate_node; cbn [e_op e_left e_right is_bound is_nil negb andb op_eqb]; rewrite Lc, Vc, Hv; reflexivity.
Qed.

Lemma validate_rangex f a b i : is_leaf f = true -> is_leaf a = true -> is_leaf b = true -> validate (rangex f a b i) = true.
Proof.
  intros Hf Ha Hb. destruct (leaf_validate _ (colwrap_leaf f Hf)) as [Vc Lc].
  destruct (leaf_validate _ Ha) as [_ La]. destruct (leaf_validate _ Hb) as [_ Lb].
  unfold rangex. cbn [validate empty_e]; unfold validate_node; cbn [e_op e_left e_right is_bound is_nil negb andb op_eqb]. rewrite Lc, Vc, La, Lb. reflexivity.
Qed.

Lemma validate_inx f lits : is_leaf f = true -> forallb is_plain lits = true -> validate (inx f lits) = true.
Proof.
  intros Hf Hl. destruct (leaf_validate _ (colwrap_leaf f Hf)) as [Vc Lc].
  unfold inx. cbn [validate empty_e]; unfold validate_node; cbn [e_op e_left e_right is_bound is_nil negb andb op_eqb]. rewrite Lc, Vc. cbn [is_bound is_nil negb andb op_eqb].
  assert (F : forallb (fun x => is_literal_expr (VExp x)) lits = true).
  { clear -Hl. induction lits as [|x xs IH]; [reflexivity|]. cbn [forallb] in *. apply andb_true_iff in Hl. destruct Hl as [Hx Hxs].
    rewrite (IH Hxs), andb_true_r. destruct x as [l op r b f]. destruct op; try discriminate. destruct r; try discriminate. destruct l; try discriminate; reflexivity. }
  rewrite F. reflexivity.
Qed.

Lemma validate_mk2 op a b : (op = And \/ op = Or) -> validate a = true -> validate b = true -> validate (mk2 op a b) = true.
Proof. intros [-> | ->] Ha Hb; unfold mk2; cbn [validate empty_e]; unfold validate_node; cbn [e_op e_left e_right is_bound is_nil negb andb op_eqb]; rewrite Ha, Hb; reflexivity. Qed.
Lemma validate_mk1 op a : (op = Not \/ op = Must \/ op = MustNot) -> validate a = true -> validate (mk1 op a) = true.
Proof. intros [-> | [-> | ->]] Ha; unfold mk1; cbn [validate empty_e]; unfold validate_node; cbn [e_op e_left e_right is_bound is_nil negb andb op_eqb]; rewrite Ha; reflexivity. Qed.
Lemma validate_fuzzy a d : validate a = true -> validate (mk_fuzzy a d) = true.
Proof. intros Ha. unfold mk_fuzzy. cbn [validate]; unfold validate_node; cbn [e_op e_left e_right is_bound is_nil negb andb op_eqb]. rewrite Ha. reflexivity. Qed.
Lemma validate_boost a p : validate a = true -> validate (mk_boost a p) = true.
Proof. intros Ha. unfold mk_boost. cbn [validate]; unfold validate_node; cbn [e_op e_left e_right is_bound is_nil negb andb op_eqb]. rewrite Ha. reflexivity. Qed.

Lemma cmp_op_cases cmp b : cmp_op cmp b = Greater \/ cmp_op cmp b = Less \/ cmp_op cmp b = GreaterEq \/ cmp_op cmp b = LessEq.
Proof. unfold cmp_op. destruct (is TGreater cmp), b; auto. Qed.

(* what the parser loop accepts has the loose shape (ParserShape2.run_wf); the round trip tells what it accepts *)
Lemma want_wf t : wfq o t -> wf false (want o t) = true.
Proof.
  intros W. destruct (roundtrip o t W) as [k Hk].
  pose proof (run_steps o k (4 * List.length (pr t ++ [eof]) + 4) _ _ Hk) as R.
  pose proof (run_total o ""%string (4 * List.length (pr t ++ [eof]) + 4) (mk [] [start] (pr t ++ [eof]))) as T.
  pose proof (run_wf o ""%string (4 * List.length (pr t ++ [eof]) + 4) (mk [] [start] (pr t ++ [eof]))) as HW.
  unfold mk in *.
  destruct (run o (4 * Datatypes.length (pr t ++ [eof]) + 4) "" {| rs := []; ns := [start]; toks := pr t ++ [eof]; pend := None |}) eqn:E.
  - inversion R; subst. apply HW. split; cbn; auto. apply items_wf_nil.
  - discriminate.
  - discriminate.
  - exfalso. apply T; [reflexivity | cbn; lia].
Qed.

Lemma validate_want : forall t, wfq o t -> validate (want o t) = true.
Proof.
  induction t as [tok | f ct v | f ct cmp eq v | f ct op lo to hi cl | f ct a IHa | a IHa b IHb | a IHa b IHb | a IHa | a IHa | a IHa | a IHa num | a IHa num | a IHa];
    intros W; pose proof W as W0; cbn [wfq] in W; cbn [want].
  - exact (proj1 (leaf_validate _ (parse_literal_leaf o tok))).
  - apply validate_eqx; [apply parse_literal_leaf | exact (proj1 (leaf_validate _ (parse_literal_leaf o v)))].
  - apply validate_cmpx; [apply cmp_op_cases | apply parse_literal_leaf | exact (proj1 (leaf_validate _ (parse_literal_leaf o v)))].
  - apply validate_rangex; apply parse_literal_leaf.
  - destruct W as (_ & _ & Wa). unfold fe_node.
    destruct (chained_or_literals ""%string (want o a)) as [lits ok] eqn:C.
    destruct (ok && (1 <? List.length lits)) eqn:B.
    + apply andb_true_iff in B. destruct B as [-> _].
      apply validate_inx; [apply parse_literal_leaf|].
      exact (chained_plain ""%string _ (want o a) lits (le_n _) (want_wf a Wa) C).
    + apply validate_eqx; [apply parse_literal_leaf | exact (IHa Wa)].
  - destruct W as (Wa & Wb & _). apply validate_mk2; auto.
  - destruct W as (Wa & Wb & _). apply validate_mk2; auto.
  - destruct W as (Wa & _). apply validate_mk1; auto.
  - destruct W as (Wa & _). apply validate_mk1; auto.
  - destruct W as (Wa & _). apply validate_mk1; auto.
  - destruct W as (Wa & _). destruct num; apply validate_boost; auto.
  - destruct W as (Wa & _). destruct num; apply validate_fuzzy; auto.
  - exact (IHa W).
Qed.

Theorem printed_tree_parses t : wfq o t -> parse_toks o ""%string (pr t ++ [eof]) = PTree (want o t).
Proof.
  intros W. destruct (roundtrip o t W) as [k Hk].
  rewrite (accepted_steps_parse o (pr t ++ [eof]) (want o t) k Hk), (validate_want t W). reflexivity.
Qed.

End V.
