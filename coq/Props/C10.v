(* C10 — Results are all-or-nothing and accepted trees are well-formed. *)
Require Import Parser Render Api Shape.
Require Lex.
Require Import ParserTotal ParserShape2 RenderTotal RenderEmpty RenderEmptyP RenderNonEmpty.
From Coq Require Import List String.

(* the model's Parse returns PTree e (Go: e, nil), PErr (Go: nil, err) and nothing else: C01_parse_total excludes the two
   remaining constructors; every `return` of Parse/parse hands back the zero value `e` together with an error. *)
Theorem C10_parse_all_or_nothing : forall (o : oracle) (cl : Lex.classes) (df s : string),
  (exists e, Api.parse o cl df s = PTree e) \/ Api.parse o cl df s = PErr.
Proof.
  intros o cl df s. pose proof (parse_total o df (Api.lex_tokens cl s)) as T. unfold Api.parse.
  destruct (parse_toks o df (Api.lex_tokens cl s)); try contradiction; [left; eexists; reflexivity | right; reflexivity].
Qed.

(* every returned expression passes Validate and the independent shape check Shape.wf (strict form) *)
Theorem C10_returned_tree_wellformed : forall (o : oracle) (cl : Lex.classes) (df s : string) (e : expr),
  Api.parse o cl df s = PTree e -> wf true e = true /\ validate e = true.
Proof. intros o cl df s e. exact (parse_wf o df (Api.lex_tokens cl s) e). Qed.

(* ToPostgres: a non-empty string with nil error, or the empty string with an error
   (oracle fact used: %v of a float64 is never the empty string) *)
Theorem C10_to_postgres_shape : forall (o : oracle) (o2 : oracle2) (cl : Lex.classes) (df s : string),
  (forall f, fmt_v o2 f <> ""%string) ->
  forall t g, Api.to_postgres o o2 cl df s = Ret (t, g) ->
  (t <> ""%string /\ g = None) \/ (t = ""%string /\ g <> None).
Proof.
  intros o o2 cl df s Hf t g. unfold Api.to_postgres. destruct (Api.parse o cl df s) eqn:P; try discriminate.
  - intros H. destruct g as [er|].
    + right. split; [exact (render_err_empty o2 e t er H) | discriminate].
    + left. split; [|reflexivity]. destruct (parse_wf o df _ e P) as [W _]. exact (render_nonempty o2 Hf e t W H).
  - intros H. inversion H. right. split; [reflexivity|discriminate].
Qed.

(* ToParameterizedPostgres: empty SQL whenever it returns an error *)
Theorem C10_to_param_postgres_shape : forall (o : oracle) (o2 : oracle2) (cl : Lex.classes) (df s : string) t ps er,
  Api.to_param_postgres o o2 cl df s = Ret (t, ps, Some er) -> t = ""%string.
Proof.
  intros o o2 cl df s t ps er. unfold Api.to_param_postgres. destruct (Api.parse o cl df s) eqn:P; try discriminate.
  - exact (render_param_err_empty o2 e t ps er).
  - intros H. inversion H. reflexivity.
Qed.

Print Assumptions C10_parse_all_or_nothing.
Print Assumptions C10_returned_tree_wellformed.
Print Assumptions C10_to_postgres_shape.
Print Assumptions C10_to_param_postgres_shape.
