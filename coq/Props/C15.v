(* C15 — Custom drivers: Render folds the tree with exactly the supplied functions. *)
Require Import Parser Render Driver Shape.
Require Import Api.
Require Lex.
Require Import Custom CustomTrace RenderFold TablesTie.
From Coq Require Import List String.

(* for an ARBITRARY table of render functions (any functions, any subset of operators): if some node reachable through
   Left/Right/list elements/range bounds has no registered function, Render never succeeds *)
Theorem C15_missing_function_fails : forall (o2 : oracle2) (fns : operator -> option (string -> string -> out sres)) (e : expr),
  missing fns e = true -> forall s : string, render_with o2 fns e <> Ret (s, None).
Proof. exact missing_fails. Qed.

(* Render is a fold: Model/Driver.v render_tr is the same recursion logging every call (operator, left argument, right argument).
   Erasing the log gives Render; when Render succeeds the calls are the nodes of the tree in post-order - every node exactly
   once, bottom-up, the left child before the right one; the arguments are the rendered children, in that order, each wrapped in
   at most one pair of parentheses (by definition of render_tr) *)
Theorem C15_traced_fold_is_render : forall (o2 : oracle2) (fns : operator -> option (string -> string -> out sres)) (e : expr),
  erase (render_tr o2 fns e) = render_with o2 fns e.
Proof. exact traced_fold_is_render. Qed.
Theorem C15_calls_are_the_nodes_in_postorder : forall (o2 : oracle2) (fns : operator -> option (string -> string -> out sres)) (e : expr) s tr,
  render_tr o2 fns e = Ret ((s, None), tr) -> ops tr = postorder e.
Proof. exact calls_are_the_nodes_in_postorder. Qed.

(* replacing one operator's function changes nothing in a tree that has no node of that operator *)
Theorem C15_override_is_local : forall (o2 : oracle2) (fns fns' : operator -> option (string -> string -> out sres)) (o : operator),
  (forall op, op <> o -> fns op = fns' op) -> forall e, ~ In o (postorder e) -> render_with o2 fns e = render_with o2 fns' e.
Proof. exact override_is_local. Qed.

(* the package's postgres Render is that fold, instantiated with the postgres table; and that table is the one generated from
   base.go `Shared` overlaid by postgresql.go (TablesTie.pg_fn_tie: same functions at the same operators, none for FUZZY/BOOST) *)
Theorem C15_postgres_render_is_the_fold : forall (o2 : oracle2) (e : expr), render o2 e = render_with o2 (pg_fn o2) e.
Proof. exact render_is_fold. Qed.
Theorem C15_postgres_table_is_the_generated_one : forall (o2 : oracle2) op l r,
  match pg_fn o2 op, postgres_table op with
  | Some f, Some id => f l r = fn_of_id o2 id l r
  | None, None => True
  | _, _ => False
  end.
Proof. exact pg_fn_tie. Qed.

(* a FUZZY or BOOST node anywhere in the tree: Render never succeeds; hence ToPostgres fails on every query containing one *)
Theorem C15_fuzzy_boost_unsupported : forall (o2 : oracle2) (e : expr), has_fb e = true -> forall s, render o2 e <> Ret (s, None).
Proof. exact fuzzy_boost_unsupported. Qed.
Theorem C15_to_postgres_rejects_fuzzy_boost : forall o o2 cl df q e, Api.parse o cl df q = PTree e -> has_fb e = true ->
  forall s, Api.to_postgres o o2 cl df q <> Ret (s, None).
Proof. intros o o2 cl df q e P H s. unfold Api.to_postgres. rewrite P. exact (fuzzy_boost_unsupported o2 e H s). Qed.

Print Assumptions C15_missing_function_fails.
Print Assumptions C15_traced_fold_is_render.
Print Assumptions C15_calls_are_the_nodes_in_postorder.
Print Assumptions C15_override_is_local.
Print Assumptions C15_postgres_render_is_the_fold.
Print Assumptions C15_postgres_table_is_the_generated_one.
Print Assumptions C15_fuzzy_boost_unsupported.
Print Assumptions C15_to_postgres_rejects_fuzzy_boost.
