(* C05 — Operator precedence, associativity and grouping follow the documented table (and C09's parentheses clause). *)
Require Import Parser Api Shape Build Printer.
Require Import ParserRoundTrip ParserRoundTripV PrintedText.
Require Lex LexWs.
Require LexWsG.
From Coq Require Import List String.
Import ListNotations.

(* Spec/Printer.v: qt = query trees over bare terms, field:value, comparisons, ranges, field:(E) incl. value lists, AND, OR, NOT,
   +, -, ^n, ~n and explicit parentheses; lvl = OR < AND < NOT < ^ < ~ < - < +; wfq t = a parenthesis node is present wherever
   the table requires one (it may also be present anywhere else: redundant parentheses); pr = the printer; want = the tree built
   with the public constructors. Printing then parsing gives back the tree, for every wfq tree of any depth: the parser loop
   run on the printed tokens followed by EOF accepts exactly `want t`. *)
Theorem C05_print_parse_roundtrip : forall (o : oracle) (t : qt), wfq o t ->
  exists k, steps o k (mk [] [start] (pr t ++ [eof])) = Accept (want o t).
Proof. exact roundtrip. Qed.

(* the same through the whole of Parse's token-level work (the parser loop within its fuel 4n+4, then Validate): the result is
   exactly the expected tree *)
Theorem C05_printed_tree_parses_to_itself : forall (o : oracle) (t : qt), wfq o t ->
  parse_toks o "" (pr t ++ [eof]) = PTree (want o t).
Proof. exact printed_tree_parses. Qed.

(* and through the lexer, for any bytes: the printed tokens written with single blanks between them (operators in their
   canonical spelling) are the query text `text_of (pr t)`; if every printed token is a proper token that the lexer returns
   unchanged when a blank follows its text (LexWsG.lexes_clean: true of ordinary words in any script, numbers, quoted strings with
   any bytes and the operator spellings - see the Example in Proofs/PrintedText.v; false only for a word ending in a dangling escape), Parse of that text returns exactly the expected tree.
   Oracle fact: the four whitespace runes are not letters or digits *)
Theorem C05_printed_text_parses_to_the_tree : forall (o : oracle) (cl : Lex.classes),
  (forall r, Lex.is_space r = true -> Lex.is_alnum cl r = false) ->
  forall t : qt, wfq o t -> Forall (LexWsG.lexes_clean cl) (map ltok (pr t)) ->
  Api.parse o cl "" (text_of (pr t)) = PTree (want o t).
Proof. exact printed_text_parses. Qed.

(* a parenthesised OR-chain of two or more plain values under a field is the value list IN(field, LIST[...]) *)
Theorem C05_value_list : forall (o : oracle) (f ct v : token) (vs : list token),
  is_plain (parse_literal o v) = true -> forallb is_plain (map (parse_literal o) vs) = true -> vs <> [] ->
  want o (QFe f ct (qchain v vs)) = inx (parse_literal o f) (parse_literal o v :: map (parse_literal o) vs).
Proof. exact list_tree. Qed.

Print Assumptions C05_print_parse_roundtrip.
Print Assumptions C05_printed_tree_parses_to_itself.
Print Assumptions C05_printed_text_parses_to_the_tree.
Print Assumptions C05_value_list.

(* the property's own examples, on the model (ASCII classifier, an oracle whose ParseFloat rejects everything): instances, not
   the theorem - they show that the statements above speak about the grouping the property text means *)
Require LexWs SqlQueryText Api.
Example c05_examples_of_the_property_text :
  let P := fun s : String.string => Api.parse SqlQueryText.o_ex LexWs.cl_ascii ""%string s in
  (exists e, P "a:b OR c:d AND e:f"%string = PTree e) /\
  P "a:b OR c:d AND e:f"%string = P "a:b OR (c:d AND e:f)"%string /\ P "a:b OR c:d AND e:f"%string <> P "(a:b OR c:d) AND e:f"%string /\
  P "NOT a AND b"%string = P "(NOT a) AND b"%string /\ P "NOT a AND b"%string <> P "NOT (a AND b)"%string /\
  P "+a^2"%string = P "(+a)^2"%string /\ P "+a^2"%string <> P "+(a^2)"%string.
Proof. vm_compute. repeat split; try reflexivity; try discriminate. eexists; reflexivity. Qed.
