(* C08 (escaping clause), lexer level, for ALL byte strings (any script, any UTF-8 validity), generalising the ASCII development
   of LexEscape.v: a text written as a bare word with a backslash before every RUNE (as utf8.DecodeRuneInString cuts the text)
   that is not a letter, digit or underscore is ONE Literal token carrying exactly those bytes: `f:esc(w)` lexes to
   [Literal f; Colon; Literal esc(w); EOF]. The escaped spelling is defined through the decoder of the model (Lex.decode_rune,
   Go's decoder as the source has it), so an invalid byte is its own one-byte chunk (U+FFFD, width 1), which the oracle fact
   "U+FFFD is neither letter nor digit" sends to the escaped branch. The step that needs an argument: the chunks are cut in
   the ORIGINAL text but the lexer decodes the ESCAPED one; LexCtx.decode_ctx (a decoding step does not depend on a context
   that does not start with a continuation byte) closes it, since an escaped spelling never starts with a continuation byte. *)
Require Import Lex LexProof LexFuel LexCtx LexQuote LexField.
Require Export Escape.
From Coq Require Import List Ascii String NArith Bool Arith Lia ZifyBool ZifyN ZifyNat.
Import ListNotations.

(* a continuation byte at the front decodes to the error rune *)
Lemma cont_decodes_error c s : cont (bval c) = true -> decode_rune (c :: s) = Some (rune_error, 1).
Proof.
  intros H. rewrite decode_shape. cbv zeta. unfold cont, in_range in *.
  destruct (bval c <? 128)%N eqn:E1; [lia|].
  destruct ((194 <=? bval c)%N && (bval c <=? 223)%N) eqn:E2; [lia|].
  destruct ((224 <=? bval c)%N && (bval c <=? 239)%N) eqn:E3; [lia|].
  destruct ((240 <=? bval c)%N && (bval c <=? 244)%N) eqn:E4; [lia|]. reflexivity.
Qed.

Lemma chunk_len (s : bytes) r w : decode_rune s = Some (r, w) -> List.length (firstn w s) = w /\ List.length (skipn w s) < List.length s.
Proof. intros D. pose proof (decode_width _ _ _ D). rewrite firstn_length, skipn_length. lia. Qed.

Lemma take_chunk (x e acc : bytes) w : List.length x = w -> take_onto w (x ++ e) acc = (e, rev x ++ acc).
Proof. intros L. rewrite take_onto_app by lia. rewrite <- L, skipn_all, firstn_all. reflexivity. Qed.

Section U.
Variable cl : classes.
Hypothesis dq_not_alnum : is_letter cl 34 = false /\ is_digit cl 34 = false.
Hypothesis colon_not_alnum : is_letter cl 58 = false /\ is_digit cl 58 = false.
Hypothesis backslash_not_alnum : is_letter cl 92 = false /\ is_digit cl 92 = false.
Hypothesis ws_not_alnum : forall r, is_space r = true -> is_alnum cl r = false.
Hypothesis error_not_alnum : is_alnum cl rune_error = false.

Notation bs := "\"%char.

Notation esc_u := (Escape.esc_u cl).
Notation esc := (Escape.esc cl).

Lemma alnum92 : is_alnum cl 92 = false.
Proof. unfold is_alnum. destruct backslash_not_alnum as [-> ->]. reflexivity. Qed.


Lemma first_of_alnum_not_cont c s r w : decode_rune (c :: s) = Some (r, w) -> is_alnum cl r = true -> cont (bval c) = false.
Proof.
  intros D A. destruct (cont (bval c)) eqn:C; [|reflexivity].
  rewrite (cont_decodes_error c s C) in D. inversion D; subst. congruence.
Qed.

Lemma hd_ok_esc : forall n s, hd_ok (esc_u n s).
Proof.
  intros [|n] s; [exact I|]. cbn [Escape.esc_u]. destruct (decode_rune s) as [[r w]|] eqn:D; [|exact I].
  destruct (is_alnum cl r) eqn:A; [|cbn; reflexivity].
  destruct s as [|c s]; [discriminate|]. pose proof (decode_width _ _ _ D) as W.
  destruct w as [|w]; [lia|]. cbn [firstn app hd_ok]. exact (first_of_alnum_not_cont c s r (S w) D A).
Qed.


(* the decoder reads the same chunk in front of the escaped rest as in front of the original rest *)
Lemma decode_before_esc s r w n : decode_rune s = Some (r, w) -> decode_rune (firstn w s ++ esc_u n (skipn w s)) = Some (r, w).
Proof.
  intros D. destruct (chunk_len s r w D) as [L _].
  apply (decode_ctx (firstn w s) (skipn w s)); [rewrite firstn_skipn; exact D|lia|apply hd_ok_esc].
Qed.

Lemma esc_length : forall n s, List.length s <= n -> List.length s <= List.length (esc_u n s).
Proof.
  induction n as [|n IH]; intros s H; [lia|]. cbn [Escape.esc_u]. destruct (decode_rune s) as [[r w]|] eqn:D.
  - destruct (chunk_len s r w D) as [L1 L2]. specialize (IH (skipn w s) ltac:(lia)).
    pose proof (firstn_skipn w s) as FS. apply (f_equal (@List.length _)) in FS. rewrite app_length in FS.
    destruct (is_alnum cl r); rewrite app_length; cbn [List.length]; lia.
  - apply decode_none in D. subst. cbn. lia.
Qed.


Lemma lex_word_esc : forall n s acc fuel, List.length s <= n -> List.length s < fuel ->
  lex_word cl fuel (esc_u n s) acc = Tok {| typ := word_type (rev acc ++ esc_u n s); val := rev acc ++ esc_u n s |} [].
Proof.
  induction n as [|n IH]; intros s acc fuel Hn Hf.
  - destruct fuel as [|fu]; [lia|]. cbn [Escape.esc_u lex_word]. change (decode_rune []) with (@None (N * nat)). cbv iota.
    rewrite app_nil_r. reflexivity.
  - destruct fuel as [|fu]; [lia|]. cbn [Escape.esc_u]. destruct (decode_rune s) as [[r w]|] eqn:D.
    2:{ cbn [lex_word]. change (decode_rune []) with (@None (N * nat)). cbv iota. rewrite app_nil_r. reflexivity. }
    destruct (chunk_len s r w D) as [L1 L2]. pose proof (decode_before_esc s r w n D) as D'.
    set (x := firstn w s) in *. set (e := esc_u n (skipn w s)) in *.
    assert (IHe : forall acc', lex_word cl fu e acc' = Tok {| typ := word_type (rev acc' ++ e); val := rev acc' ++ e |} []).
    { intros acc'. apply IH; lia. }
    destruct (is_alnum cl r) eqn:A.
    + cbn [lex_word]. rewrite D'. cbv iota beta. rewrite A. cbn [orb]. rewrite (take_chunk x e acc w L1).
      rewrite IHe. rewrite rev_app_distr, rev_involutive, <- app_assoc. reflexivity.
    + cbn [lex_word app]. change (decode_rune (bs :: x ++ e)) with (Some (92%N, 1)). cbv iota beta.
      rewrite alnum92. cbn [orb is_wildcard is_escape N.eqb Pos.eqb take_onto]. rewrite D'. cbv iota beta.
      rewrite (take_chunk x e (bs :: acc) w L1). rewrite IHe. rewrite rev_app_distr, rev_involutive. cbn [rev].
      rewrite <- !app_assoc. reflexivity.
Qed.

(* the escaped spelling of a non-empty text: no leading blank, and its first rune starts a word *)
Lemma esc_front c0 s : exists r w,
  skip_space (esc (c0 :: s)) = esc (c0 :: s) /\ decode_rune (esc (c0 :: s)) = Some (r, w) /\
  (is_alnum cl r || is_wildcard r || is_escape r) = true.
Proof.
  unfold Escape.esc. cbn [List.length Escape.esc_u]. destruct (decode_rune (c0 :: s)) as [[r w]|] eqn:D; [|exfalso; exact (decode_cons c0 s D)].
  pose proof (decode_before_esc (c0 :: s) r w (List.length s) D) as D'. pose proof (decode_width _ _ _ D) as W.
  destruct (is_alnum cl r) eqn:A.
  - exists r, w. split; [|split; [exact D'|rewrite A; reflexivity]].
    destruct w as [|w]; [lia|]. cbn [firstn app skip_space].
    destruct (is_space (ch c0)) eqn:Sp; [|reflexivity]. exfalso.
    assert (Hlt : (bval c0 <? 128)%N = true) by (unfold is_space, ch in Sp; lia).
    rewrite (decode_ascii c0 s Hlt) in D. inversion D; subst. apply ws_not_alnum in Sp. unfold ch in Sp. congruence.
  - exists 92%N, 1. split; [reflexivity|]. split; [reflexivity|]. rewrite alnum92. reflexivity.
Qed.

Lemma next_esc c0 s :
  next_token cl (esc (c0 :: s)) = ({| typ := word_type (esc (c0 :: s)); val := esc (c0 :: s) |}, []).
Proof.
  destruct (esc_front c0 s) as [r [w [Sk [D Hd]]]]. unfold next_token. rewrite Sk, D. cbv iota beta zeta. rewrite Hd.
  unfold Escape.esc. rewrite (lex_word_esc (List.length (c0 :: s)) (c0 :: s) []); [reflexivity|lia|].
  pose proof (esc_length (List.length (c0 :: s)) (c0 :: s) (le_n _)). lia.
Qed.

Theorem lex_field_escaped_u c0 f d0 w :
  forallb (wordc cl) (c0 :: f) = true -> word_type (c0 :: f) = TLiteral ->
  word_type (esc (d0 :: w)) = TLiteral ->
  lex cl ((c0 :: f) ++ ":"%char :: esc (d0 :: w)) =
  [ {| typ := TLiteral; val := c0 :: f |}; {| typ := TColon; val := [":"%char] |};
    {| typ := TLiteral; val := esc (d0 :: w) |}; eof_tok ].
Proof.
  intros Hf Hty Hty2. unfold lex.
  remember (List.length ((c0 :: f) ++ ":"%char :: esc (d0 :: w))) as n eqn:En.
  assert (Hn : 3 <= n).
  { subst n. rewrite app_length. pose proof (esc_length (List.length (d0 :: w)) (d0 :: w) (le_n _)). unfold Escape.esc. cbn [List.length] in *. lia. }
  destruct n as [|[|[|n]]]; try lia.
  cbn [lex_all]. rewrite (next_word cl dq_not_alnum colon_not_alnum ws_not_alnum c0 f _ Hf). cbn [typ]. rewrite Hty.
  rewrite (next_colon cl dq_not_alnum colon_not_alnum) || rewrite (next_colon cl colon_not_alnum). cbn [typ].
  rewrite (next_esc d0 w). cbn [typ]. rewrite Hty2.
  rewrite next_eof. reflexivity.
Qed.

End U.

(* on an ASCII text the rune-level spelling is the byte-level one of LexEscape.v *)
Lemma esc_u_ascii (cl : classes) : forall n s, List.length s <= n -> forallb (fun c => (bval c <? 128)%N) s = true ->
  Escape.esc_u cl n s = (fix go (w : bytes) : bytes := match w with [] => [] | c :: r => if wordc cl c then c :: go r else "\"%char :: c :: go r end) s.
Proof.
  induction n as [|n IH]; intros s Hn Ha.
  - destruct s; [reflexivity|cbn in Hn; lia].
  - destruct s as [|c s]; [reflexivity|]. cbn [forallb] in Ha. apply andb_true_iff in Ha. destruct Ha as [Hc Ha].
    cbn [Escape.esc_u]. rewrite (decode_ascii c s Hc). cbn [firstn skipn]. unfold wordc. rewrite Hc. cbn [andb].
    cbn [List.length] in Hn. rewrite (IH s ltac:(lia) Ha). destruct (is_alnum cl (bval c)); reflexivity.
Qed.

Print Assumptions lex_field_escaped_u.
