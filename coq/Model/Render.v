(* Scratch prototype: String/GoString (fmt model), postgres Render / RenderParam, MarshalJSON *)
Require Import Parser.
From Coq Require Import List Ascii String ZArith Bool Lia.
Import ListNotations.
Open Scope string_scope.

Record oracle2 := {
  fmt_v : Z -> string;          (* %v of float64 *)
  fmt_2f : Z -> string;         (* %.2f *)
  fmt_1f : Z -> string;         (* %.1f *)
  f_gt1 : Z -> bool;            (* f > 1 *)
  go_quote : string -> string;  (* strconv.Quote *)
  json_str : string -> string;  (* json.Marshal(string) *)
  json_num : Z -> option string;(* json.Marshal(float64) *)
  pfloat : string -> option Z;  (* strconv.ParseFloat *)
  valid_utf8 : string -> bool   (* utf8.ValidString; concrete in the real development *)
}.

Section R.
Variable o2 : oracle2.

(* ---------- string helpers ---------- *)
Fixpoint z_digits (fuel : nat) (n : Z) (acc : string) : string :=
  match fuel with
  | 0 => acc
  | S f => let d := ascii_of_nat (48 + Z.to_nat (n mod 10)) in
           let acc' := String d acc in
           if (n / 10 =? 0)%Z then acc' else z_digits f (n / 10)%Z acc'
  end.
Definition z_to_string (n : Z) : string :=
  if (n <? 0)%Z then "-" ++ z_digits 30 (- n) "" else z_digits 30 n "".

Fixpoint join (sep : string) (l : list string) : string :=
  match l with [] => "" | [x] => x | x :: r => x ++ sep ++ join sep r end.

Fixpoint replace_char (c : ascii) (by_ : string) (s : string) : string :=
  match s with EmptyString => "" | String x r => if Ascii.eqb x c then by_ ++ replace_char c by_ r else String x (replace_char c by_ r) end.

Fixpoint nth_char (n : nat) (s : string) : option ascii :=
  match s, n with String c _, 0 => Some c | String _ r, S n' => nth_char n' r | EmptyString, _ => None end.
Definition char_at_is (s : string) (n : nat) (c : ascii) : bool :=
  match nth_char n s with Some x => Ascii.eqb x c | None => false end.

(* strings.Split(s, ",") *)
Fixpoint split_comma (s : string) (cur : string) : list string :=
  match s with
  | EmptyString => [cur]
  | String c r => if Ascii.eqb c ","%char then cur :: split_comma r "" else split_comma r (cur ++ String c "")
  end.
(* strings.Trim(s, " ") *)
Fixpoint trim_left (s : string) : string := match s with String " "%char r => trim_left r | _ => s end.
Fixpoint rev_str (s acc : string) : string := match s with EmptyString => acc | String c r => rev_str r (String c acc) end.
Definition trim (s : string) : string := rev_str (trim_left (rev_str (trim_left s) "")) "".

Definition op_string (op : operator) : string :=
  match op with
  | Undefined => "" | And => "AND" | Or => "OR" | Equals => "EQUALS" | Like => "LIKE" | Not => "NOT" | Range => "RANGE"
  | Must => "MUST" | MustNot => "MUST_NOT" | Boost => "BOOST" | Fuzzy => "FUZZY" | Literal => "LITERAL" | Wild => "WILD"
  | Regexp => "REGEXP" | Greater => "GREATER" | Less => "LESS" | GreaterEq => "GREATER_EQ" | LessEq => "LESS_EQ" | Tables.In => "IN" | Tables.List => "LIST"
  end.

(* ---------- fmt model: result text + flags ---------- *)
Record ftext := { txt : string; bad : bool; opaque : bool }.
Definition ok (s : string) := {| txt := s; bad := false; opaque := false |}.
Definition badv (s : string) := {| txt := s; bad := true; opaque := false |}.
Definition cat (a b : ftext) := {| txt := txt a ++ txt b; bad := bad a || bad b; opaque := opaque a || opaque b |}.
Definition lit_ (s : string) := ok s.
Fixpoint cats (l : list ftext) : ftext := match l with [] => ok "" | x :: r => cat x (cats r) end.
Fixpoint joinf (sep : string) (l : list ftext) : ftext :=
  match l with [] => ok "" | [x] => x | x :: r => cat x (cat (ok sep) (joinf sep r)) end.

Definition bool_str (b : bool) := if b then "true" else "false".

(* String() / GoString(): mutual recursion over expr / value; how: 0 = %s, 1 = %v, 2 = %#v *)
Definition vb (how : nat) : bool := match how with 2 => true | _ => false end.

Fixpoint str_e (verbose : bool) (e : expr) {struct e} : out ftext :=
  match e with
  | E l op r boost fuzzy =>
    let how := if verbose then 2 else 0 in
    match op with
    | Undefined => Ret (ok "")
    | Equals => do a <- str_v how l; do b <- str_v how r; Ret (cats [a; ok ":"; b])
    | And | Or | Greater | Less | GreaterEq | LessEq | Like | Tables.In =>
        do a <- str_v how l; do b <- str_v how r;
        Ret (if verbose then cats [ok "("; a; ok (") " ++ op_string op ++ " ("); b; ok ")"]
             else cats [a; ok (" " ++ op_string op ++ " "); b])
    | Not => do a <- str_v how l; Ret (cats [ok (op_string op ++ "("); a; ok ")"])
    | MustNot => do a <- str_v how l; Ret (if verbose then cats [ok (op_string op ++ "("); a; ok ")"] else cat (ok "-") a)
    | Must => do a <- str_v how l; Ret (if verbose then cats [ok (op_string op ++ "("); a; ok ")"] else cat (ok "+") a)
    | Boost =>
        do a <- str_v how l;
        Ret (if verbose then (if f_gt1 o2 boost then cats [ok (op_string op ++ "("); a; ok ("^" ++ fmt_1f o2 boost ++ ")")] else cats [ok (op_string op ++ "("); a; ok ")"])
             else (if f_gt1 o2 boost then cats [a; ok ("^" ++ fmt_1f o2 boost)] else cat a (ok "^")))
    | Fuzzy =>
        do a <- str_v how l;
        Ret (if verbose then (if (1 <? fuzzy)%Z then cats [ok (op_string op ++ "("); a; ok ("~" ++ z_to_string fuzzy ++ ")")] else cats [ok (op_string op ++ "("); a; ok ")"])
             else (if (1 <? fuzzy)%Z then cats [a; ok ("~" ++ z_to_string fuzzy)] else cat a (ok "~")))
    | Range =>
        match r with
        | VBound mn mx incl =>
            do a <- str_v how l; do b <- str_v how mn; do c <- str_v how mx;
            Ret (if incl then cats [a; ok ":["; b; ok " TO "; c; ok "]"] else cats [a; ok ":{"; b; ok " TO "; c; ok "}"])
        | _ => Panic "renderRange: e.Right.(*RangeBoundary)"
        end
    | Tables.List =>
        match l with
        | VList vals =>
            do xs <- (fix each (vs : list expr) : out (list ftext) :=
               match vs with
               | [] => Ret []
               | x :: rest => do a <- str_v (if verbose then 2 else 1) (e_left x); do b <- each rest; Ret (a :: b)
               end) vals;
            Ret (if verbose then cats [ok "LIST("; joinf ", " xs; ok ")"] else cats [ok "("; joinf ", " xs; ok ")"])
        | _ => Panic "renderList: e.Left.([]*Expression)"
        end
    | Literal | Wild | Regexp =>
        if verbose then do a <- str_v 2 l; Ret (cats [ok (op_string op ++ "("); a; ok ")"])
        else match l with
             | VStr x => if contains_char " "%char x then Ret (ok ("""" ++ x ++ """")) else str_v 1 l
             | _ => str_v 1 l
             end
    end
  end
with str_v (how : nat) (v : value) {struct v} : out ftext :=
  match v with
  | VNil => Ret (match how with 0 => badv "%!s(<nil>)" | _ => ok "<nil>" end)
  | VStr s => Ret (match how with 2 => ok (go_quote o2 s) | _ => ok s end)
  | VCol s => Ret (match how with 2 => ok ("COLUMN(" ++ s ++ ")") | _ => ok s end)
  | VInt z => Ret (match how with 0 => badv ("%!s(int=" ++ z_to_string z ++ ")") | _ => ok (z_to_string z) end)
  | VFloat f => Ret (match how with 0 => badv ("%!s(float64=" ++ fmt_v o2 f ++ ")") | _ => ok (fmt_v o2 f) end)
  | VBool b => Ret (match how with 0 => badv ("%!s(bool=" ++ bool_str b ++ ")") | _ => ok (bool_str b) end)
  | VExp x => str_e (vb how) x
  | VList l =>
      do xs <- (fix each (l : list expr) : out (list ftext) :=
         match l with
         | [] => Ret []
         | x :: r => do a <- str_e (vb how) x; do b <- each r; Ret (a :: b)
         end) l;
      Ret {| txt := "[" ++ txt (joinf " " xs) ++ "]"; bad := bad (joinf " " xs); opaque := vb how |}
  | VBound mn mx incl =>
      do a <- str_v how mn; do b <- str_v how mx;
      Ret {| txt := "&{" ++ txt a ++ " " ++ txt b ++ " " ++ bool_str incl ++ "}"; bad := true; opaque := true |}
  end.

(* ---------- postgres driver ---------- *)
Definition gerr := option string.           (* Go error: None = nil *)
Definition sres := (string * gerr)%type.    (* (string, error) *)

Definition is_simple (v : value) : bool :=
  match v with
  | VExp e => match e_op e with Undefined | Literal | Regexp | Wild => true | _ => false end
  | VCol _ | VNil | VStr _ | VInt _ | VFloat _ => true
  | _ => false
  end.

Definition no_wrap_op (op : operator) : bool :=
  match op with Range | Not | Tables.List | Tables.In | Literal | Must | MustNot => true | _ => false end.

Definition fn_literal (l r : string) : sres :=
  if negb (valid_utf8 o2 l) then ("", Some "literal contains invalid utf8")
  else if contains_char (ascii_of_nat 0) l then ("", Some "literal contains null byte")
  else (l, None).

Definition fn_like (l r : string) : sres :=
  let n := String.length r in
  if (4 <=? n)%nat && char_at_is r 1 "/"%char && char_at_is r (n - 2) "/"%char then (l ++ " ~ " ++ r, None)
  else (l ++ " SIMILAR TO " ++ replace_char "?"%char "_" (replace_char "*"%char "%" r), None).

Definition to_ints (a b : string) : option (Z * Z) :=
  let star := "'*'" in
  match atoi a, atoi b with
  | Some x, Some y => Some (x, y)
  | None, Some y => if String.eqb a star then Some (0%Z, y) else None
  | Some x, None => if String.eqb b star then Some (x, 0%Z) else None
  | None, None => if String.eqb a star && String.eqb b star then Some (0%Z, 0%Z) else None
  end.
(* zero float bits = 0 *)
Definition to_floats (a b : string) : option (Z * Z) :=
  let star := "'*'" in
  match pfloat o2 a, pfloat o2 b with
  | Some x, Some y => Some (x, y)
  | None, Some y => if String.eqb a star then Some (0%Z, y) else None
  | Some x, None => if String.eqb b star then Some (x, 0%Z) else None
  | None, None => if String.eqb a star && String.eqb b star then Some (0%Z, 0%Z) else None
  end.

Definition range_text (left : string) (incl : bool) (rawMin rawMax : string) (smin smax : string) : string :=
  let star := "'*'" in
  if String.eqb rawMin star then left ++ (if incl then " <= " else " < ") ++ smax
  else if String.eqb rawMax star then left ++ (if incl then " >= " else " > ") ++ smin
  else if incl then left ++ " >= " ++ smin ++ " AND " ++ left ++ " <= " ++ smax
  else left ++ " > " ++ smin ++ " AND " ++ left ++ " < " ++ smax.

Definition last_is (s : string) (c : ascii) : bool := match last_char s with Some x => Ascii.eqb x c | None => false end.
Definition first_is (s : string) (c : ascii) : bool := match first_char s with Some x => Ascii.eqb x c | None => false end.
Definition strip_ends (s : string) : string := (* s[1:len-1], len >= 2 *)
  match s with String _ r => rev_str (match rev_str r "" with String _ q => q | q => q end) "" | _ => "" end.

Definition fn_rang_core (left right : string) (K : bool -> string -> string -> out sres) : out sres :=
  match String.length right with
  | 0 => Panic "rang: right[0]"
  | 1 => Panic "rang: right[1:len-1]"
  | _ =>
    let incl := negb (first_is right "("%char && last_is right ")"%char) in
    match split_comma (strip_ends right) "" with
    | [a; b] => K incl (trim a) (trim b)
    | _ => Ret ("", Some "the BETWEEN operator needs a two item list")
    end
  end.

Definition rang_by_text (left : string) (incl : bool) (rawMin rawMax : string) : sres :=
  match to_ints rawMin rawMax with
  | Some (i, j) => (range_text left incl rawMin rawMax (z_to_string i) (z_to_string j), None)
  | None =>
    match to_floats rawMin rawMax with
    | Some (f, g) => (range_text left incl rawMin rawMax (fmt_2f o2 f) (fmt_2f o2 g), None)
    | None => (left ++ " BETWEEN " ++ rawMin ++ " AND " ++ rawMax, None)
    end
  end.

Definition fn_rang (left right : string) : out sres :=
  fn_rang_core left right (fun incl a b => Ret (rang_by_text left incl a b)).

Definition fn_rang_param (left right : string) (params : list value) : out sres :=
  fn_rang_core left right (fun incl a b =>
    if String.eqb a "?" || String.eqb b "?" then
      match params with
      | [] => Panic "rangParam: params[0]"
      | p :: _ =>
        match p with
        | VInt _ | VFloat _ => Ret (range_text left incl a b a b, None)
        | _ => Ret (left ++ " BETWEEN " ++ a ++ " AND " ++ b, None)
        end
      end
    else Ret (rang_by_text left incl a b)).

(* the postgres function table (Shared overlaid by NewPostgresDriver) *)
Definition pg_fn (op : operator) : option (string -> string -> out sres) :=
  let pure (f : string -> string -> sres) := Some (fun l r => Ret (f l r)) in
  match op with
  | Literal | Wild | Regexp => pure fn_literal
  | And => pure (fun l r => (l ++ " AND " ++ r, None))
  | Or => pure (fun l r => (l ++ " OR " ++ r, None))
  | Not | MustNot => pure (fun l r => ("NOT(" ++ l ++ ")", None))
  | Equals => pure (fun l r => (l ++ " = " ++ r, None))
  | Range => Some fn_rang
  | Must => pure (fun l r => (l, None))
  | Like => pure fn_like
  | Greater => pure (fun l r => (l ++ " > " ++ r, None))
  | GreaterEq => pure (fun l r => (l ++ " >= " ++ r, None))
  | Less => pure (fun l r => (l ++ " < " ++ r, None))
  | LessEq => pure (fun l r => (l ++ " <= " ++ r, None))
  | Tables.In => pure (fun l r => (l ++ " IN " ++ r, None))
  | Tables.List => pure (fun l r => ("(" ++ l ++ ")", None))
  | _ => None
  end.

Definition ser_column (v : string) : sres :=
  if String.eqb v "" then ("", Some "column name is empty")
  else if contains_char """"%char v then ("", Some "column name contains a double quote")
  else ("""" ++ v ++ """", None).

Definition wrap_if (b : bool) (s : string) := if b then "(" ++ s ++ ")" else s.

Fixpoint render (e : expr) {struct e} : out sres :=
  match e with
  | E l op r _ _ =>
    do ls <- serialize l;
    match ls with
    | (_, Some er) => Ret ("", Some er)
    | (lf, None) =>
      do rs_ <- serialize r;
      match rs_ with
      | (_, Some er) => Ret ("", Some er)
      | (rt, None) =>
        let lf := wrap_if (negb (no_wrap_op op) && negb (is_simple l)) lf in
        let rt := wrap_if (negb (no_wrap_op op) && negb (is_simple r)) rt in
        match pg_fn op with
        | None => Ret ("", Some "unable to render operator")
        | Some fn => fn lf rt
        end
      end
    end
  end
with serialize (v : value) {struct v} : out sres :=
  match v with
  | VNil => Ret ("", None)
  | VExp e => render e
  | VList l =>
      (fix each (l : list expr) (acc : list string) : out sres :=
         match l with
         | [] => Ret (join ", " (rev acc), None)
         | x :: rest =>
             do s <- render x;
             match s with
             | (s', Some er) => Ret (s', Some er)
             | (s', None) => each rest (s' :: acc)
             end
         end) l []
  | VBound mn mx incl =>
      do a <- serialize mn;
      match a with
      | (_, Some er) => Ret ("", Some er)
      | (smin, None) =>
        do b <- serialize mx;
        match b with
        | (_, Some er) => Ret ("", Some er)
        | (smax, None) => Ret ((if incl then "[" ++ smin ++ ", " ++ smax ++ "]" else "(" ++ smin ++ ", " ++ smax ++ ")"), None)
        end
      end
  | VCol c => Ret (ser_column c)
  | VStr s => Ret ("'" ++ replace_char "'"%char "''" s ++ "'", None)
  | VInt z => Ret (z_to_string z, None)
  | VFloat f => Ret (fmt_v o2 f, None)
  | VBool b => Ret (bool_str b, None)
  end.

(* ---------- parameterized ---------- *)
Definition pres := (string * list value * gerr)%type.

Definition is_regex_text (s : string) : bool := (2 <=? String.length s)%nat && first_is s "/"%char && last_is s "/"%char.

Fixpoint render_param (e : expr) {struct e} : out pres :=
  match e with
  | E l op r _ _ =>
    do ls <- ser_param l;
    match ls with
    | (_, _, Some er) => Ret ("", [], Some er)
    | (lf, lparams, None) =>
      do rs_ <- ser_param r;
      match rs_ with
      | (_, _, Some er) => Ret ("", [], Some er)
      | (rt, rparams, None) =>
        (* Like: translate the pattern held in the parameter *)
        let fixup : out (string * list value) :=
          match op with
          | Like =>
              let '(rt, rparams) := match rparams with [] => if String.eqb rt "'*'" then ("?", [VStr "*"]) else (rt, rparams) | _ => (rt, rparams) end in
              match rparams with
              | VStr rval :: rest =>
                  if is_regex_text rval then Ret (rt, rparams)
                  else Ret (rt, VStr (replace_char "?"%char "_" (replace_char "*"%char "%" rval)) :: rest)
              | [] => Panic "RenderParam: rparams[0]"
              | _ => Panic "RenderParam: rparams[0].(string)"
              end
          | _ => Ret (rt, rparams)
          end in
        do fx <- fixup;
        let '(rt, rparams) := fx in
        let params := (lparams ++ rparams)%list in
        let lf := wrap_if (negb (no_wrap_op op) && negb (is_simple l)) lf in
        let rt := wrap_if (negb (no_wrap_op op) && negb (is_simple r)) rt in
        match op with
        | Like =>
            match rparams with
            | [VStr p] => Ret (if is_regex_text p then lf ++ " ~ " ++ rt else lf ++ " SIMILAR TO " ++ rt, params, None)
            | [_] => Panic "likeParam: params[0].(string)"
            | _ => Ret (lf ++ " SIMILAR TO " ++ rt, params, None)
            end
        | Range =>
            do x <- fn_rang_param lf rt rparams;
            Ret (fst x, params, snd x)
        | _ =>
            match pg_fn op with
            | None => Ret ("", params, Some "unable to render operator")
            | Some fn => do x <- fn lf rt; Ret (fst x, params, snd x)
            end
        end
      end
    end
  end
with ser_param (v : value) {struct v} : out pres :=
  match v with
  | VNil => Ret ("", [], None)
  | VExp e => render_param e
  | VList l =>
      (fix each (l : list expr) (acc : list string) (ps : list value) : out pres :=
         match l with
         | [] => Ret (join ", " (rev acc), ps, None)
         | x :: rest =>
             do s <- render_param x;
             match s with
             | (s', _, Some er) => Ret (s', ps, Some er)
             | (s', eps, None) => each rest (s' :: acc) (ps ++ eps)%list
             end
         end) l [] []
  | VBound mn mx incl =>
      do a <- ser_param mn;
      match a with
      | (_, _, Some er) => Ret ("", [], Some er)
      | (smin, pmin, None) =>
        do b <- ser_param mx;
        match b with
        | (_, _, Some er) => Ret ("", [], Some er)
        | (smax, pmax, None) => Ret ((if incl then "[" ++ smin ++ ", " ++ smax ++ "]" else "(" ++ smin ++ ", " ++ smax ++ ")"), (pmin ++ pmax)%list, None)
        end
      end
  | VCol c => let '(s, er) := ser_column c in Ret (s, [], er)
  | VStr s => if String.eqb s "*" then Ret ("'*'", [], None) else Ret ("?", [v], None)
  | _ => Ret ("?", [v], None)
  end.

(* ---------- MarshalJSON ---------- *)
Definition is_leaf (op : operator) : bool := match op with Literal | Wild | Regexp => true | _ => false end.

Fixpoint marshal_e (e : expr) {struct e} : out (option string) :=   (* None = error *)
  match e with
  | E l op r boost fuzzy =>
    if is_leaf op then marshal_v l
    else
      do lr <- marshal_v l;
      match lr with
      | None => Ret None
      | Some lraw =>
        do rr <- (match r with VNil => Ret (Some "") | _ => marshal_v r end);
        match rr with
        | None => Ret None
        | Some rraw =>
          match (if (boost =? one_bits)%Z then Some "" else match json_num o2 boost with Some p => Some (",""power"":" ++ p) | None => None end) with
          | None => Ret None
          | Some power =>
            Ret (Some ("{""left"":" ++ lraw ++ ",""operator"":""" ++ op_string op ++ """" ++
                       (match r with VNil => "" | _ => ",""right"":" ++ rraw end) ++
                       (if (fuzzy =? 1)%Z then "" else ",""distance"":" ++ z_to_string fuzzy) ++ power ++ "}"))
          end
        end
      end
  end
with marshal_v (v : value) {struct v} : out (option string) :=
  match v with
  | VNil => Ret (Some "null")
  | VStr s | VCol s => Ret (Some (json_str o2 s))
  | VInt z => Ret (Some (z_to_string z))
  | VFloat f => Ret (json_num o2 f)
  | VBool b => Ret (Some (bool_str b))
  | VExp e => marshal_e e
  | VList l =>
      (fix each (l : list expr) (acc : list string) : out (option string) :=
         match l with
         | [] => Ret (Some ("[" ++ join "," (rev acc) ++ "]"))
         | x :: rest => do s <- marshal_e x; match s with None => Ret None | Some s' => each rest (s' :: acc) end
         end) l []
  | VBound mn mx incl =>
      do a <- marshal_v mn;
      match a with
      | None => Ret None
      | Some sa =>
        do b <- marshal_v mx;
        match b with
        | None => Ret None
        | Some sb => Ret (Some ("{""min"":" ++ sa ++ ",""max"":" ++ sb ++ ",""inclusive"":" ++ bool_str incl ++ "}"))
        end
      end
  end.

End R.

