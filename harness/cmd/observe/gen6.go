package main

import (
	"fmt"
	"strconv"
)

// ---- optrees: EVERY operator tree with up to four operator nodes -----------------------------------------------------
// unary NOT + - ^2 ~2 and binary AND OR over distinct fielded leaves, printed with the parentheses the precedence table requires
// (mk), each with its specification tree (rel=C05): what a particular SEQUENCE of operators does (NOT directly over an AND of
// two NOTs, + under - under NOT, a boost over a negated group) is decided for all of them, not sampled.
func genOpTrees(maxNodes int) {
	var build func(k int, next *int) []func() *qt
	memo := map[int][]func(*int) *qt{}
	var gen func(k int) []func(*int) *qt
	gen = func(k int) []func(*int) *qt {
		if r, ok := memo[k]; ok {
			return r
		}
		var out []func(*int) *qt
		if k == 0 {
			out = append(out, func(n *int) *qt {
				i := *n
				*n++
				if bareLeaves {
					return &qt{kind: "term", toks: []string{"t" + strconv.Itoa(i)}}
				}
				return &qt{kind: "fv", toks: []string{"f" + strconv.Itoa(i), ":", "v" + strconv.Itoa(i)}}
			})
		} else {
			for _, u := range []string{"not", "must", "mustnot", "boost", "fuzzy"} {
				u := u
				for _, sub := range gen(k - 1) {
					sub := sub
					out = append(out, func(n *int) *qt {
						t := mk(u, sub(n))
						if u == "boost" || u == "fuzzy" {
							t.num = "2"
						}
						return t
					})
				}
			}
			for _, b := range []string{"and", "or"} {
				b := b
				for i := 0; i <= k-1; i++ {
					for _, l := range gen(i) {
						l := l
						for _, r := range gen(k - 1 - i) {
							r := r
							out = append(out, func(n *int) *qt { x := l(n); y := r(n); return mk(b, x, y) })
						}
					}
				}
			}
		}
		memo[k] = out
		return out
	}
	_ = build
	g7 := 700000
	for pass := 0; pass < 2; pass++ {
		bareLeaves = pass == 1 // the same trees over bare terms: t0, t1, ...
		top := maxNodes
		if bareLeaves && top > 3 {
			top = 3
		}
		for k := 1; k <= top; k++ {
			for _, f := range gen(k) {
				n := 0
				t := f(&n)
				emitQ(join(t.words(nil), 0), "", "rel=C05;qt="+t.sexpr())
				// the same tree with every AND that may be written as juxtaposition written so, against all written out (C07)
				used := false
				a := join(t.words(func() bool { return false }), 0)
				b := join(t.words(func() bool { used = true; return true }), 0)
				if used && a != b {
					emitQ(a, "", fmt.Sprintf("rel=C07;g=%d;role=a", g7))
					emitQ(b, "", fmt.Sprintf("rel=C07;g=%d;role=b", g7))
					g7++
					if bareLeaves {
						emitQ(a, "d", fmt.Sprintf("rel=C07;g=%d;role=a", g7))
						emitQ(b, "d", fmt.Sprintf("rel=C07;g=%d;role=b", g7))
						g7++
					}
				}
			}
		}
	}
	bareLeaves = false
}

var bareLeaves = false

// ---- near misses as layout pairs ---------------------------------------------------------------------------------------
// a text that is NOT a query must stay one under every change of layout: spaced against tight, and with one more pair of
// parentheses around a group
func nearMissLayout(words []string, g *int) {
	a := join(words, 0)
	b := join(words, 1)
	if a != b {
		emitQ(a, "", fmt.Sprintf("rel=C09ws;g=%d;role=a", *g))
		emitQ(b, "", fmt.Sprintf("rel=C09ws;g=%d;role=b", *g))
		*g++
	}
}
