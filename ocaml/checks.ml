(* Per-property checks, evaluated on the IMPLEMENTATION's observations (never on the model's answers).
   They use the extracted specification functions (Shape.wf, Printer.want, Scope.scope, Count.qcnt, PgModel, ...)
   where the property is stated through one. A failure is recorded with the property id, the clause and, where the
   failing input falls into a class that known_findings.json may list, the class name. *)
open Model
open Common

let fail prop clause input extra = record_failure prop (("clause", clause) :: input @ extra)
let checked prop = bump ("prop_checked." ^ prop)
let nontrivial prop = bump ("prop_nontrivial." ^ prop)

let ws_chars = [' '; '\t'; '\r'; '\n']
let terr_num = typnum TErr
let teof_num = typnum TEOF

(* leaves of a tree, left to right *)
let rec leaves_e (e : expr) : expr list =
  match e with
  | E (l, op, r, _, _) ->
    (match op with
     | Literal | Wild | Regexp -> [e]
     | _ -> leaves_v l @ leaves_v r)
and leaves_v (v : value) : expr list =
  match v with
  | VExp e -> leaves_e e
  | VList l -> List.concat_map leaves_e l
  | VBound (a, b, _) -> leaves_v a @ leaves_v b
  | _ -> []

let rec exists_node (p : expr -> bool) (e : expr) : bool =
  p e || (match e with E (l, _, r, _, _) -> exists_v p l || exists_v p r)
and exists_v p v = match v with
  | VExp e -> exists_node p e | VList l -> List.exists (exists_node p) l | VBound (a, b, _) -> exists_v p a || exists_v p b | _ -> false

(* K12: a float leaf whose JSON text reads back as an integer (1e6 -> 1000000) or is -0 *)
let has_int_valued_float (e : expr) : bool =
  List.exists (fun l -> match l with
    | E (VFloat f, _, _, _, _) ->
        (match orc2.json_num f with
         | Some t -> let s = string_of_chars t in (try ignore (Int64.of_string s); not (String.contains s '.' || String.contains s 'e') with _ -> false)
         | None -> false)
    | _ -> false) (leaves_e e)

(* quoted strings that read as patterns / regexps after decoding (the listed exceptions of C12) *)
let has_kind_changing_string (e : expr) : bool =
  List.exists (fun l -> match l with
    | E (VStr s, Literal, _, _, _) ->
        let t = string_of_chars s in
        String.contains t '*' || String.contains t '?' || (String.length t >= 2 && t.[0] = '/' && t.[String.length t - 1] = '/')
    | _ -> false) (leaves_e e)

let valid_utf8 (s : string) : bool = orc2.valid_utf8 (chars_of_string s)


(* ---------- C02: the SQL text as PostgreSQL reads it (PgModel, extracted) ---------- *)
let cmp_ops = ["="; "<"; ">"; "<="; ">="; "<>"; "~"]
let rec sql_safe (a : ast) : bool =
  match a with
  | ABool (_, l) -> List.for_all sql_safe l
  | ANot x -> sql_safe x
  | AOp (op, l, r) -> List.mem (string_of_chars op) cmp_ops && sql_safe l && sql_safe r
  | AIn (x, l) -> sql_safe x && List.for_all sql_safe l
  | ABetween (x, lo, hi) -> sql_safe x && sql_safe lo && sql_safe hi
  | ASimilar (x, p) -> sql_safe x && sql_safe p
  | ACol _ | AStr _ | ANum _ | AParam _ -> true
  | AUnary _ -> false
let rec sql_cols (a : ast) : string list =
  match a with
  | ACol c -> [string_of_chars c]
  | ABool (_, l) -> List.concat_map sql_cols l
  | ANot x | AUnary (_, x) -> sql_cols x
  | AOp (_, l, r) | ASimilar (l, r) -> sql_cols l @ sql_cols r
  | AIn (x, l) -> sql_cols x @ List.concat_map sql_cols l
  | ABetween (x, l, h) -> sql_cols x @ sql_cols l @ sql_cols h
  | _ -> []
let rec sql_strs (a : ast) : string list =
  match a with
  | AStr c -> [string_of_chars c]
  | ABool (_, l) -> List.concat_map sql_strs l
  | ANot x | AUnary (_, x) -> sql_strs x
  | AOp (_, l, r) | ASimilar (l, r) -> sql_strs l @ sql_strs r
  | AIn (x, l) -> sql_strs x @ List.concat_map sql_strs l
  | ABetween (x, l, h) -> sql_strs x @ sql_strs l @ sql_strs h
  | _ -> []
let rec sql_params (a : ast) : int =
  match a with
  | AParam _ -> 1
  | ABool (_, l) -> List.fold_left (fun n x -> n + sql_params x) 0 l
  | ANot x | AUnary (_, x) -> sql_params x
  | AOp (_, l, r) | ASimilar (l, r) -> sql_params l + sql_params r
  | AIn (x, l) -> sql_params x + List.fold_left (fun n x -> n + sql_params x) 0 l
  | ABetween (x, l, h) -> sql_params x + sql_params l + sql_params h
  | _ -> 0

let replace_all (s : string) (c : char) (by : string) : string =
  let b = Buffer.create (String.length s) in String.iter (fun x -> if x = c then Buffer.add_string b by else Buffer.add_char b x) s; Buffer.contents b

(* ? outside double-quoted identifiers and outside string constants -> $1, $2, ... (PostgreSQL has no ? token) *)
let number_placeholders_ml (s : string) : string * int =
  let b = Buffer.create (String.length s + 16) in
  let n = ref 0 and inq = ref false and ins = ref false in
  String.iter (fun c ->
    if c = '"' && not !ins then inq := not !inq;
    if c = '\'' && not !inq then ins := not !ins;
    if c = '?' && not !inq && not !ins then begin incr n; Buffer.add_string b ("$" ^ string_of_int !n) end else Buffer.add_char b c) s;
  (Buffer.contents b, !n)

(* texts the query's terminal tokens denote (fields and values), from the implementation's own token stream *)
let token_texts (toks_field : string) : string list * string list =
  let toks = List.filter_map (fun s -> try Some (parse_tok s) with _ -> None) (String.split_on_char ' ' toks_field) in
  let terms = List.filter (fun (t : token) -> List.mem t.typ [TLiteral; TQuoted; TRegexp]) toks in
  let plain = ref [] and pats = ref [] in
  List.iter (fun t -> match parse_literal orc t with
    | E (VStr s, Literal, _, _, _) -> plain := string_of_chars s :: !plain
    | E (VStr s, (Wild | Regexp), _, _, _) ->
        let raw = string_of_chars s in
        pats := raw :: replace_all (replace_all raw '*' "%") '?' "_" :: !pats
    | _ -> ()) terms;
  (!plain, !pats)

let check_sql (which : string) (x : qobs) input (sql : string) (nparams : int option) (kcls : (string * string) list) =
  checked "C02";
  if String.contains sql '\000' then fail "C02" (which ^ ":NUL-byte-in-the-SQL-text") input [("sql", sql)]
  else if not (valid_utf8 sql) then fail "C02" (which ^ ":SQL-text-is-not-valid-UTF-8") input [("sql", sql)];
  let (text, n) = match nparams with Some _ -> number_placeholders_ml sql | None -> (sql, 0) in
  match pg_read (chars_of_string text) with
  | None -> fail "C02" (which ^ ":not-one-boolean-expression-for-PostgreSQL") input [("sql", sql)]; None
  | Some a ->
      nontrivial "C02";
      if not (sql_safe a) then fail "C02" (which ^ ":construct-outside-the-allowed-set") input [("sql", sql)];
      let (plain, pats) = token_texts x.o.(0) in
      let fields = x.df :: plain @ pats in
      List.iter (fun c ->
        if not (List.mem c fields) then begin
          let cls = if List.exists (fun f -> String.length f > 63 && String.length c <= 63 && starts_with f c) fields then [("class", "K9")] else [] in
          fail "C02" (which ^ ":column-is-not-a-field-of-the-query") input ([("sql", sql); ("column", c)] @ cls)
        end) (sql_cols a);
      List.iter (fun s ->
        if not (List.mem s plain || List.mem s pats) then fail "C02" (which ^ ":string-constant-is-not-a-value-of-the-query") input [("sql", sql); ("constant", s)]) (sql_strs a);
      (match nparams with
       | Some k -> if sql_params a <> k || n <> k then fail "C02" (which ^ ":placeholders-as-read-by-PostgreSQL-differ-from-parameters") input ([("sql", sql); ("params", string_of_int k)] @ kcls)
       | None -> ());
      Some (sql_cols a)

(* ---------- C04 (a), (b): placeholders and parameters ---------- *)
let rec values_lr (e : expr) : value list =   (* the query's values in left-to-right order, as parameters: patterns translated, unbounded ends omitted, columns excluded *)
  match e with
  | E (l, op, r, _, _) ->
    (match op with
     | Literal -> (match l with VCol _ -> [] | VStr s when string_of_chars s = "*" -> [] | VNil -> [] | v -> [v])
     | Wild | Regexp -> (match l with VStr s when string_of_chars s = "*" -> [] | v -> [v])
     | Like ->
        let lv = values_v l in
        let rv = (match r with
          | VExp (E (VStr s, _, _, _, _)) ->
              let t = string_of_chars s in
              let is_re = String.length t >= 2 && t.[0] = '/' && t.[String.length t - 1] = '/' in
              [VStr (chars_of_string (if is_re then t else replace_all (replace_all t '*' "%") '?' "_"))]
          | v -> values_v v) in
        lv @ rv
     | _ -> values_v l @ values_v r)
and values_v (v : value) : value list =
  match v with
  | VExp e -> values_lr e
  | VList l -> List.concat_map values_lr l
  | VBound (a, b, _) -> values_v a @ values_v b
  | _ -> []

let check_params (x : qobs) input (e : expr) =
  let o = x.o in
  if not (is_bad o.(5)) && not (is_bad o.(6)) then begin
    checked "C04";
    let has_numeric_range_field = exists_node (fun n -> match n with E (VExp (E ((VInt _ | VFloat _), _, _, _, _)), Range, _, _, _) -> true | _ -> false) e in
    let has_quoted_star = exists_node (fun n -> match n with E (VStr s, Literal, _, _, _) -> string_of_chars s = "*" | _ -> false) e in
    let cls = if has_numeric_range_field then [("class", "K13")] else if has_quoted_star then [("class", "K6")] else [] in
    if eflag o.(5) = "|0" then begin
      nontrivial "C04";
      if eflag o.(6) <> "|0" then fail "C04" "inline-succeeds-but-parameterized-fails" input ([("inline", o.(5)); ("parameterized", o.(6))] @ cls)
    end;
    if eflag o.(6) = "|0" then begin
      match xtext o.(6) with
      | Some sql ->
          let ps = params_of o.(6) in
          let np = if ps = "" then 0 else List.length (String.split_on_char ',' ps) in
          if int_of_nat (qcnt false (chars_of_string sql)) <> np then
            fail "C04" "placeholder-count-differs-from-parameter-count" input ([("sql", sql); ("params", ps)] @ cls);
          let want = String.concat "," (List.map show_value (values_lr e)) in
          if want <> ps then fail "C04" "parameters-are-not-the-values-in-order" input ([("expected", want); ("params", ps); ("sql", sql)] @ cls)
      | None -> ()
    end
  end

(* ---------- C06: the tree re-derives the token sequence ---------- *)
let check_derivation (x : qobs) input (e : expr) =
  checked "C06"; nontrivial "C06";
  let toks = List.filter_map (fun s -> try Some (parse_tok s) with _ -> None) (String.split_on_char ' ' x.o.(0)) in
  let df = x.df in
  (* every term token is exactly one leaf, in order, with its typed value (number tokens after ~ and ^ become the node's number) *)
  let leaves = leaves_e e in
  let as_col (l : expr) = match l with E (VStr s, (Literal | Wild | Regexp), r, b, f) -> E (VCol s, Literal, r, b, f) | l -> l in
  let is_df_col (l : expr) = match l with E (VCol c, Literal, _, _, _) -> df <> "" && string_of_chars c = df | _ -> false in
  let is_num (l : expr) = match l with E ((VInt _ | VFloat _), Literal, _, _, _) -> true | _ -> false in
  (* prev = type of the last token that is not an opening parenthesis *)
  let rec matchup (ts : token list) (ls : expr list) (prev : toktype option) : string option =
    match ts with
    | [] -> if ls = [] then None else Some "tree-has-a-leaf-without-a-source-token"
    | t :: rest ->
      if List.mem t.typ [TLiteral; TQuoted; TRegexp] then begin
        let lit = parse_literal orc t in
        (* the number of a fuzzy / boost node is not a leaf *)
        if (prev = Some TTilde || prev = Some TCarrot) && is_num lit then matchup rest ls (Some t.typ) else
        match ls with
        | l :: ls' when l = lit -> matchup rest ls' (Some t.typ)
        | l :: l2 :: ls' when is_df_col l && l2 = lit -> matchup rest ls' (Some t.typ)   (* the injected default field, then the term *)
        | l :: ls' when l = as_col lit -> matchup rest ls' (Some t.typ)
        | l :: ls' when is_df_col l -> matchup ts ls' prev
        | _ -> Some "term-token-is-not-the-next-leaf"
      end else matchup rest ls (if t.typ = TLParen then prev else Some t.typ) in
  let df_occurs = df <> "" && List.exists (fun (t : token) -> match parse_literal orc t with E (VStr s, _, _, _, _) -> string_of_chars s = df | _ -> false)
                                     (List.filter (fun (t : token) -> List.mem t.typ [TLiteral; TQuoted; TRegexp]) toks) in
  (match (if df_occurs then None else matchup toks leaves None) with
   | Some why -> fail "C06" why input [("tree", show_expr e); ("tokens", x.o.(0))]
   | None -> ());
  (* operator tokens are consumed by nodes of the matching kind: counts per kind *)
  let count_tok ty = List.length (List.filter (fun (t : token) -> t.typ = ty) toks) in
  let rec count_op p (e : expr) : int = (if p e then 1 else 0) + (match e with E (l, _, r, _, _) -> cv p l + cv p r)
  and cv p v = match v with VExp e -> count_op p e | VList l -> List.fold_left (fun n x -> n + count_op p x) 0 l | VBound (a, b, _) -> cv p a + cv p b | _ -> 0 in
  let opn o = count_op (fun e -> match e with E (_, op, _, _, _) -> op = o) e in
  let chk name toks_n nodes_n = if toks_n <> nodes_n then fail "C06" ("operator-tokens-vs-nodes:" ^ name) input [("tokens", string_of_int toks_n); ("nodes", string_of_int nodes_n); ("tree", show_expr e)] in
  chk "OR" (count_tok TOr) (opn Or + (* value lists absorb their ORs *) count_op (fun e -> false) e +
            (let rec lists (e : expr) = (match e with E (VList l, List, _, _, _) -> List.length l - 1 | _ -> 0) + (match e with E (l, _, r, _, _) -> lv l + lv r)
             and lv v = match v with VExp e -> lists e | VList l -> List.fold_left (fun n x -> n + lists x) 0 l | VBound (a, b, _) -> lv a + lv b | _ -> 0 in lists e));
  chk "NOT" (count_tok TNot) (opn Not);
  chk "+" (count_tok TPlus) (opn Must);
  chk "-" (count_tok TMinus) (opn MustNot);
  chk "~" (count_tok TTilde) (opn Fuzzy);
  chk "^" (count_tok TCarrot) (opn Boost);
  chk "TO" (count_tok TTO) (opn Range);
  chk "[{" (count_tok TLSquare + count_tok TLCurly) (opn Range);
  chk "]}" (count_tok TRSquare + count_tok TRCurly) (opn Range);
  if count_tok TLParen <> count_tok TRParen then fail "C06" "unbalanced-parentheses-accepted" input [("tokens", x.o.(0))];
  let cmps = opn Greater + opn Less + opn GreaterEq + opn LessEq in
  chk "< >" (count_tok TGreater + count_tok TLess) cmps;
  if df = "" then
    chk ": =" (count_tok TColon + count_tok TEqual) (opn Equals + opn Like + opn In + opn Range + cmps + opn GreaterEq + opn LessEq);
  if not (wf true e) then fail "C06" "not-a-derivation:field-position-or-range-bound-is-not-a-term-or-a-node-has-the-wrong-arity" input [("tree", show_expr e)];
  if count_tok TErr > 0 then fail "C06" "text-with-a-lexical-error-accepted-as-a-query" input [("tokens", x.o.(0)); ("tree", show_expr e)];
  (* explicit AND tokens are a lower bound for AND nodes (juxtaposition adds more) *)
  if count_tok TAnd > opn And then fail "C06" "operator-tokens-vs-nodes:AND" input [("tree", show_expr e)]


(* ---------- C03 / C04(c): query semantics vs SQL semantics on probe rows (Spec/QuerySem.v, Spec/SqlSem.v, extracted) ---------- *)
let rv_show (v : rval) : string =
  match v with
  | RStr s -> "'" ^ string_of_chars s ^ "'"
  | RNum q -> Printf.sprintf "%s/%s" (bits q.qnum) (bits (Zpos q.qden))

(* the constants each field is compared with, and the wildcard patterns it is matched against *)
let rec field_consts (e : expr) : (string * [ `C of rval | `P of string ]) list =
  let f_of v = match field_of v with Some f -> Some (string_of_chars f) | None -> None in
  let leaf f v = match v with
    | VExp (E (VStr p, Wild, _, _, _)) -> if string_of_chars p = "*" then [] else [ (f, `P (string_of_chars p)) ]
    | VExp lf -> (match leaf_const lf with Some c -> [ (f, `C c) ] | None -> [])
    | _ -> [] in
  match e with
  | E (l, op, r, _, _) ->
    (match op with
     | And | Or -> (match l, r with VExp a, VExp b -> field_consts a @ field_consts b | _ -> [])
     | Not | MustNot | Must -> (match l with VExp a -> field_consts a | _ -> [])
     | Equals | Greater | Less | GreaterEq | LessEq | Like -> (match f_of l with Some f -> leaf f r | None -> [])
     | In -> (match f_of l, r with Some f, VExp (E (VList lits, _, _, _, _)) -> List.concat_map (fun x -> leaf f (VExp x)) lits | _ -> [])
     | Range -> (match f_of l, r with Some f, VBound (a, b, _) -> leaf f a @ leaf f b | _ -> [])
     | _ -> [])

let instantiate (p : string) (star : string) (q : string) : string =
  let b = Buffer.create 16 in
  String.iter (fun c -> if c = '*' then Buffer.add_string b star else if c = '?' then Buffer.add_string b q else Buffer.add_char b c) p;
  Buffer.contents b

let string_probes (consts : string list) (pats : string list) : string list =
  let bump_last s = if s = "" then "a" else String.sub s 0 (String.length s - 1) ^ String.make 1 (Char.chr (min 255 (Char.code s.[String.length s - 1] + 1))) in
  let from_const s = [ s; s ^ " "; s ^ "z"; bump_last s; (if s = "" then "" else String.sub s 0 (String.length s - 1)) ] in
  let from_pat p = [ instantiate p "" "z"; instantiate p "xy" "z"; instantiate p "" ""; "q" ^ instantiate p "" "z"; instantiate p "x" "zz"; p;
                     instantiate p "%" "_"; instantiate p "" "z" ^ "w" ] in
  List.sort_uniq compare ("" :: "m" :: List.concat_map from_const consts @ List.concat_map from_pat pats)

let mk_rows (e : expr) : ((string * rval) list list) option =
  let fc = field_consts e in
  let fields = List.sort_uniq compare (List.map fst fc) in
  let per_field f =
    let cs = List.filter_map (fun (g, x) -> if g = f then Some x else None) fc in
    (* a field with very many constants (a long value list): probes from a spread subset of them - first, last and a stride *)
    let cs = let n = List.length cs in
      if n <= 96 then cs else List.filteri (fun i _ -> i < 24 || i >= n - 24 || i mod (n / 48 + 1) = 0) cs in
    let nums = List.filter_map (function `C (RNum q) -> Some q | _ -> None) cs in
    let strs = List.filter_map (function `C (RStr s) -> Some (string_of_chars s) | _ -> None) cs in
    let pats = List.filter_map (function `P p -> Some p | _ -> None) cs in
    if nums <> [] && (strs <> [] || pats <> []) then None       (* a field compared with both kinds: outside the quantifier *)
    else if nums <> [] then Some (List.map (fun q -> (f, RNum q)) (num_probes nums))
    else Some (List.map (fun s -> (f, RStr (chars_of_string s))) (string_probes strs pats)) in
  let cols = List.map per_field fields in
  if List.exists (fun c -> c = None) cols || fields = [] then None else begin
    let cols = List.map (function Some c -> c | None -> []) cols in
    (* cartesian product, capped: beyond the cap take a deterministic stride through the product *)
    let total = List.fold_left (fun n c -> if n > 1_000_000_000 then n else n * List.length c) 1 cols in   (* saturating *)
    (* 300 rows; fewer for trees with very many constants (evaluating a row costs their number, squared for placeholders) *)
    let cap = max 8 (min 300 (10000 / (1 + List.length fc))) in
    let pick i = (* i-th row of the product *)
      let rec go i cols = match cols with [] -> [] | c :: rest -> let k = List.length c in List.nth c (i mod k) :: go (i / k) rest in go i cols in
    if total <= cap then Some (List.init total pick)
    else if List.length cols <= 6 then Some (List.init cap (fun j -> pick ((j * 7919 + j / 3) mod total)))
    else (* many fields: an independent deterministic choice per field and row *)
      Some (List.init cap (fun j -> List.mapi (fun ci c -> List.nth c ((j * 7919 + ci * 104729 + j * ci + j / 3) mod List.length c)) cols))
  end

let row_of (l : (string * rval) list) : row = fun f -> List.assoc_opt (string_of_chars f) l
let show_row l = String.concat ", " (List.map (fun (f, v) -> f ^ "=" ^ rv_show v) l)

let rval_of_param (s : string) : rval option =   (* observer format: i<dec> f<bits> s<hex> *)
  if s = "" then None else
  match s.[0] with
  | 'i' -> Some (RNum { qnum = z_of_int64 (Int64.of_string (String.sub s 1 (String.length s - 1))); qden = XH })
  | 'f' -> (match q_of_float_bits (z_of_int64 (Int64.of_string (String.sub s 1 (String.length s - 1)))) with Some q -> Some (RNum q) | None -> None)
  | 's' -> Some (RStr (unhex (String.sub s 1 (String.length s - 1))))
  | _ -> None

(* classes of the known findings of C03/C04, from the shape of the tree *)
let sem_class (e : expr) (sql : string) : string =
  let str_leaf v = match v with VExp (E (VStr _, Literal, _, _, _)) -> true | _ -> false in
  let num_leaf v = match v with VExp (E ((VInt _ | VFloat _), Literal, _, _, _)) -> true | _ -> false in
  let float_leaf v = match v with VExp (E (VFloat _, Literal, _, _, _)) -> true | _ -> false in
  (* K3 is about float ranges whose bounds the inline form cannot hold: more than two decimals (0.125 is written 0.12), or an integer beyond 2^53 next to a float bound; other float ranges are not of the class *)
  let two_decimals v = match v with
    | VExp (E (VFloat f, Literal, _, _, _)) ->
        (match q_of_float_bits f with
         | Some q -> Z.eqb (Z.modulo (Z.mul (z_of_int64 100L) q.qnum) (Zpos q.qden)) Z0
         | None -> false)
    | VExp (E (VInt z, Literal, _, _, _)) -> (* next to a float bound an integer goes through float64: exact up to 2^53 *)
        z_in_int64 z && Int64.abs (int64_of_z z) <= 9007199254740992L
    | _ -> true in
  let star v = is_star v in
  let has p = exists_node p e in
  let qstar v = match v with VExp (E (VStr s, Literal, _, _, _)) -> string_of_chars s = "*" | _ -> false in
  let comma v = match v with VExp (E (VStr s, Literal, _, _, _)) -> String.contains (string_of_chars s) ',' | _ -> false in
  if has (fun n -> match n with E (VCol c, _, _, _, _) -> List.length c > 63 | _ -> false) then "K9"
  else if has (fun n -> match n with E (_, Range, VBound (a, b, _), _, _) -> star a && star b | _ -> false) then "K4"
  else if has (fun n -> match n with E (_, Range, VBound (a, b, _), _, _) -> comma a || comma b | _ -> false) then "K5"
  else if has (fun n -> match n with E (_, Range, VBound (a, b, _), _, _) -> qstar a || qstar b | E (VStr s, Literal, _, _, _) -> string_of_chars s = "*" | _ -> false) then "K6"
  else if has (fun n -> match n with E (_, Range, VBound (a, b, _), _, _) -> (star a && str_leaf b) || (str_leaf a && star b) | _ -> false) then "K2"
  else if has (fun n -> match n with E (_, Range, VBound (a, b, false), _, _) -> (str_leaf a || str_leaf b) | _ -> false) then "K1"
  else if has (fun n -> match n with E (_, Range, VBound (a, b, _), _, _) -> ((float_leaf a || float_leaf b) && not (two_decimals a && two_decimals b)) || (num_leaf a && str_leaf b) || (str_leaf a && num_leaf b) | _ -> false) then "K3"
  else if contains sql " SIMILAR TO " && has (fun n -> match n with E (VStr p, Wild, _, _, _) -> List.exists (fun c -> String.contains (string_of_chars p) c) ['_'; '%'; '|'; '+'; '('; ')'; '['; ']'; '{'; '}'; '\\'] | _ -> false) then "K11"
  else ""

(* decimals Go represents exactly as written: the text %v prints denotes the same rational as the float64 *)
let exact_floats (e : expr) : bool =
  List.for_all (fun l -> match l with
    | E (VFloat f, _, _, _, _) ->
        (match q_of_float_bits f, q_of_decimal (orc2.fmt_v f) with
         | Some a, Some b -> q_eq a b
         | Some a, None -> (* negative: strip the sign *)
             (match orc2.fmt_v f with '-' :: t -> (match q_of_decimal t with Some b -> q_eq a { qnum = (match b.qnum with Zpos p -> Zneg p | z -> z); qden = b.qden } | None -> false) | _ -> false)
         | _ -> false)
    | _ -> true) (leaves_e e)

let check_semantics (x : qobs) input (e : expr) =
  let o = x.o in
  let renderable_text = List.for_all (fun l -> match l with
      | E (VCol c, _, _, _, _) -> let s = string_of_chars c in s <> "" && not (String.contains s '"') && valid_utf8 s && not (String.contains s '\000')
      | E (VStr c, _, _, _, _) -> let s = string_of_chars c in valid_utf8 s && not (String.contains s '\000')
      | _ -> true) (leaves_e e) in
  if not (exact_floats e) || not renderable_text then () else
  match mk_rows e with
  | None -> ()
  | Some rows ->
    (* inside the fragment? decided by the query semantics on the first row *)
    (match rows with
     | [] -> ()
     | r0 :: _ ->
       if qsem (row_of r0) e <> None then begin
         checked "C03";
         let cls = let c = sem_class e (match xtext o.(8) with Some s -> s | None -> "") in if c = "" then [] else [ ("class", c) ] in
         if is_bad o.(8) then () else
         if eflag o.(8) <> "|0" then fail "C03" "ToPostgres-fails-on-a-query-of-the-fragment" input cls
         else match xtext o.(8) with
           | None -> ()
           | Some sql ->
             (match pg_read (chars_of_string sql) with
              | None ->
                fail "C03" "SQL-not-readable-by-the-PostgreSQL-model" input ([ ("sql", sql) ] @ cls);
                (* C04 (c): an inline text that is no expression is equivalent to nothing - while the parameterized text is one *)
                if not (is_bad o.(9)) && eflag o.(9) = "|0" then
                  (match xtext o.(9) with
                   | Some psql ->
                     let (numbered, _) = number_placeholders_ml psql in
                     if pg_read (chars_of_string numbered) <> None then
                       fail "C04" "inline-SQL-is-no-expression-while-the-parameterized-SQL-is" input ([ ("inline", sql); ("parameterized", psql) ] @ cls)
                   | None -> ())
              | Some a ->
                nontrivial "C03";
                let bad = ref None in
                List.iter (fun r ->
                  if !bad = None then begin
                    let q = qsem (row_of r) e and s = ssem (row_of r) [] a in
                    if q <> None && s <> q then bad := Some (r, q, s)
                  end) rows;
                bump ~by:(List.length rows) "c03.rows";
                (match !bad with
                 | Some (r, q, s) ->
                   let sb = function Some true -> "true" | Some false -> "false" | None -> "not-evaluable" in
                   fail "C03" "SQL-selects-different-rows-than-the-query" input
                     ([ ("sql", sql); ("row", show_row r); ("query_says", sb q); ("sql_says", sb s) ] @ cls)
                 | None -> ());
                (* C04 (c): the parameterized SQL with its parameters bound is equivalent to the inline SQL *)
                if not (is_bad o.(9)) && eflag o.(9) = "|0" then begin
                  match xtext o.(9) with
                  | Some psql ->
                    let (numbered, _) = number_placeholders_ml psql in
                    let ps = List.filter_map rval_of_param (String.split_on_char ',' (params_of o.(9))) in
                    (match pg_read (chars_of_string numbered) with
                     | Some pa ->
                       bump "c04.sem";
                       let badp = ref None in
                       List.iter (fun r ->
                         if !badp = None then begin
                           let si = ssem (row_of r) [] a and sp = ssem (row_of r) ps pa in
                           if si <> sp then badp := Some (r, si, sp)
                         end) rows;
                       (match !badp with
                        | Some (r, si, sp) ->
                          let sb = function Some true -> "true" | Some false -> "false" | None -> "not-evaluable" in
                          fail "C04" "parameterized-SQL-not-equivalent-to-inline-SQL" input
                            ([ ("inline", sql); ("parameterized", psql); ("params", params_of o.(9)); ("row", show_row r); ("inline_says", sb si); ("parameterized_says", sb sp) ] @ cls)
                        | None -> ())
                     | None -> ())
                  | None -> ()
                end)
       end)

(* ---------------------------------------------------------------------------------------------------------- *)
(* the tie between Spec/SqlFrag.tr (the token sequence the C02/C03 grammar and semantics theorems are about) and the renderer:
   PostgreSQL's scanner model on the implementation's inline SQL text gives exactly the tokens tr predicts for the returned tree.
   Column names over 63 bytes are truncated by the scanner (known finding K9): not compared. *)
let check_sqltoks (x : qobs) input (e : expr) =
  let o = x.o in
  if not (is_bad o.(8)) && eflag o.(8) = "|0" then
    match tr e, xtext o.(8) with
    | Some (ts, _), Some sql ->
        bump "c03.tr"; if side e then bump "c03.tr_and_side";
        if side e && text_ok e && names_ok e then bump "c03.all_premises_of_the_end_to_end_theorem";
        let long_name = exists_node (fun n -> match n with E (VCol c, _, _, _, _) -> List.length c > 63 | _ -> false) e in
        if not long_name then begin
          bump "corr.SqlToks";
          if pg_lex (chars_of_string sql) <> ts then record_mismatch "SqlToks" (input @ [("sql", sql)])
        end
    | _ -> ()

(* the same tie for the parameterized text (Spec/SqlFragP.trp, C04 (c)): the scanner model on the implementation's text with its ?
   numbered $1, $2, ... gives the tokens trp predicts, and the returned parameters are the ones trp lists *)
let check_sqltoks_param (x : qobs) input (e : expr) =
  let o = x.o in
  if not (is_bad o.(9)) && eflag o.(9) = "|0" then
    match trp e (S O), xtext o.(9) with
    | Some ((ts, _), ps), Some sql ->
        bump "c04.trp"; if side e then bump "c04.trp_and_side";
        let long_name = exists_node (fun n -> match n with E (VCol c, _, _, _, _) -> List.length c > 63 | _ -> false) e in
        if not long_name then begin
          bump "corr.SqlToksP";
          (* the numbering is the specification's own (Spec/SqlFragP.number_placeholders, extracted): the function the C04 theorems are about *)
          let shown = String.concat "," (List.map show_value ps) in
          if pg_lex (number_placeholders (chars_of_string sql)) <> ts || shown <> params_of o.(9) then
            record_mismatch "SqlToksP" (input @ [("sql", sql); ("params", params_of o.(9)); ("expected_params", shown)])
        end
    | _ -> ()

let check_single (x : qobs) input =
  let o = x.o in
  (* ---- C01: no panic, no hang, no %! ---- *)
  checked "C01";
  let names = [| "Lex"; "Parse"; "Validate"; "String"; "GoString"; "Render"; "RenderParam"; "Marshal"; "ToPostgres"; "ToParameterizedPostgres" |] in
  for i = 0 to 9 do
    if is_bad o.(i) then fail "C01" ("no-panic-no-hang:" ^ names.(i)) input [("observed", o.(i))]
  done;
  let unescaped = String.concat "" (String.split_on_char '\\' x.q) in
  if not (contains unescaped "%!") then
    List.iter (fun i -> match xtext o.(i) with
      | Some t when contains t "%!" -> fail "C01" ("format-marker:" ^ names.(i)) input [("observed", t)]
      | _ -> ()) [3; 4];
  (* ---- C10: all-or-nothing ---- *)
  checked "C10";
  let p = o.(1) in
  let tree = tree_of_parse p in
  if not (is_bad p) then begin
    (match tree with
     | Some _ -> ()
     | None -> if p <> "nil|1" then fail "C10" "parse-result-shape" input [("observed", p)]);
    (match tree with
     | Some t ->
         nontrivial "C10";
         if o.(2) <> "ok" then fail "C10" "returned-tree-fails-Validate" input [("tree", t)];
         (match (try Some (parse_tree t) with Unmodelled _ -> None) with
          | Some e -> if not (wf true e) then fail "C10" "returned-tree-fails-shape-check" input [("tree", t)]
          | None -> fail "C10" "returned-tree-has-unknown-value-kind" input [("tree", t)])
     | None -> ());
    (match xtext o.(8) with
     | Some s -> if not ((s <> "" && eflag o.(8) = "|0") || (s = "" && eflag o.(8) = "|1")) then fail "C10" "ToPostgres-result-shape" input [("observed", s); ("err", eflag o.(8))]
     | None -> ());
    (match xtext o.(9) with
     | Some s -> if eflag o.(9) = "|1" && s <> "" then fail "C10" "ToParameterizedPostgres-sql-with-error" input [("observed", s)]
     | None -> ())
  end;
  (* ---- relations between calls of the public API on this input, decided by the observer (last field): DIFF:<property>:<what> ---- *)
  (if Array.length o > 19 then begin
     let a = o.(19) in
     if String.length a > 9 && String.sub a 0 5 = "DIFF:" then
       fail (String.sub a 5 3) (String.sub a 9 (String.length a - 9)) input []
     else if is_bad a then fail "C01" "no-panic-no-hang:api-relations" input [("observed", a)]
     else if a = "ok" then bump "api.relations"
   end);
  (* ---- C02, C04, C06 on the returned tree / SQL texts ---- *)
  (match tree with
   | Some t ->
       (match (try Some (parse_tree t) with Unmodelled _ -> None) with
        | Some e -> check_params x input e; check_derivation x input e; check_sqltoks x input e; check_sqltoks_param x input e;
            (* the meaning of the query text is its parse by the model (Parse of the specification), not the implementation's own tree *)
            check_semantics x input (match x.mtree with Some m -> m | None -> e)
        | None -> ())
   | None -> ());
  let kcls = match tree with
    | Some t -> (match (try Some (parse_tree t) with Unmodelled _ -> None) with
        | Some e when exists_node (fun n -> match n with E (VExp (E ((VInt _ | VFloat _), _, _, _, _)), Range, _, _, _) -> true | _ -> false) e -> [("class", "K13")]
        | _ -> [])
    | None -> [] in
  let cols_inline = (if not (is_bad o.(8)) && eflag o.(8) = "|0" then match xtext o.(8) with Some sql -> check_sql "inline" x input sql None kcls | None -> None else None) in
  let cols_param = (if not (is_bad o.(9)) && eflag o.(9) = "|0" then match xtext o.(9) with
     | Some sql -> let ps = params_of o.(9) in check_sql "parameterized" x input sql (Some (if ps = "" then 0 else List.length (String.split_on_char ',' ps))) kcls
     | None -> None else None) in
  (* C04: the two renderings name the same set of columns (as PostgreSQL reads the identifiers) *)
  (* when PostgreSQL's model cannot read one of the two texts, the quoted identifiers are read off the texts themselves *)
  let idents (sql : string) : string list =
    let out = ref [] and b = Buffer.create 16 and inq = ref false and ins = ref false in
    String.iter (fun c ->
      if c = '\'' && not !inq then ins := not !ins
      else if c = '"' && not !ins then begin
        if !inq then (out := Buffer.contents b :: !out; Buffer.clear b);
        inq := not !inq end
      else if !inq then Buffer.add_char b c) sql;
    List.sort_uniq compare !out in
  (match cols_inline, cols_param with
   | _ when (cols_inline = None || cols_param = None) && not (is_bad o.(8)) && not (is_bad o.(9)) && eflag o.(8) = "|0" && eflag o.(9) = "|0" ->
       (match xtext o.(8), xtext o.(9) with
        | Some s1, Some s2 ->
            bump "c04.cols-by-text";
            if idents s1 <> idents s2 then fail "C04" "columns-differ-between-inline-and-parameterized" input ([("inline", s1); ("parameterized", s2)] @ kcls)
        | _ -> ())
   | Some a, Some b -> bump "c04.cols"; let a = List.sort_uniq compare a and b = List.sort_uniq compare b in if a <> b then fail "C04" "columns-differ-between-inline-and-parameterized" input ([("inline", String.concat "," a); ("parameterized", String.concat "," b)] @ kcls)
   | _ -> ());
  (* ---- C16 (last clause): a character that cannot start a token, an unterminated quote or regexp make Parse fail.
     Whether the input has one is decided by the specification's lexer (Model/Lex.v, for which C16's theorems hold), and by
     the implementation's own token stream ---- *)
  let toks = String.split_on_char ' ' o.(0) in
  let impl_err = (match List.rev toks with last :: _ -> starts_with last (string_of_int terr_num ^ ":") | [] -> false) in
  let model_err = (match List.rev (lex_tokens cls (chars_of_string x.q)) with t :: _ -> t.typ = TErr | [] -> false) in
  if impl_err || model_err then begin
    checked "C16"; nontrivial "C16";
    if tree <> None then fail "C16" "lexical-error-but-Parse-succeeds" input [("observed", p); ("tokens", o.(0))]
  end;
  (* ---- C15 (last clause): a fuzzy or boost operator anywhere in the query => both SQL entry points fail.
     "Contains one" is read off the query text (a ~ or ^ token of the specification's lexer, or a FUZZY/BOOST node of the
     specification's parse), not off the implementation's own tree ---- *)
  (match tree with
   | Some _ ->
       let mtoks = lex_tokens cls (chars_of_string x.q) in
       let by_tokens = List.exists (fun (t : token) -> t.typ = TTilde || t.typ = TCarrot) mtoks in
       let by_tree = (match x.mtree with Some m -> has_fb m | None -> false) in
       if by_tokens || by_tree then begin
         checked "C15"; nontrivial "C15";
         if eflag o.(8) <> "|1" && not (is_bad o.(8)) then fail "C15" "fuzzy-or-boost-but-ToPostgres-succeeds" input [("observed", o.(8))];
         if eflag o.(9) <> "|1" && not (is_bad o.(9)) then fail "C15" "fuzzy-or-boost-but-ToParameterizedPostgres-succeeds" input [("observed", o.(9))]
       end
   | None -> ());
  (* ---- C12: JSON round trip of every tree Parse returns for a valid UTF-8 query ---- *)
  (match tree with
   | Some t when valid_utf8 x.q && valid_utf8 x.df ->
       checked "C12";
       let e = (try Some (parse_tree t) with Unmodelled _ -> None) in
       let cls = match e with Some e when has_int_valued_float e -> [("class", "K12")] | _ -> [] in
       let f clause extra = fail "C12" clause input (extra @ cls) in
       if o.(7) = "ERR" || is_bad o.(7) then f "encode-fails" [("observed", o.(7))]
       else begin
         nontrivial "C12";
         if o.(10) = "ERR" || is_bad o.(10) || o.(10) = "MERR" then f "decode-fails" [("observed", o.(10)); ("json", match xtext o.(7) with Some s -> s | None -> "")]
         else begin
           if o.(11) <> "ok" then f "decoded-fails-Validate" [("decoded", o.(10))];
           if o.(17) <> o.(7) then f "re-encoding-differs" [("first", o.(7)); ("second", o.(17))];
           if o.(13) <> o.(3) then f "String-differs" [("before", o.(3)); ("after", o.(13))];
           if o.(15) <> o.(5) then f "inline-SQL-differs" [("before", o.(5)); ("after", o.(15))];
           if o.(16) <> o.(6) then
             (let sql s = match xtext s with Some t -> t | None -> s in
              if sql o.(16) <> sql o.(6) then f "parameterized-SQL-differs" [("before", o.(6)); ("after", o.(16))]);
           (* deep equality: demanded for every tree the round-trip theorem speaks about (Spec/Inferable.ki_b), and for every tree
              outside the exceptions the property lists (a quoted string reading as a pattern / regexp, an integer-valued float) *)
           (match e with
            | Some e ->
                let inferable = ki_b orc orc2 e in
                if inferable then bump "c12.ki_b";
                if inferable || (not (has_kind_changing_string e) && not (has_int_valued_float e)) then begin
                  if o.(12) <> "deep-equal" || o.(10) <> t then f "not-deep-equal" [("before", t); ("after", o.(10)); ("ki_b", string_of_bool inferable)];
                  if not inferable then f "tree-outside-the-theorem-premise-yet-not-a-listed-exception" [("tree", t)]
                end
            | None -> ())
         end
       end
   | _ -> ());
  ()

(* ---------- relational checks over groups ---------- *)
let check_pair rel (a : qobs) (b : qobs) =
  let input = [("query_a", a.q); ("query_b", b.q); ("default_field_a", a.df); ("default_field_b", b.df);
               ("query_a_hex", hexs a.q); ("query_b_hex", hexs b.q)] in
  let pa = a.o.(1) and pb = b.o.(1) in
  if is_bad pa || is_bad pb then () else
  match rel with
  | "C07" ->
      checked "C07"; if tree_of_parse pa <> None then nontrivial "C07";
      if pa <> pb then fail "C07" "juxtaposition-differs-from-explicit-AND" input [("with_AND", pa); ("juxtaposed", pb)]
  | "C09ws" | "C09case" ->
      checked "C09"; if tree_of_parse pa <> None then nontrivial "C09";
      let cls = if rel = "C09ws" && (String.length a.q > 0 && a.q.[String.length a.q - 1] = '\\') then [("class", "K14")] else [] in
      if pa <> pb then fail "C09" (if rel = "C09ws" then "whitespace-variant-differs" else "keyword-case-variant-differs") input ([("original", pa); ("variant", pb)] @ cls)
  | "C09par" ->
      checked "C09";
      if tree_of_parse pa <> None then begin
        nontrivial "C09";
        (* K15: a term juxtaposed directly behind a closing parenthesis is rejected *)
        let rparen = typnum TRParen and lparen = typnum TLParen in
        let is_ty ty s = starts_with s (string_of_int ty ^ ":") in
        let is_term s = List.exists (fun ty -> is_ty (typnum ty) s) [TLiteral; TQuoted; TRegexp] in
        let rec paren_then_term l = match l with
          | a :: (b :: _ as rest) -> (is_ty rparen a && is_term b) || ((is_term a || is_ty rparen a) && is_ty lparen b) || paren_then_term rest
          | _ -> false in
        let cls = if pb = "nil|1" && paren_then_term (String.split_on_char ' ' b.o.(0)) then [("class", "K15")] else [] in
        if pa <> pb then fail "C09" "redundant-parentheses-change-the-result" input ([("original", pa); ("variant", pb)] @ cls)
      end
  | "C11" ->
      checked "C11";
      let f = b.df in
      if contains a.q f then () else begin
        match tree_of_parse pa with
        | None -> if tree_of_parse pb <> None then fail "C11" "accepted-only-with-default-field" input [("without", pa); ("with", pb)]
        | Some ta ->
            nontrivial "C11";
            (match tree_of_parse pb with
             | None -> fail "C11" "rejected-only-with-default-field" input [("without", pa); ("with", pb)]
             | Some tb ->
                 let ea = parse_tree ta in
                 let want = show_expr (scope (chars_of_string f) ea) in
                 if want <> tb then fail "C11" "result-is-not-the-scoped-tree" input [("without", ta); ("with", tb); ("expected", want)])
      end
  | "C04d" ->
      checked "C04";
      let sa = a.o.(9) and sb = b.o.(9) in
      if not (is_bad sa || is_bad sb) && eflag sa = "|0" && eflag sb = "|0" then begin
        nontrivial "C04";
        (* how many pairs meet the premise of C04_sql_text_independent_of_values (Spec/SameKind.sk_e) on the implementation's trees *)
        (match tree_of_parse pa, tree_of_parse pb with
         | Some ta, Some tb -> if String.length ta < 1000000 && sk_e (parse_tree ta) (parse_tree tb) then bump "c04d.sk_e"
         | _ -> ());
        if xtext sa <> xtext sb then begin
          let cls = if contains a.q "\"*\"" || contains b.q "\"*\"" then [("class", "K6")] else [] in
          fail "C04" "sql-text-depends-on-values" input ([("sql_a", (match xtext sa with Some s -> s | None -> "")); ("sql_b", (match xtext sb with Some s -> s | None -> ""))] @ cls)
        end
      end
  | _ -> ()

let check_rel (x : qobs) input =
  match tag_get x.tag "rel" with
  | Some "C05" ->
      (match tag_get x.tag "qt" with
       | Some qs ->
           let t = parse_qt qs in
           checked "C05"; nontrivial "C05";
           (* the generator's printer against the specification's printer, through the MODEL's lexer: token types, and texts of terminals *)
           let proj (l : token list) = List.filter_map (fun (t : token) -> if t.typ = TEOF then None else
             Some (typnum t.typ, if List.mem t.typ [TLiteral; TQuoted; TRegexp] then hex t.val0 else "")) l in
           let model_toks = lex_tokens cls (chars_of_string x.q) in
           if proj (pr t) <> proj model_toks then record_mismatch "generator-printer-vs-spec-printer" (input @ [("lexed", show_toks model_toks)])
           else begin
             let w = show_expr (want orc t) ^ "|0" in
             if x.o.(1) <> w && not (is_bad x.o.(1)) then fail "C05" "printed-tree-does-not-parse-back" input [("expected", w); ("observed", x.o.(1))]
           end
       | None -> ())
  | Some (("C07" | "C09ws" | "C09case" | "C09par" | "C11" | "C04d") as rel) ->
      (match tag_get x.tag "g", tag_get x.tag "role" with
       | Some g, Some "a" -> Hashtbl.replace pending (rel ^ "/" ^ g) x
       | Some g, Some "b" ->
           (match Hashtbl.find_opt pending (rel ^ "/" ^ g) with
            | Some a -> Hashtbl.remove pending (rel ^ "/" ^ g); extra_case := a.line; check_pair rel a x; extra_case := ""
            | None -> ())
       | _ -> ())
  | Some "C08t" ->
      (* a quoted value in a position that cannot be rendered (under ~ or ^) or needs no rendering to be judged: it is a plain
         string leaf of the tree, verbatim, never re-typed from its text *)
      (match tag_get x.tag "w" with
       | Some wh ->
           let w = unhexs wh in
           if valid_utf8 w && not (is_bad x.o.(1)) then begin
             checked "C08"; nontrivial "C08";
             (match tree_of_parse x.o.(1) with
              | None -> fail "C08" "quoted-value-in-context-rejected" input []
              | Some t ->
                  let e = parse_tree t in
                  if not (List.exists (fun l -> match l with E (VStr s, Literal, _, _, _) -> string_of_chars s = w | _ -> false) (leaves_e e)) then
                    fail "C08" "quoted-value-not-verbatim-in-tree" input [("tree", t)])
           end
       | None -> ())
  | Some "C08c" ->
      (match tag_get x.tag "w" with
       | Some wh ->
           let w = unhexs wh in
           if valid_utf8 w && not (String.contains w '\000') && not (is_bad x.o.(1)) then begin
             checked "C08"; nontrivial "C08";
             let cls = if w = "*" then [("class", "K6")] else if String.contains w ',' then [("class", "K5")] else [] in
             (match tree_of_parse x.o.(1) with
              | None -> fail "C08" "quoted-value-in-context-rejected" input cls
              | Some t ->
                  let e = parse_tree t in
                  if not (List.exists (fun l -> match l with E (VStr s, Literal, _, _, _) -> string_of_chars s = w | _ -> false) (leaves_e e)) then
                    fail "C08" "quoted-value-not-verbatim-in-tree" input ([("tree", t)] @ cls);
                  (if not (is_bad x.o.(8)) then
                     if eflag x.o.(8) <> "|0" then fail "C08" "inline-rendering-fails" input cls
                     else match xtext x.o.(8) with
                       | Some sql ->
                           (match pg_read (chars_of_string sql) with
                            | Some a when List.mem w (sql_strs a) -> ()
                            | _ -> fail "C08" "value-not-verbatim-in-inline-SQL" input ([("sql", sql)] @ cls))
                       | None -> ());
                  (if not (is_bad x.o.(9)) then
                     if eflag x.o.(9) <> "|0" then fail "C08" "parameterized-rendering-fails" input cls
                     else if not (List.mem ("s" ^ wh) (String.split_on_char ',' (params_of x.o.(9)))) then
                       fail "C08" "value-not-verbatim-in-parameter-list" input ([("observed", x.o.(9))] @ cls)))
           end
       | None -> ())
  | Some "C08q" | Some "C08e" ->
      let quoting = tag_get x.tag "rel" = Some "C08q" in
      (match tag_get x.tag "f", tag_get x.tag "w" with
       | Some fh, Some wh ->
           let f = unhexs fh and w = unhexs wh in
           let numeric = (not quoting) && (match parse_literal orc { typ = TLiteral; val0 = chars_of_string w } with E ((VInt _ | VFloat _), _, _, _, _) -> true | _ -> false) in
           (* the generator's escaped spelling against the specification's (Spec/Escape.esc, the function the theorems
              C08_*_any_script are about), with the oracle's letter and digit classes; a keyword gets one more backslash from
              the generator and is outside the theorems' premise *)
           (if not quoting && w <> "" && valid_utf8 w then begin
              let sp = string_of_chars (esc cls (chars_of_string w)) in
              let kwd = List.mem (String.uppercase_ascii sp) ["AND"; "OR"; "NOT"; "TO"] in
              bump "C08e.spelling_tie";
              if not kwd && x.q <> f ^ ":" ^ sp then record_mismatch "generator-escape-vs-spec-escape" (input @ [("spec", f ^ ":" ^ sp)])
            end);
           if (quoting && not (String.contains w '"')) || (not quoting && w <> "" && not numeric) then begin
             checked "C08"; nontrivial "C08";
             let cls =
               if quoting && w = "*" then [("class", "K6")]
               else if (not quoting) && (String.contains w '*' || String.contains w '?' || String.contains w '\\') then [("class", "K7")]
               else [] in
             let leaf = E (VStr (chars_of_string w), Literal, VNil, one_bits, Zpos XH) in
             let col = E (VCol (chars_of_string f), Literal, VNil, one_bits, Zpos XH) in
             let want = show_expr (E (VExp col, Equals, VExp leaf, one_bits, Zpos XH)) ^ "|0" in
             if not (is_bad x.o.(1)) && x.o.(1) <> want then
               fail "C08" (if quoting then "quoted-value-not-verbatim-in-tree" else "escaped-value-not-verbatim-in-tree") input ([("expected", want); ("observed", x.o.(1))] @ cls)
             else if x.o.(1) = want then begin
               (* the parameter list *)
               (if not (is_bad x.o.(9)) && eflag x.o.(9) = "|0" && params_of x.o.(9) <> "s" ^ wh then
                  fail "C08" "value-not-verbatim-in-parameter-list" input ([("observed", x.o.(9))] @ cls));
               (* the inline SQL constant as PostgreSQL decodes it *)
               (if not (is_bad x.o.(8)) && eflag x.o.(8) = "|0" then
                  match xtext x.o.(8) with
                  | Some sql ->
                      (match pg_read (chars_of_string sql) with
                       | Some (AOp (op, ACol c, AStr s)) when string_of_chars op = "=" && string_of_chars c = f && string_of_chars s = w -> ()
                       | _ -> fail "C08" "value-not-verbatim-in-inline-SQL" input ([("sql", sql)] @ cls))
                  | None -> ());
               (* valid, NUL-free values must render *)
               if valid_utf8 w && not (String.contains w '\000') then begin
                 if eflag x.o.(8) <> "|0" && not (is_bad x.o.(8)) then fail "C08" "inline-rendering-fails" input cls;
                 if eflag x.o.(9) <> "|0" && not (is_bad x.o.(9)) then fail "C08" "parameterized-rendering-fails" input cls
               end
             end
           end
       | _ -> ())
  | _ -> ()

(* giant inputs (tag giant=1: value lists of 2^15 .. 2^17 elements): the clauses that can be decided on the observation texts
   alone, without running the model or the probe-row semantics (which are quadratic in the number of values) *)
let check_giant (x : qobs) input =
  let o = x.o in
  bump "giant.lines";
  checked "C01";
  let names = [| "Lex"; "Parse"; "Validate"; "String"; "GoString"; "Render"; "RenderParam"; "Marshal"; "ToPostgres"; "ToParameterizedPostgres" |] in
  for i = 0 to 9 do
    if is_bad o.(i) then fail "C01" ("no-panic-no-hang:" ^ names.(i)) input [("observed", o.(i))]
  done;
  checked "C10";
  let p = o.(1) in
  if not (is_bad p) then begin
    if tree_of_parse p = None && p <> "nil|1" then fail "C10" "parse-result-shape" input [("observed", String.sub p 0 (min 200 (String.length p)))];
    if tree_of_parse p <> None then begin nontrivial "C10"; if o.(2) <> "ok" then fail "C10" "returned-tree-fails-Validate" input [] end;
    (match xtext o.(8) with
     | Some s -> if not ((s <> "" && eflag o.(8) = "|0") || (s = "" && eflag o.(8) = "|1")) then fail "C10" "ToPostgres-result-shape" input [("observed", String.sub s 0 (min 200 (String.length s))); ("err", eflag o.(8))]
     | None -> ());
    (match xtext o.(9) with
     | Some s -> if eflag o.(9) = "|1" && s <> "" then fail "C10" "ToParameterizedPostgres-sql-with-error" input [("observed", String.sub s 0 (min 200 (String.length s)))]
     | None -> ())
  end;
  (* C04: inline succeeded => parameterized succeeded; as many ? as parameters *)
  if not (is_bad o.(8)) && not (is_bad o.(9)) && eflag o.(8) = "|0" then begin
    checked "C04"; nontrivial "C04";
    if eflag o.(9) <> "|0" then fail "C04" "inline-succeeds-parameterized-fails" input []
    else match xtext o.(9) with
      | Some sql ->
          let (_, n) = number_placeholders_ml sql in
          let ps = params_of o.(9) in
          let k = if ps = "" then 0 else List.length (String.split_on_char ',' ps) in
          if n <> k then fail "C04" "placeholder-count-differs-from-parameter-count" input [("placeholders", string_of_int n); ("parameters", string_of_int k)]
      | None -> ()
  end

let check_q (x : qobs) input =
  if tag_get x.tag "giant" = Some "1" then check_giant x input else check_single x input;
  check_rel x input

let finish_groups () = bump ~by:(Hashtbl.length pending) "groups.unpaired"

(* ---------- C16: a token's type fits its text ---------- *)
let symbol_text : (int * string) list =
  List.map (fun (r, ty) -> (typnum ty, String.make 1 (Char.chr (int_of_n r)))) symbols @ [ (typnum TMinus, "-") ]
let token_type_fits (ty : int) (v : string) : bool =
  match List.assoc_opt ty symbol_text with
  | Some s -> v = s
  | None ->
    let up = String.uppercase_ascii v in
    if ty = typnum TAnd then up = "AND" else if ty = typnum TOr then up = "OR" else if ty = typnum TNot then up = "NOT" else if ty = typnum TTO then up = "TO"
    else if ty = typnum TQuoted then String.length v >= 2 && (v.[0] = '"' || v.[0] = '\'') && v.[String.length v - 1] = v.[0]
    else if ty = typnum TRegexp then String.length v >= 2 && v.[0] = '/' && v.[String.length v - 1] = '/'
    else if ty = typnum TLiteral then v <> "" && not (List.mem up [ "AND"; "OR"; "NOT"; "TO" ])
    else true

(* ---------- C16 on lexer scripts ---------- *)
let check_l (inp : string) (script : string) (obs : string) input =
  if is_bad obs then fail "C16" "lexer-panics-or-hangs" input [("observed", obs)] else begin
  checked "C16";
  let items = List.filter (fun s -> s <> "") (String.split_on_char ' ' obs) in
  let parse_item s = (* "N12:hex" *)
    let c = s.[0] in
    match String.split_on_char ':' (String.sub s 1 (String.length s - 1)) with
    | [n; h] -> (c, int_of_string n, unhexs h) | _ -> failwith "lex item" in
  let items = List.map parse_item items in
  List.iter (fun (_, ty, v) -> if ty <> terr_num && ty <> teof_num && not (token_type_fits ty v) then
    fail "C16" "token-type-does-not-fit-its-text" input [("observed", obs); ("token", v)]) items;
  (* segmentation over the Next calls *)
  let n = String.length inp in
  let pos = ref 0 and ended = ref false and ok = ref true and nexts = ref 0 in
  let skip () = while !pos < n && List.mem inp.[!pos] ws_chars do incr pos done in
  List.iter (fun (c, ty, v) ->
    if c = 'N' && !ok then begin
      incr nexts;
      if !ended then begin
        if ty <> teof_num then begin ok := false; fail "C16" "token-after-end-is-not-EOF" input [("observed", obs)] end
      end else if ty = teof_num then begin
        skip ();
        if !pos <> n then begin ok := false; fail "C16" "EOF-before-the-end-of-input" input [("observed", obs); ("position", string_of_int !pos)] end;
        ended := true
      end else if ty = terr_num then ended := true
      else begin
        skip ();
        let l = String.length v in
        if l = 0 then begin ok := false; fail "C16" "empty-token" input [("observed", obs)] end
        else if !pos + l <= n && String.sub inp !pos l = v then pos := !pos + l
        else begin ok := false; fail "C16" "token-text-is-not-the-next-piece-of-input" input [("observed", obs); ("position", string_of_int !pos)] end
      end
    end) items;
  if !ok && not !ended && !nexts >= n + 2 then fail "C16" "no-EOF-within-len+2-tokens" input [("observed", obs)];
  if !ended then nontrivial "C16";
  (* Peek returns the token the next read returns, and does not move the stream *)
  let rec peeks l = match l with
    | ('P', ty, v) :: (((_, ty2, v2) :: _) as rest) ->
        if (ty, v) <> (ty2, v2) then fail "C16" "Peek-differs-from-the-next-read" input [("observed", obs)] else peeks rest
    | _ :: rest -> peeks rest
    | [] -> () in
  peeks items
  end

(* ---------- C13 on untrusted JSON ---------- *)
let check_j (doc : string) (o : string array) input =
  checked "C13";
  if o.(0) = "INVALID" then begin
    if o.(1) <> "ERR" then fail "C13" "bytes-that-are-not-JSON" input [("observed", o.(1))]
  end else begin
    if is_bad o.(1) then fail "C13" "decoding-panics" input [("observed", o.(1))];
    if o.(2) = "ok" then begin
      nontrivial "C13";
      let names = [| "String"; "GoString"; "Render"; "RenderParam"; "Marshal" |] in
      for i = 0 to 4 do
        if is_bad o.(3 + i) then fail "C13" ("validated-document-panics:" ^ names.(i)) input [("decoded", o.(1))]
      done;
      (* drivers other than the stock one: a Base over a copy of Shared (README), the zero Base, the zero PostgresDriver *)
      Array.iteri (fun i nm -> if Array.length o > 8 + i && is_bad o.(8 + i) then fail "C13" ("validated-document-panics:" ^ nm) input [("decoded", o.(1))])
        [| "Render/RenderParam of a Base over a copy of Shared"; "Render/RenderParam of the zero Base"; "Render/RenderParam of the zero PostgresDriver" |]
    end
  end

(* ---------- C15 on custom drivers ---------- *)
let check_d (q : string) (spec : string) (o : string array) input =
  let e = parse_tree o.(0) in
  let rm = ref [] and ov = ref [] and em = ref [] in
  List.iter (fun part -> match String.split_on_char '=' part with
    | [k; v] when v <> "" -> List.iter (fun n -> if k = "rm" then rm := int_of_string n :: !rm else if k = "ov" then ov := int_of_string n :: !ov else if k = "em" then em := int_of_string n :: !em) (String.split_on_char ',' v)
    | _ -> ()) (String.split_on_char ';' spec);
  (* model run with the same (pure) tracing functions: Driver.render_tr, the fold the C15 theorems are about, returns the call log *)
  let fns (op : operator) =
    let k = opnum op in
    if List.mem k !rm || contains spec "nil=1" || contains spec "empty=1" then None
    else Some (fun (l : char list) (r : char list) ->
      let name = (if List.mem k !ov then "g" else "f") ^ string_of_int k in
      if List.mem k !em then Ret ([], None) else
      Ret (chars_of_string (name ^ "<" ^ string_of_chars l ^ "|" ^ string_of_chars r ^ ">"), None)) in
  let (m, mt) = match render_tr orc2 fns e with
    | Ret (x, tr) -> (m_sres (Ret x), String.concat " " (List.map (fun ((op, l), r) -> Printf.sprintf "%d:%s:%s" (opnum op) (hex l) (hex r)) tr))
    | Panic _ -> ("PANIC", "") in
  bump "corr.CustomRender";
  if m <> o.(1) then record_mismatch "CustomRender" (input @ [("go", o.(1)); ("model", m)])
  else if mt <> o.(2) then record_mismatch "CustomRenderTrace" (input @ [("go", o.(2)); ("model", mt)]);
  (* property: post-order fold, every node once; a missing function anywhere makes Render fail with no text *)
  checked "C15"; nontrivial "C15";
  if Array.length o > 3 && o.(3) <> "ok" then fail "C15" "drivers-share-state" input [("observed", o.(3))];
  if Array.length o > 4 && o.(4) <> "ok" then fail "C15" "function-registered-for-a-custom-operator-not-called-once-with-the-rendered-operands" input [("observed", o.(4))];
  if is_bad o.(1) then fail "C15" "custom-render-panics" input [("observed", o.(1))] else begin
    let rec post (e : expr) : int list = match e with E (l, op, r, _, _) -> postv l @ postv r @ [opnum op]
    and postv v = match v with VExp e -> post e | VList l -> List.concat_map post l | VBound (a, b, _) -> postv a @ postv b | _ -> [] in
    let nodes = post e in
    let miss = List.exists (fun k -> List.mem k !rm) nodes in
    let calls = List.filter_map (fun s -> match String.split_on_char ':' s with k :: _ when s <> "" -> Some (int_of_string k) | _ -> None) (String.split_on_char ' ' o.(2)) in
    if miss then begin
      if eflag o.(1) <> "|1" then fail "C15" "missing-function-but-Render-succeeds" input [("observed", o.(1))]
      else (match xtext o.(1) with Some s when s <> "" -> fail "C15" "error-with-partial-SQL" input [("observed", s)] | _ -> ())
    end else begin
      if eflag o.(1) = "|1" then () (* column-name errors etc. *)
      else begin
        if calls <> nodes then fail "C15" "calls-are-not-the-post-order-of-the-nodes" input [("calls", o.(2)); ("expected_ops", String.concat " " (List.map string_of_int nodes))];
        (* an overridden operator's function is used at exactly the nodes of that operator *)
        match xtext o.(1) with
        | Some s ->
            List.iter (fun k ->
              let cnt sub = let c = ref 0 in let m = String.length sub in
                for i = 0 to String.length s - m do if String.sub s i m = sub then incr c done; !c in
              let nk = List.length (List.filter (fun x -> x = k) nodes) in
              (* texts of user values may contain the marker too; only flag a shortfall *)
              if not (List.mem k !em) && not (List.exists (fun j -> List.mem j !em) nodes) && cnt (Printf.sprintf "g%d<" k) < nk then fail "C15" "override-not-applied-at-every-node-of-the-operator" input [("observed", s)]) !ov
        | None -> ()
      end
    end
  end
