(* C08 — Quoting and escaping deliver values verbatim.  (lexer and PostgreSQL-scanner halves) *)
Require Import Parser PgModel.
Require Lex.
Require LexQuote LexField LexEscape PgQuote PgIdent.
Require Import Render Printer QuotePipeline EscapePipeline.
Require Import QuerySem SqlSem SqlFrag SqlFragP SqlSucceeds QuoteE2E.
Require SqlQueryText Api LexWs LexWsG QuoteText LexEscapeU QuoteTextU EscapeBare.
From Coq Require Import List String Ascii NArith ZArith.
Import ListNotations.

(* the whole input  f:<dq>w<dq>  lexes to exactly [Literal f; Colon; Quoted <dq>w<dq>; EOF], for every byte string w without a double quote <dq>
   (any operators, keywords, digits, wildcards, slashes, backslashes, whitespace, any UTF-8 validity) and every ASCII word f that
   is not a keyword; oracle facts: the double quote and the colon are not letters or digits, the four whitespace runes are not alphanumeric *)
Theorem C08_quoted_value_is_one_token : forall cl : Lex.classes,
  Lex.is_letter cl 34%N = false /\ Lex.is_digit cl 34%N = false ->
  Lex.is_letter cl 58%N = false /\ Lex.is_digit cl 58%N = false ->
  (forall r, Lex.is_space r = true -> Lex.is_alnum cl r = false) ->
  forall (c0 : ascii) (f w : list ascii),
  forallb (LexField.wordc cl) (c0 :: f) = true -> Forall (fun c => c <> """"%char) w -> Lex.word_type (c0 :: f) = TLiteral ->
  Lex.lex cl ((c0 :: f) ++ ":"%char :: """"%char :: w ++ [""""%char]) =
  [ {| Lex.typ := TLiteral; Lex.val := c0 :: f |}; {| Lex.typ := TColon; Lex.val := [":"%char] |};
    {| Lex.typ := TQuoted; Lex.val := """"%char :: w ++ [""""%char] |}; Lex.eof_tok ].
Proof. exact LexField.lex_field_quoted. Qed.

(* PostgreSQL's scanner (model) reads  ' + doubled(v) + '  back as exactly the constant v, for every byte string v *)
Theorem C08_sql_constant_decodes_to_the_value : forall (v : bytes) (rest : list ascii),
  match rest with [] => True | c :: _ => Ascii.eqb c "'"%char = false end -> has_newline rest = false ->
  next ("'"%char :: PgQuote.double v ++ "'"%char :: rest) = Some (TStr v, rest).
Proof. exact PgQuote.sq_roundtrip. Qed.

(* from the tokens to the tree: the field f (a term token whose text is the plain word fs) and the quoted text w give the tree
   EQUALS(column fs, literal w): w is ONE string value equal to the text between the quotes, whatever it contains *)
Theorem C08_quoted_value_tree : forall (o : oracle) (ftok : token) (fs w : string),
  is_term_tok ftok = true -> parse_literal o ftok = lit (VStr fs) -> contains_char """"%char w = false ->
  parse_toks o "" [ftok; colon_tok; quoted w; eof] = PTree (E (VExp (lit (VCol fs))) Equals (VExp (lit (VStr w))) one_bits 1%Z).
Proof. exact quoted_value_tree. Qed.

(* from the tree to the inline SQL text: the quoted column, " = ", and the constant ' + w with every ' doubled + ' (valid UTF-8
   and NUL-free texts; the library refuses the others) ... *)
Theorem C08_quoted_value_inline_sql : forall (o2 : oracle2) (fs w : string),
  String.eqb fs "" = false -> contains_char """"%char fs = false ->
  valid_utf8 o2 (col_text fs) = true -> contains_char (ascii_of_nat 0) (col_text fs) = false ->
  valid_utf8 o2 (sql_text w) = true -> contains_char (ascii_of_nat 0) (sql_text w) = false ->
  render o2 (E (VExp (lit (VCol fs))) Equals (VExp (lit (VStr w))) one_bits 1%Z) = Ret ((col_text fs ++ " = " ++ sql_text w)%string, None).
Proof. exact quoted_value_inline. Qed.

(* ... and to the parameter list: the value itself, verbatim, as the only parameter (a lone star is known finding K6) *)
Theorem C08_quoted_value_parameter : forall (o2 : oracle2) (fs w : string),
  String.eqb fs "" = false -> contains_char """"%char fs = false -> String.eqb w "*" = false ->
  valid_utf8 o2 (col_text fs) = true -> contains_char (ascii_of_nat 0) (col_text fs) = false -> valid_utf8 o2 "?" = true ->
  render_param o2 (E (VExp (lit (VCol fs))) Equals (VExp (lit (VStr w))) one_bits 1%Z) = Ret ((col_text fs ++ " = ?")%string, [VStr w], None).
Proof. exact quoted_value_parameter. Qed.

(* ---- the escaping clause (ASCII texts) ----
   esc_b w: w written as a bare word with a backslash before every byte that is not a letter, digit or underscore (wordc).
   The whole input  f:esc(w)  lexes to exactly [Literal f; Colon; Literal esc(w); EOF] for every ASCII text w (any operators,
   quotes, blanks, brackets, slashes ...), provided the escaped spelling is not one of the four keywords;
   oracle facts: the double quote, the colon and the backslash are not letters or digits, whitespace runes are not alphanumeric *)
Theorem C08_escaped_value_is_one_token : forall cl : Lex.classes,
  Lex.is_letter cl 34%N = false /\ Lex.is_digit cl 34%N = false ->
  Lex.is_letter cl 58%N = false /\ Lex.is_digit cl 58%N = false ->
  Lex.is_letter cl 92%N = false /\ Lex.is_digit cl 92%N = false ->
  (forall r, Lex.is_space r = true -> Lex.is_alnum cl r = false) ->
  forall (c0 : ascii) (f : list ascii) (d0 : ascii) (w : list ascii),
  forallb (LexField.wordc cl) (c0 :: f) = true -> Lex.word_type (c0 :: f) = TLiteral ->
  forallb LexEscape.asciib (d0 :: w) = true -> Lex.word_type (LexEscape.esc_b cl (d0 :: w)) = TLiteral ->
  Lex.lex cl ((c0 :: f) ++ ":"%char :: LexEscape.esc_b cl (d0 :: w)) =
  [ {| Lex.typ := TLiteral; Lex.val := c0 :: f |}; {| Lex.typ := TColon; Lex.val := [":"%char] |};
    {| Lex.typ := TLiteral; Lex.val := LexEscape.esc_b cl (d0 :: w) |}; Lex.eof_tok ].
Proof. exact LexEscape.lex_field_escaped. Qed.

(* from the tokens to the tree: a Literal token whose text es loses its backslashes to w, holds no wildcard character and does
   not read as a number (strconv decides: oracle) gives EQUALS(column, literal w) - w as a plain, non-pattern value. (A text with
   a star or question mark stays a pattern and a backslash in w itself is lost: known finding K7, outside these premises.)
   The inline SQL and the parameter list of that tree are the ones of the quoting clause (same tree). *)
Theorem C08_escaped_value_tree : forall (o : oracle) (ftok : token) (fs es w : string),
  is_term_tok ftok = true -> parse_literal o ftok = lit (VStr fs) ->
  atoi es = None ->
  match parse_float o es with Some f => is_nan_or_inf o f = true | None => True end ->
  contains_char "*"%char es = false -> contains_char "?"%char es = false ->
  remove_char "\"%char es = w ->
  parse_toks o "" [ftok; colon_tok; word_tok es; eof] = PTree (E (VExp (lit (VCol fs))) Equals (VExp (lit (VStr w))) one_bits 1%Z).
Proof. exact escaped_value_tree. Qed.

(* and the escaped spelling meets those premises: removing the backslashes from esc(w) gives w back for every w without a
   backslash, and esc(w) holds a star or question mark only if w does *)
Theorem C08_escaped_spelling_loses_only_its_backslashes : forall (cl : Lex.classes) (l : list ascii),
  forallb (fun c => negb (Ascii.eqb c "\"%char)) l = true ->
  remove_char "\"%char (string_of_list_ascii (LexEscape.esc_b cl l)) = string_of_list_ascii l.
Proof. exact esc_remove. Qed.

Theorem C08_escaped_spelling_adds_no_wildcard : forall (cl : Lex.classes) (x : ascii), Ascii.eqb "\"%char x = false -> forall l : list ascii,
  contains_char x (string_of_list_ascii (LexEscape.esc_b cl l)) = contains_char x (string_of_list_ascii l).
Proof. exact esc_contains. Qed.


(* ---- both clauses, from the tokens to the rows, on the model ----
   the links above are closed into one statement with ONE quoting function on both sides: for the value w written in quotes (any
   w without a double quote) the parser returns EQUALS(column f, literal w); the inline renderer returns a text; the PostgreSQL
   scanner and grammar models read from that text the comparison of column f with the string constant w - exactly w, whatever it
   contains: quotes, backslashes, percent signs, comment openers, semicolons - and that comparison is true on exactly the rows on
   which the query is true. Premises: the field name is non-empty, has no double quote and at most 63 bytes; the literal function
   accepts the two texts (valid UTF-8 per the oracle, no NUL: the library refuses the others, C02). *)
Theorem C08_quoted_value_reaches_postgres_verbatim : forall (o : oracle) (o2 : oracle2) (ftok : token) (fs w : string),
  is_term_tok ftok = true -> parse_literal o ftok = lit (VStr fs) -> contains_char """"%char w = false ->
  name_ok fs = true -> col_ok o2 fs = true -> lit_ok o2 (sqs w) = true ->
  parse_toks o "" [ftok; colon_tok; quoted w; eof] = PTree (qtree fs w) /\
  exists s : string, render o2 (qtree fs w) = Ret (s, None) /\ PgModel.pg_read (PgModel.str s) = Some (qast fs w) /\
    forall r : row, ssem r [] (qast fs w) = qsem r (qtree fs w).
Proof. exact quoted_value_reaches_postgres. Qed.

(* the same for a value written with escapes: es is any Literal token text that loses its backslashes to w (premises of
   C08_escaped_value_tree) *)
Theorem C08_escaped_value_reaches_postgres_verbatim : forall (o : oracle) (o2 : oracle2) (ftok : token) (fs es w : string),
  is_term_tok ftok = true -> parse_literal o ftok = lit (VStr fs) ->
  atoi es = None -> match parse_float o es with Some f => is_nan_or_inf o f = true | None => True end ->
  contains_char "*"%char es = false -> contains_char "?"%char es = false -> remove_char "\"%char es = w ->
  name_ok fs = true -> col_ok o2 fs = true -> lit_ok o2 (sqs w) = true ->
  parse_toks o "" [ftok; colon_tok; word_tok es; eof] = PTree (qtree fs w) /\
  exists s : string, render o2 (qtree fs w) = Ret (s, None) /\ PgModel.pg_read (PgModel.str s) = Some (qast fs w) /\
    forall r : row, ssem r [] (qast fs w) = qsem r (qtree fs w).
Proof. exact escaped_value_reaches_postgres. Qed.

(* the parameterized renderer: the text holds a placeholder, w travels - verbatim - as the only parameter, PostgreSQL reads the
   comparison of the column with parameter 1, true with w bound on exactly the rows of the query *)
Theorem C08_value_travels_as_parameter_verbatim : forall (o2 : oracle2) (fs w : string),
  String.eqb w "*" = false -> name_ok fs = true -> col_ok o2 fs = true -> valid_utf8 o2 "?" = true ->
  exists s : string, render_param o2 (qtree fs w) = Ret (s, [VStr w], None) /\
    PgModel.pg_read (number_placeholders (PgModel.str s)) = Some (past fs) /\
    forall r : row, ssem r [RStr w] (past fs) = qsem r (qtree fs w).
Proof. exact quoted_value_travels_as_parameter. Qed.

(* the premises are met by a hostile value *)
Example c08_hostile_value_meets_the_premises :
  let w := "it's 100% \_ '; DROP TABLE t; -- /* x"%string in
  contains_char """"%char w = false /\ name_ok "title" = true /\ col_ok SqlQueryText.o2_ex "title" = true /\
  lit_ok SqlQueryText.o2_ex (sqs w) = true /\ String.eqb w "*" = false.
Proof. vm_compute. repeat split; reflexivity. Qed.


(* ---- from the query TEXT ----
   the bytes  f:"w"  (f an ASCII word that is no keyword, w ANY byte string without a double quote) handed to ToPostgres: lexer,
   parser, Validate, renderer, PostgreSQL scanner and grammar - the comparison of column f with the string constant w arrives,
   true on exactly the rows of the query; handed to ToParameterizedPostgres: a placeholder in the text and w as the only parameter *)
Theorem C08_quoted_text_to_rows :
  forall (o : oracle) (o2 : oracle2) (cl : Lex.classes),
  Lex.is_letter cl 34%N = false /\ Lex.is_digit cl 34%N = false ->
  Lex.is_letter cl 58%N = false /\ Lex.is_digit cl 58%N = false ->
  (forall r, Lex.is_space r = true -> Lex.is_alnum cl r = false) ->
  forall (c0 : ascii) (f w : list ascii),
  forallb (LexField.wordc cl) (c0 :: f) = true -> Forall (fun c => c <> """"%char) w -> Lex.word_type (c0 :: f) = TLiteral ->
  let fs := string_of_list_ascii (c0 :: f) in let ws := string_of_list_ascii w in
  parse_literal o {| typ := TLiteral; val := fs |} = lit (VStr fs) ->
  name_ok fs = true -> col_ok o2 fs = true -> lit_ok o2 (sqs ws) = true ->
  exists s : string,
    Api.to_postgres o o2 cl "" (QuoteText.quoted_text (c0 :: f) w) = Ret (s, None) /\
    PgModel.pg_read (PgModel.str s) = Some (qast fs ws) /\
    forall r : row, ssem r [] (qast fs ws) = qsem r (qtree fs ws).
Proof. exact QuoteText.to_postgres_on_quoted_value. Qed.

Theorem C08_quoted_text_to_parameter :
  forall (o : oracle) (o2 : oracle2) (cl : Lex.classes),
  Lex.is_letter cl 34%N = false /\ Lex.is_digit cl 34%N = false ->
  Lex.is_letter cl 58%N = false /\ Lex.is_digit cl 58%N = false ->
  (forall r, Lex.is_space r = true -> Lex.is_alnum cl r = false) ->
  forall (c0 : ascii) (f w : list ascii),
  forallb (LexField.wordc cl) (c0 :: f) = true -> Forall (fun c => c <> """"%char) w -> Lex.word_type (c0 :: f) = TLiteral ->
  let fs := string_of_list_ascii (c0 :: f) in let ws := string_of_list_ascii w in
  parse_literal o {| typ := TLiteral; val := fs |} = lit (VStr fs) ->
  String.eqb ws "*" = false -> name_ok fs = true -> col_ok o2 fs = true -> valid_utf8 o2 "?" = true ->
  exists s : string,
    Api.to_param_postgres o o2 cl "" (QuoteText.quoted_text (c0 :: f) w) = Ret (s, [VStr ws], None) /\
    PgModel.pg_read (number_placeholders (PgModel.str s)) = Some (past fs) /\
    forall r : row, ssem r [RStr ws] (past fs) = qsem r (qtree fs ws).
Proof. exact QuoteText.to_param_postgres_on_quoted_value. Qed.

(* the escaped spelling of an ASCII text w without backslash, star and question mark, as query text *)
Theorem C08_escaped_text_to_rows :
  forall (o : oracle) (o2 : oracle2) (cl : Lex.classes),
  Lex.is_letter cl 34%N = false /\ Lex.is_digit cl 34%N = false ->
  Lex.is_letter cl 58%N = false /\ Lex.is_digit cl 58%N = false ->
  Lex.is_letter cl 92%N = false /\ Lex.is_digit cl 92%N = false ->
  (forall r, Lex.is_space r = true -> Lex.is_alnum cl r = false) ->
  forall (c0 : ascii) (f : list ascii) (d0 : ascii) (w : list ascii),
  forallb (LexField.wordc cl) (c0 :: f) = true -> Lex.word_type (c0 :: f) = TLiteral ->
  forallb LexEscape.asciib (d0 :: w) = true -> Lex.word_type (LexEscape.esc_b cl (d0 :: w)) = TLiteral ->
  forallb (fun c => negb (Ascii.eqb c "\"%char)) (d0 :: w) = true ->
  let fs := string_of_list_ascii (c0 :: f) in let ws := string_of_list_ascii (d0 :: w) in
  let es := string_of_list_ascii (LexEscape.esc_b cl (d0 :: w)) in
  contains_char "*"%char ws = false -> contains_char "?"%char ws = false ->
  atoi es = None -> match parse_float o es with Some x => is_nan_or_inf o x = true | None => True end ->
  parse_literal o {| typ := TLiteral; val := fs |} = lit (VStr fs) ->
  name_ok fs = true -> col_ok o2 fs = true -> lit_ok o2 (sqs ws) = true ->
  exists s : string,
    Api.to_postgres o o2 cl "" (QuoteText.escaped_text cl (c0 :: f) (d0 :: w)) = Ret (s, None) /\
    PgModel.pg_read (PgModel.str s) = Some (qast fs ws) /\
    forall r : row, ssem r [] (qast fs ws) = qsem r (qtree fs ws).
Proof. exact QuoteText.to_postgres_on_escaped_value. Qed.

(* the premises of the text-level theorems are met: ASCII classifier, field title, a hostile value *)
Example c08_text_premises_are_met :
  let cl := LexWs.cl_ascii in let o := SqlQueryText.o_ex in let o2 := SqlQueryText.o2_ex in
  let f := list_ascii_of_string "title" in let w := list_ascii_of_string "it's 100% \_ '; DROP TABLE t; -- /* x" in
  let w2 := list_ascii_of_string "a b:c""d(e) OR" in
  (Lex.is_letter cl 34%N = false /\ Lex.is_digit cl 34%N = false) /\ (Lex.is_letter cl 58%N = false /\ Lex.is_digit cl 58%N = false) /\
  (Lex.is_letter cl 92%N = false /\ Lex.is_digit cl 92%N = false) /\
  forallb (LexField.wordc cl) f = true /\ Lex.word_type f = TLiteral /\ forallb (fun c => negb (Ascii.eqb c """"%char)) w = true /\
  parse_literal o {| typ := TLiteral; val := string_of_list_ascii f |} = lit (VStr (string_of_list_ascii f)) /\
  name_ok (string_of_list_ascii f) = true /\ col_ok o2 (string_of_list_ascii f) = true /\ lit_ok o2 (sqs (string_of_list_ascii w)) = true /\
  forallb LexEscape.asciib w2 = true /\ Lex.word_type (LexEscape.esc_b cl w2) = TLiteral /\
  forallb (fun c => negb (Ascii.eqb c "\"%char)) w2 = true /\
  contains_char "*"%char (string_of_list_ascii w2) = false /\ contains_char "?"%char (string_of_list_ascii w2) = false /\
  atoi (string_of_list_ascii (LexEscape.esc_b cl w2)) = None /\ parse_float o (string_of_list_ascii (LexEscape.esc_b cl w2)) = None.
Proof. vm_compute. repeat split; reflexivity. Qed.


(* ---- the escaping clause for texts in ANY script (any bytes, valid UTF-8 or not) ----
   Escape.esc cl w: w written as a bare word with a backslash before every RUNE - as Go's decoder cuts the text, an invalid
   byte being a rune of its own - that is not a letter, digit or underscore. The whole input f:esc(w) lexes to exactly
   [Literal f; Colon; Literal esc(w); EOF] for EVERY non-empty byte string w; one more oracle fact: U+FFFD is no letter or digit *)
Theorem C08_escaped_value_is_one_token_any_script : forall cl : Lex.classes,
  Lex.is_letter cl 34%N = false /\ Lex.is_digit cl 34%N = false ->
  Lex.is_letter cl 58%N = false /\ Lex.is_digit cl 58%N = false ->
  Lex.is_letter cl 92%N = false /\ Lex.is_digit cl 92%N = false ->
  (forall r, Lex.is_space r = true -> Lex.is_alnum cl r = false) ->
  Lex.is_alnum cl Lex.rune_error = false ->
  forall (c0 : ascii) (f : list ascii) (d0 : ascii) (w : list ascii),
  forallb (LexField.wordc cl) (c0 :: f) = true -> Lex.word_type (c0 :: f) = TLiteral ->
  Lex.word_type (Escape.esc cl (d0 :: w)) = TLiteral ->
  Lex.lex cl ((c0 :: f) ++ ":"%char :: Escape.esc cl (d0 :: w)) =
  [ {| Lex.typ := TLiteral; Lex.val := c0 :: f |}; {| Lex.typ := TColon; Lex.val := [":"%char] |};
    {| Lex.typ := TLiteral; Lex.val := Escape.esc cl (d0 :: w) |}; Lex.eof_tok ].
Proof. exact LexEscapeU.lex_field_escaped_u. Qed.

(* that spelling loses exactly its backslashes, holds a star or question mark only if w does, and on an ASCII text it is the
   byte-level spelling of the ASCII theorems above *)
Theorem C08_escaped_spelling_any_script_loses_only_its_backslashes : forall (cl : Lex.classes) (l : list ascii),
  forallb (fun c => negb (Ascii.eqb c "\"%char)) l = true ->
  remove_char "\"%char (string_of_list_ascii (Escape.esc cl l)) = string_of_list_ascii l.
Proof. intros cl l H. exact (QuoteTextU.esc_u_remove cl (List.length l) l (le_n _) H). Qed.

Theorem C08_escaped_spelling_any_script_adds_no_wildcard : forall (cl : Lex.classes) (x : ascii), Ascii.eqb "\"%char x = false -> forall l : list ascii,
  contains_char x (string_of_list_ascii (Escape.esc cl l)) = contains_char x (string_of_list_ascii l).
Proof. intros cl x Hx l. exact (QuoteTextU.esc_u_contains cl x Hx (List.length l) l (le_n _)). Qed.

Theorem C08_escaped_spelling_any_script_is_the_ascii_one_on_ascii : forall (cl : Lex.classes) (l : list ascii),
  forallb LexEscape.asciib l = true -> Escape.esc cl l = LexEscape.esc_b cl l.
Proof. intros cl l H. exact (LexEscapeU.esc_u_ascii cl (List.length l) l (le_n _) H). Qed.

(* and from the query TEXT: f:esc(w) handed to ToPostgres delivers w - any bytes without backslash, star, question mark, not
   reading as a number - verbatim as the string constant PostgreSQL compares column f with *)
Theorem C08_escaped_text_to_rows_any_script :
  forall (o : oracle) (o2 : oracle2) (cl : Lex.classes),
  Lex.is_letter cl 34%N = false /\ Lex.is_digit cl 34%N = false ->
  Lex.is_letter cl 58%N = false /\ Lex.is_digit cl 58%N = false ->
  Lex.is_letter cl 92%N = false /\ Lex.is_digit cl 92%N = false ->
  (forall r, Lex.is_space r = true -> Lex.is_alnum cl r = false) ->
  Lex.is_alnum cl Lex.rune_error = false ->
  forall (c0 : ascii) (f : list ascii) (d0 : ascii) (w : list ascii),
  forallb (LexField.wordc cl) (c0 :: f) = true -> Lex.word_type (c0 :: f) = TLiteral ->
  Lex.word_type (Escape.esc cl (d0 :: w)) = TLiteral ->
  forallb (fun c => negb (Ascii.eqb c "\"%char)) (d0 :: w) = true ->
  let fs := string_of_list_ascii (c0 :: f) in let ws := string_of_list_ascii (d0 :: w) in
  let es := string_of_list_ascii (Escape.esc cl (d0 :: w)) in
  contains_char "*"%char ws = false -> contains_char "?"%char ws = false ->
  atoi es = None -> match parse_float o es with Some x => is_nan_or_inf o x = true | None => True end ->
  parse_literal o {| typ := TLiteral; val := fs |} = lit (VStr fs) ->
  name_ok fs = true -> col_ok o2 fs = true -> lit_ok o2 (sqs ws) = true ->
  exists s : string,
    Api.to_postgres o o2 cl "" (QuoteTextU.escaped_text_u cl (c0 :: f) (d0 :: w)) = Ret (s, None) /\
    PgModel.pg_read (PgModel.str s) = Some (qast fs ws) /\
    forall r : row, ssem r [] (qast fs ws) = qsem r (qtree fs ws).
Proof. exact QuoteTextU.to_postgres_on_escaped_value_u. Qed.

(* ... and handed to ToParameterizedPostgres: a placeholder in the text and w, verbatim, as the only parameter *)
Theorem C08_escaped_text_to_parameter_any_script :
  forall (o : oracle) (o2 : oracle2) (cl : Lex.classes),
  Lex.is_letter cl 34%N = false /\ Lex.is_digit cl 34%N = false ->
  Lex.is_letter cl 58%N = false /\ Lex.is_digit cl 58%N = false ->
  Lex.is_letter cl 92%N = false /\ Lex.is_digit cl 92%N = false ->
  (forall r, Lex.is_space r = true -> Lex.is_alnum cl r = false) ->
  Lex.is_alnum cl Lex.rune_error = false ->
  forall (c0 : ascii) (f : list ascii) (d0 : ascii) (w : list ascii),
  forallb (LexField.wordc cl) (c0 :: f) = true -> Lex.word_type (c0 :: f) = TLiteral ->
  Lex.word_type (Escape.esc cl (d0 :: w)) = TLiteral ->
  forallb (fun c => negb (Ascii.eqb c "\"%char)) (d0 :: w) = true ->
  let fs := string_of_list_ascii (c0 :: f) in let ws := string_of_list_ascii (d0 :: w) in
  let es := string_of_list_ascii (Escape.esc cl (d0 :: w)) in
  contains_char "*"%char ws = false -> contains_char "?"%char ws = false ->
  atoi es = None -> match parse_float o es with Some x => is_nan_or_inf o x = true | None => True end ->
  parse_literal o {| typ := TLiteral; val := fs |} = lit (VStr fs) ->
  name_ok fs = true -> col_ok o2 fs = true -> valid_utf8 o2 "?" = true ->
  exists s : string,
    Api.to_param_postgres o o2 cl "" (QuoteTextU.escaped_text_u cl (c0 :: f) (d0 :: w)) = Ret (s, [VStr ws], None) /\
    PgModel.pg_read (number_placeholders (PgModel.str s)) = Some (past fs) /\
    forall r : row, ssem r [RStr ws] (past fs) = qsem r (qtree fs ws).
Proof. exact QuoteTextU.to_param_postgres_on_escaped_value_u. Qed.

(* the property's own wording, for a BARE word without a field: Parse(esc(w)) is the plain (non-pattern) string leaf w *)
Theorem C08_escaped_bare_word_is_the_plain_value_any_script :
  forall (o : oracle) (cl : Lex.classes),
  Lex.is_letter cl 34%N = false /\ Lex.is_digit cl 34%N = false ->
  Lex.is_letter cl 58%N = false /\ Lex.is_digit cl 58%N = false ->
  Lex.is_letter cl 92%N = false /\ Lex.is_digit cl 92%N = false ->
  (forall r, Lex.is_space r = true -> Lex.is_alnum cl r = false) ->
  Lex.is_alnum cl Lex.rune_error = false ->
  forall (d0 : ascii) (w : list ascii),
  Lex.word_type (Escape.esc cl (d0 :: w)) = TLiteral ->
  forallb (fun c => negb (Ascii.eqb c "\"%char)) (d0 :: w) = true ->
  let ws := string_of_list_ascii (d0 :: w) in let es := string_of_list_ascii (Escape.esc cl (d0 :: w)) in
  contains_char "*"%char ws = false -> contains_char "?"%char ws = false ->
  atoi es = None -> match parse_float o es with Some x => is_nan_or_inf o x = true | None => True end ->
  Api.parse o cl "" es = PTree (lit (VStr ws)).
Proof. exact EscapeBare.parse_of_escaped_bare_word. Qed.

(* the premises are met by a text with two-byte letters, an invalid byte, brackets, blanks and a colon:  caf<C3 A9> (<FF>) <C3 AF>:x
   under a classifier that calls every rune from U+0080 on except U+FFFD a letter; its escaped spelling is computed *)
Example c08_any_script_premises_are_met :
  let cl := LexWsG.cl_wide in let o := SqlQueryText.o_ex in let o2 := SqlQueryText.o2_ex in
  let f := list_ascii_of_string "title" in
  let w := list_ascii_of_string "caf" ++ [ascii_of_nat 195; ascii_of_nat 169] ++ list_ascii_of_string " (" ++ [ascii_of_nat 255] ++ list_ascii_of_string ") "
           ++ [ascii_of_nat 195; ascii_of_nat 175] ++ list_ascii_of_string ":x" in
  (Lex.is_letter cl 34%N = false /\ Lex.is_digit cl 34%N = false) /\ (Lex.is_letter cl 58%N = false /\ Lex.is_digit cl 58%N = false) /\
  (Lex.is_letter cl 92%N = false /\ Lex.is_digit cl 92%N = false) /\ Lex.is_alnum cl Lex.rune_error = false /\
  forallb (LexField.wordc cl) f = true /\ Lex.word_type f = TLiteral /\
  Escape.esc cl w = list_ascii_of_string "caf" ++ [ascii_of_nat 195; ascii_of_nat 169] ++ list_ascii_of_string "\ \(\" ++ [ascii_of_nat 255] ++ list_ascii_of_string "\)\ "
           ++ [ascii_of_nat 195; ascii_of_nat 175] ++ list_ascii_of_string "\:x" /\
  Lex.word_type (Escape.esc cl w) = TLiteral /\ forallb (fun c => negb (Ascii.eqb c "\"%char)) w = true /\
  contains_char "*"%char (string_of_list_ascii w) = false /\ contains_char "?"%char (string_of_list_ascii w) = false /\
  atoi (string_of_list_ascii (Escape.esc cl w)) = None /\ parse_float o (string_of_list_ascii (Escape.esc cl w)) = None /\
  parse_literal o {| typ := TLiteral; val := string_of_list_ascii f |} = lit (VStr (string_of_list_ascii f)) /\
  name_ok (string_of_list_ascii f) = true /\ col_ok o2 (string_of_list_ascii f) = true /\ lit_ok o2 (sqs (string_of_list_ascii w)) = true.
Proof. vm_compute. repeat split; reflexivity. Qed.

Print Assumptions C08_quoted_value_is_one_token.
Print Assumptions C08_escaped_value_is_one_token.
Print Assumptions C08_escaped_value_tree.
Print Assumptions C08_escaped_spelling_loses_only_its_backslashes.
Print Assumptions C08_quoted_value_tree.
Print Assumptions C08_quoted_value_inline_sql.
Print Assumptions C08_quoted_value_parameter.
Print Assumptions C08_sql_constant_decodes_to_the_value.
Print Assumptions C08_quoted_value_reaches_postgres_verbatim.
Print Assumptions C08_escaped_value_reaches_postgres_verbatim.
Print Assumptions C08_value_travels_as_parameter_verbatim.
Print Assumptions C08_quoted_text_to_rows.
Print Assumptions C08_quoted_text_to_parameter.
Print Assumptions C08_escaped_text_to_rows.
Print Assumptions C08_escaped_value_is_one_token_any_script.
Print Assumptions C08_escaped_spelling_any_script_loses_only_its_backslashes.
Print Assumptions C08_escaped_spelling_any_script_adds_no_wildcard.
Print Assumptions C08_escaped_spelling_any_script_is_the_ascii_one_on_ascii.
Print Assumptions C08_escaped_text_to_rows_any_script.
Print Assumptions C08_escaped_text_to_parameter_any_script.
Print Assumptions C08_escaped_bare_word_is_the_plain_value_any_script.
