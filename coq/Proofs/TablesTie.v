(* The hand-written model agrees with the tables gentables regenerates from /repo's Go sources on every run.
   Tables that the model USES directly (toktype_order = the precedence table, reducer_order, symbols) need no lemma: the
   model follows them. Tables that the model re-states as pattern matches are tied here; if the Go table changes, the
   corresponding lemma no longer checks and every property theorem that imports this file reports it. *)
Require Import Parser Render Decode.
Require Lex.
From Coq Require Import List Ascii String ZArith Bool.
Import ListNotations.
Open Scope string_scope.

Fixpoint assoc_op {A} (op : operator) (l : list (operator * A)) : option A :=
  match l with [] => None | (k, v) :: r => if op_eqb k op then Some v else assoc_op op r end.
Fixpoint assoc_str (s : string) (l : list (string * operator)) : option operator :=
  match l with [] => None | (k, v) :: r => if String.eqb k s then Some v else assoc_str s r end.

(* lex.go terminalTokens *)
Lemma is_terminal_tie : forall t v, is_terminal {| typ := t; val := v |} = existsb (tt_eqb t) terminal_tokens.
Proof. intros t v. destruct t; reflexivity. Qed.

(* operator.go toString / fromString: both total on the 19 operators, mutually inverse (C12's table clause) *)
Lemma to_string_tie : forall op, op <> Undefined -> assoc_op op to_string = Some (op_string op).
Proof. intros op H. destruct op; try reflexivity. contradiction. Qed.
Lemma from_string_tie : forall op, op <> Undefined -> assoc_str (op_string op) from_string = Some op.
Proof. intros op H. destruct op; try reflexivity. contradiction. Qed.
Lemma from_to_string_inverse : forall op s, assoc_op op to_string = Some s -> assoc_str s from_string = Some op.
Proof. intros op s. destruct op; cbn; intros H; inversion H; reflexivity. Qed.
Lemma to_from_string_inverse : forall s op, In (s, op) from_string -> assoc_op op to_string = Some s.
Proof.
  intros s op H. cbn in H.
  repeat (destruct H as [H|H]; [inversion H; subst; reflexivity|]). contradiction.
Qed.
(* the decoder's name lookup is the generated fromString (unknown names give the zero operator) *)
Lemma op_of_string_tie : forall s, op_of_string s = match assoc_str s from_string with Some op => op | None => Undefined end.
Proof.
  intros s. unfold op_of_string. cbn [find op_string from_string assoc_str].
  repeat match goal with |- context [String.eqb ?a s] => destruct (String.eqb a s) eqn:?; [reflexivity|] end.
  reflexivity.
Qed.

(* validator.go validators, renderer.go renderers: every operator except Undefined has an entry *)
Lemma validators_total : forall op, op <> Undefined -> assoc_op op validators <> None.
Proof. intros op H. destruct op; cbn; try discriminate. contradiction. Qed.
Lemma renderers_total : forall op, op <> Undefined -> assoc_op op renderers <> None.
Proof. intros op H. destruct op; cbn; try discriminate. contradiction. Qed.

(* base.go Shared overlaid by postgresql.go NewPostgresDriver: the model's pg_fn IS that table *)
Section Fns.
Variable o2 : oracle2.
Definition pure_fn (f : string -> string -> sres) : string -> string -> out sres := fun l r => Ret (f l r).
Definition fn_of_id (id : renderfn_id) : string -> string -> out sres :=
  match id with
  | Fn_literal => pure_fn (fn_literal o2)
  | Fn_basicCompound op => pure_fn (fun l r => (l ++ " " ++ op_string op ++ " " ++ r, None))
  | Fn_basicWrap op => pure_fn (fun l r => (op_string op ++ "(" ++ l ++ ")", None))
  | Fn_equals => pure_fn (fun l r => (l ++ " = " ++ r, None))
  | Fn_rang => fn_rang o2
  | Fn_noop => pure_fn (fun l r => (l, None))
  | Fn_like => pure_fn fn_like
  | Fn_greater => pure_fn (fun l r => (l ++ " > " ++ r, None))
  | Fn_greaterEq => pure_fn (fun l r => (l ++ " >= " ++ r, None))
  | Fn_less => pure_fn (fun l r => (l ++ " < " ++ r, None))
  | Fn_lessEq => pure_fn (fun l r => (l ++ " <= " ++ r, None))
  | Fn_inFn => pure_fn (fun l r => (l ++ " IN " ++ r, None))
  | Fn_list => pure_fn (fun l r => ("(" ++ l ++ ")", None))
  end.
Definition postgres_table (op : operator) : option renderfn_id := assoc_op op (postgres_own_fns ++ shared_fns).

Lemma pg_fn_tie : forall op l r, match pg_fn o2 op, postgres_table op with
                                 | Some f, Some id => f l r = fn_of_id id l r
                                 | None, None => True
                                 | _, _ => False
                                 end.
Proof. intros op l r. destruct op; cbn; try exact I; reflexivity. Qed.

(* Fuzzy and Boost have no function in the postgres table (C15) *)
Lemma fuzzy_boost_unregistered : postgres_table Fuzzy = None /\ postgres_table Boost = None.
Proof. split; reflexivity. Qed.
End Fns.

(* lex.go symbols: thirteen single-rune symbols, none of them whitespace, quote, slash, backslash, minus, star or question mark *)
Lemma symbols_tie : forall r, In r (map fst symbols) <-> In r [40; 41; 91; 93; 123; 125; 58; 43; 61; 62; 126; 94; 60]%N.
Proof. intros r. cbn. tauto. Qed.
