(* C15 — Custom drivers: Render folds the tree with exactly the supplied functions. *)
Require Import Parser Render Driver Shape.
Require Import Custom.
From Coq Require Import List String.

(* for an ARBITRARY table of render functions (any functions, any subset of operators): if some node reachable through
   Left/Right/list elements/range bounds has no registered function, Render never succeeds *)
Theorem C15_missing_function_fails : forall (o2 : oracle2) (fns : operator -> option (string -> string -> out sres)) (e : expr),
  missing fns e = true -> forall s : string, render_with o2 fns e <> Ret (s, None).
Proof. exact missing_fails. Qed.

Print Assumptions C15_missing_function_fails.
