(* The decimal text the renderer writes for an integer (Render.z_digits) denotes that integer for PostgreSQL
   (SqlSem.q_of_decimal): numbers compare numerically on both sides of the translation. *)
Require Import Parser Render PgModel QuerySem SqlSem SqlFrag.
From Coq Require Import List Ascii String ZArith QArith Bool Lia Arith.
Import ListNotations.
Close Scope Q_scope.
Open Scope Z_scope.

Definition los := list_ascii_of_string.

Lemma digit_code (d : Z) : 0 <= d < 10 -> nat_of_ascii (ascii_of_nat (48 + Z.to_nat d)) = (48 + Z.to_nat d)%nat.
Proof. intros H. apply nat_ascii_embedding. lia. Qed.

Lemma dec_digit_step (d : Z) r a k : 0 <= d < 10 ->
  dec_digits (ascii_of_nat (48 + Z.to_nat d) :: r) a k = dec_digits r (a * 10 + d) (S k).
Proof.
  intros H. cbn [dec_digits]. rewrite (digit_code d H).
  assert ((48 <=? 48 + Z.to_nat d)%nat = true) as -> by (apply Nat.leb_le; lia).
  assert ((48 + Z.to_nat d <=? 57)%nat = true) as -> by (apply Nat.leb_le; lia).
  cbn [andb]. replace (Z.of_nat (48 + Z.to_nat d - 48)) with d by lia. reflexivity.
Qed.

Lemma z_digits_dec : forall fuel n acc a k, 0 <= n < 10 ^ Z.of_nat fuel -> (0 < fuel)%nat ->
  exists m, (0 < m)%nat /\ dec_digits (los (z_digits fuel n acc)) a k = dec_digits (los acc) (a * 10 ^ Z.of_nat m + n) (k + m)%nat.
Proof.
  induction fuel as [|f IH]; intros n acc a k Hn Hf; [lia|].
  cbn [z_digits]. assert (D : 0 <= n mod 10 < 10) by (apply Z.mod_pos_bound; lia).
  destruct (n / 10 =? 0) eqn:E.
  - apply Z.eqb_eq in E. exists 1%nat. split; [lia|].
    change (los (String (ascii_of_nat (48 + Z.to_nat (n mod 10))) acc)) with (ascii_of_nat (48 + Z.to_nat (n mod 10)) :: los acc).
    rewrite (dec_digit_step _ _ _ _ D). f_equal; [|lia].
    assert (n = n mod 10) by (rewrite (Z.div_mod n 10) at 1; lia). change (10 ^ Z.of_nat 1) with 10. lia.
  - apply Z.eqb_neq in E.
    assert (Hq : 0 <= n / 10 < 10 ^ Z.of_nat f).
    { split; [apply Z.div_pos; lia|]. apply Z.div_lt_upper_bound; [lia|]. rewrite Nat2Z.inj_succ, Z.pow_succ_r in Hn by lia. lia. }
    assert (Hf' : (0 < f)%nat).
    { destruct f; [|lia]. cbn in Hn. assert (n / 10 = 0) by (apply Z.div_small; lia). contradiction. }
    destruct (IH (n / 10) (String (ascii_of_nat (48 + Z.to_nat (n mod 10))) acc) a k Hq Hf') as [m [Hm Em]].
    exists (S m). split; [lia|]. rewrite Em.
    change (los (String (ascii_of_nat (48 + Z.to_nat (n mod 10))) acc)) with (ascii_of_nat (48 + Z.to_nat (n mod 10)) :: los acc).
    rewrite (dec_digit_step _ _ _ _ D). f_equal; [|lia].
    rewrite Nat2Z.inj_succ, Z.pow_succ_r by lia. rewrite (Z.div_mod n 10) at 3 by lia. ring.
Qed.


Lemma nat_digits_value n : 0 <= n < 10 ^ 30 -> q_of_decimal (nat_digits n) = Some (inject_Z n).
Proof.
  intros H. unfold q_of_decimal, nat_digits.
  destruct (z_digits_dec 30 n "" 0 0%nat H ltac:(lia)) as [m [Hm E]].
  change (str (z_digits 30 n "")) with (los (z_digits 30 n "")). rewrite E. cbn [los list_ascii_of_string dec_digits].
  replace (0 * 10 ^ Z.of_nat m + n) with n by lia.
  destruct m as [|m']; [lia|]. cbn [Nat.add Nat.eqb]. reflexivity.
Qed.

(* the operand PostgreSQL evaluates for the constant of an integer is that integer *)
Lemma int_operand r ps z : int_in_range z = true -> operand r ps (int_ast z) = Some (RNum (inject_Z z)).
Proof.
  unfold int_in_range. intros H. apply Z.ltb_lt in H. unfold int_ast. destruct (z <? 0) eqn:N.
  - apply Z.ltb_lt in N. cbn [operand]. rewrite (nat_digits_value (- z)) by lia.
    unfold Qopp, inject_Z. cbn [Qnum Qden]. rewrite Z.opp_involutive. reflexivity.
  - apply Z.ltb_ge in N. cbn [operand]. rewrite (nat_digits_value z) by lia. reflexivity.
Qed.
