(* C03 — Inline SQL selects exactly the rows the query means. *)
Require Import Parser Render PgModel QuerySem SqlSem SqlFrag.
Require Import SemPattern.
Require SqlParse SqlSemProof SqlEndToEnd SqlSucceeds SqlQueryText.
Require Api Lex LexWs Printer PrintedText.
Require LexWsG.
Require Tables TablesTie FormatsTie.
From Coq Require Import List String ZArith.
Import ListNotations.

(* "* and ? match any run / any one character": for every wildcard pattern p without the characters % and _ and every string
   s, PostgreSQL's SIMILAR TO on the translated pattern (star to percent, question mark to underscore: the fixed translation of
   renderfn.go like) accepts s
   exactly when the Lucene pattern p matches s. *)
Theorem C03_pattern_translation_preserves_meaning : forall p s : string,
  no_sql_wild p = true -> sim_match (translate p) s = wild_match p s.
Proof. exact translate_preserves_meaning. Qed.

(* Structure and leaves, for every tree of the filterable fragment (any nesting depth) and every row.
   Spec/SqlFrag.tr e = Some (ts, a): ts is the SQL token sequence of e (what PostgreSQL's scanner makes of the text the renderer
   writes: compared per case with PgModel.pg_lex of the implementation's output, correspondence SqlToks), a the expression it
   should denote. Then (1) PostgreSQL's grammar, with its own precedences, reads exactly a from ts - the same Boolean
   combination of the same leaf predicates as the query's own structure - and (2) a is true on exactly the rows on which the
   query is true (+x means x, -x means NOT x, numbers compare numerically, strings as strings, * and ? as wildcards).
   side: integers below 10^30 in absolute value (every int64), patterns free of SIMILAR TO's own metacharacters. *)
Theorem C03_grammar_reads_the_query_structure : forall (e : Parser.expr) (ts : list tok) (a : ast),
  tr e = Some (ts, a) -> pg_parse ts = Some a.
Proof. exact SqlParse.tr_parses. Qed.

Theorem C03_sql_true_on_exactly_the_rows_of_the_query : forall (r : row) (e : Parser.expr) (ts : list tok) (a : ast),
  tr e = Some (ts, a) -> side e = true ->
  pg_parse ts = Some a /\ ssem r [] a = qsem r e.
Proof. intros r e ts a T S. split; [exact (SqlParse.tr_parses e ts a T)|exact (SqlSemProof.tr_sem r [] e ts a T S)]. Qed.

(* The same on the MODEL's renderer, end to end: whenever Render returns a text s for a tree of the fragment, PostgreSQL -
   scanner model and grammar model, pg_read - reads from s exactly the expression a, and a is true on exactly the rows of the
   query. Further premises, all decidable and counted per case by the driver: text_ok (integers in ranges within int64, a
   pattern not of the /.../ form that the renderer writes with the regular-expression operator), names_ok (field names non-empty,
   without a double quote, at most 63 bytes: longer ones are truncated by PostgreSQL, K9). What remains outside the theorem is
   that ToPostgres SUCCEEDS on the fragment (checked per case) and the tie of the model's Render to the Go code (correspondence). *)
Theorem C03_rendered_sql_is_true_on_exactly_the_rows_of_the_query :
  forall (o2 : oracle2) (r : row) (e : Parser.expr) (ts : list tok) (a : ast) (s : string),
  tr e = Some (ts, a) -> side e = true -> text_ok e = true -> names_ok e = true ->
  render o2 e = Ret (s, None) ->
  pg_read (str s) = Some a /\ ssem r [] a = qsem r e.
Proof.
  intros o2 r e ts a s T S Ok Nm R. split; [exact (SqlEndToEnd.render_reads o2 e ts a s T Ok Nm R)|exact (SqlSemProof.tr_sem r [] e ts a T S)].
Qed.

(* ... and the renderer SUCCEEDS on the fragment: with leaves the literal function accepts (SqlSucceeds.leaves_ok: every leaf text
   valid UTF-8 and NUL-free - utf8.ValidString is an oracle -, field names non-empty and without a double quote) Render returns a
   text, PostgreSQL reads the expression a from it, and a is true on exactly the rows of the query: the whole of C03 for the
   integer/string fragment, on the model. *)
Theorem C03_fragment_renders_and_selects_exactly_the_rows_of_the_query :
  forall (o2 : oracle2) (r : row) (e : Parser.expr) (ts : list tok) (a : ast),
  tr e = Some (ts, a) -> side e = true -> text_ok e = true -> names_ok e = true -> SqlSucceeds.leaves_ok o2 e = true ->
  exists s : string, render o2 e = Ret (s, None) /\ pg_read (str s) = Some a /\ ssem r [] a = qsem r e.
Proof.
  intros o2 r e ts a T S Ok Nm Lv. destruct (SqlSucceeds.render_succeeds o2 e ts a T Ok Lv) as [s R]. exists s.
  split; [exact R|]. split; [exact (SqlEndToEnd.render_reads o2 e ts a s T Ok Nm R)|exact (SqlSemProof.tr_sem r [] e ts a T S)].
Qed.

(* The property as stated, from the query TEXT: for a query printed from a specification tree (Spec/Printer, the trees of C05:
   tokens of any bytes that lex to themselves when a blank follows, parentheses at least where the precedence table requires them) whose parse is a tree of
   the fragment, ToPostgres - Parse, then Render - returns a text, PostgreSQL reads one expression from it, and that expression is
   true on exactly the rows on which the query is true. (SqlQueryText.premises_are_satisfiable: a concrete query meets every premise.) *)
Theorem C03_query_text_to_rows :
  forall (o : oracle) (o2 : oracle2) (cl : Lex.classes),
  (forall r, Lex.is_space r = true -> Lex.is_alnum cl r = false) ->
  forall (t : Printer.qt) (ts : list tok) (a : ast),
  Printer.wfq o t -> Forall (LexWsG.lexes_clean cl) (map PrintedText.ltok (Printer.pr t)) ->
  tr (Printer.want o t) = Some (ts, a) ->
  side (Printer.want o t) = true -> text_ok (Printer.want o t) = true -> names_ok (Printer.want o t) = true ->
  SqlSucceeds.leaves_ok o2 (Printer.want o t) = true ->
  exists s : string,
    Api.to_postgres o o2 cl "" (PrintedText.text_of (Printer.pr t)) = Ret (s, None) /\
    pg_read (str s) = Some a /\
    forall r : row, ssem r [] a = qsem r (Printer.want o t).
Proof. exact SqlQueryText.to_postgres_on_printed_fragment_query. Qed.

(* the premises are met by a tree with every construct of the fragment: a must-clause over a range and a negated wildcard
   pattern, OR a value list with a negative integer AND a prohibited quoted string, OR a comparison *)
Definition lit (v : value) : Parser.expr := E v Literal VNil 0%Z 0%Z.
Definition colv (f : string) : value := VExp (lit (VCol f)).
Definition node (l : value) (op : operator) (r : value) : Parser.expr := E l op r 0%Z 0%Z.
Definition sample_tree : Parser.expr :=
  node (VExp (node (VExp (node (VExp (node (VExp (node (colv "n") Range (VBound (VExp (lit (VInt 1))) (VExp (lit (VInt 5))) true))) And
                                      (VExp (node (VExp (node (colv "s") Like (VExp (E (VStr "w*") Wild VNil 0%Z 0%Z)))) Not VNil)))) Must VNil)) Or
             (VExp (node (VExp (node (colv "k") Tables.In (VExp (node (VList [lit (VInt 3); lit (VInt (-4))]) Tables.List VNil)))) And
                         (VExp (node (VExp (node (colv "t") Equals (VExp (lit (VStr "x y"))))) MustNot VNil))))))
       Or (VExp (node (colv "m") GreaterEq (VExp (lit (VInt 7))))).
Example C03_premises_are_satisfiable :
  side sample_tree = true /\ text_ok sample_tree = true /\ names_ok sample_tree = true /\ exists ts a, tr sample_tree = Some (ts, a) /\ Nat.leb 40 (List.length ts) = true.
Proof. split; [vm_compute; reflexivity|]. split; [vm_compute; reflexivity|]. split; [vm_compute; reflexivity|]. eexists; eexists; split; [vm_compute; reflexivity|vm_compute; reflexivity]. Qed.


(* the SQL templates of the one-line render functions (equals, the four comparisons, IN, the list parentheses, AND/OR, NOT) are not
   retyped in the model: gentables reads each fmt.Sprintf format from pkg/driver/renderfn.go on every run (Tables.fn_formats) and
   the model's function IS that format applied to its operands. A function rewritten into another form drops out of the table (no
   entry, nothing claimed; the correspondence check still compares its output); a changed format breaks this theorem. *)
Theorem C03_sql_templates_are_read_from_the_source : forall (o2 : oracle2) (id : Tables.renderfn_id) (l r : string),
  match FormatsTie.assoc_fmt (FormatsTie.fn_name id) Tables.fn_formats with
  | Some (f, args) => TablesTie.fn_of_id o2 id l r = Ret (FormatsTie.fmt_s f (map (FormatsTie.arg_val l r (FormatsTie.fn_op id)) args), None)
  | None => True
  end.
Proof. exact FormatsTie.formats_tie. Qed.

Print Assumptions C03_pattern_translation_preserves_meaning.
Print Assumptions C03_grammar_reads_the_query_structure.
Print Assumptions C03_sql_true_on_exactly_the_rows_of_the_query.
Print Assumptions C03_rendered_sql_is_true_on_exactly_the_rows_of_the_query.
Print Assumptions C03_fragment_renders_and_selects_exactly_the_rows_of_the_query.
Print Assumptions C03_query_text_to_rows.
Print Assumptions C03_sql_templates_are_read_from_the_source.
